"""ArithmeticDict (spec/ArithDict.tla): spec -> code replay of operation histories.

Growth beyond the listed properties; run as an extra stage of C11 (whose anchors include
"ArithmeticDict scalar multiplication").  Every history TLC enumerates is replayed on real
ArithmeticDict objects and the projected registers (explicit keys and values), the pairwise
`==` table and all_non_negative() are compared with the spec's after the last operation.
"""
from fractions import Fraction


def _mk(cat_entry):
    from chempy.util.arithmeticdict import ArithmeticDict
    return ArithmeticDict(Fraction, {k: Fraction(n, d) for k, (n, d) in cat_entry})


def _proj(d):
    return [[k, [Fraction(v).numerator, Fraction(v).denominator]] for k, v in sorted(d.items())]


def replay_history(case):
    from chempy.util.arithmeticdict import ArithmeticDict
    cat = case["in"]["catalog"]
    regs = {1: ArithmeticDict(Fraction), 2: ArithmeticDict(Fraction)}
    raised = False
    try:
        for h in case["in"]["hist"]:
            op = h["op"]
            if op == "load":
                regs[h["r"]] = _mk(cat[h["i"] - 1])
            elif op in ("add", "sub", "mul", "div"):
                a, b = regs[h["r"]], regs[h["s"]]
                regs[h["t"]] = {"add": lambda: a + b, "sub": lambda: a - b, "mul": lambda: a * b,
                                "div": lambda: a / b}[op]()
            elif op == "iadd":
                regs[h["r"]] += regs[h["s"]]
            elif op == "isub":
                regs[h["r"]] -= regs[h["s"]]
            elif op == "imul":
                regs[h["r"]] *= regs[h["s"]]
            else:
                a, c = regs[h["r"]], h["c"]
                regs[h["t"]] = {"adds": lambda: a + c, "subs": lambda: a - c, "muls": lambda: a * c,
                                "rmuls": lambda: c * a, "rsubs": lambda: c - a,
                                "divs": lambda: a / Fraction(c), "rdivs": lambda: Fraction(c) / a}[op]()
    except ZeroDivisionError:
        raised = True
    exp = case["exp"]
    if raised or exp["raised"]:
        obs = {"raised": raised}
        return None if raised == exp["raised"] else (obs, {"raised": exp["raised"]})
    obs = {"raised": False,
           "regs": [{"r": r, "d": _proj(regs[r]), "nonneg": regs[r].all_non_negative()} for r in (1, 2)],
           "eq": [[regs[i] == regs[j] for j in (1, 2)] for i in (1, 2)]}
    want = {"raised": False, "regs": exp["regs"], "eq": exp["eq"]}
    return None if obs == want else (obs, want)


def run_stage(ctx, pid_key="ArithmeticDict"):
    res = ctx.tlc("ArithDict_MC", "ArithDict_MC_inv.cfg", timeout=600)
    res = ctx.tlc("ArithDict_MC", "ArithDict_MC_gen_%s.cfg" % ("q" if ctx.quick else "t"),
                  require_actions=["Load", "BinDict", "InPlaceDict", "Scalar"] if ctx.quick else (),
                  require_cases=100, timeout=900)
    sel = ctx.pick(res.cases, 4000 if ctx.quick else 60000)
    outs = ctx.pmap(replay_history, sel)
    ctx.cases_replayed += len(sel)
    for case, bad in zip(sel, outs):
        ctx.ran({"arithdict": case["in"]["hist"]})
        if bad:
            ctx.violation({"fn": pid_key, "hist": case["in"]["hist"]},
                          {"direction": "spec->code", "kind": "arithdict", "case": case,
                           "observed": bad[0], "expected": bad[1]})
    if sel:
        ctx.sample({"arithdict_history": sel[0]["in"]["hist"], "expected": sel[0]["exp"]}, cap=12)
