"""Binding layer for spec/Conservation.tla (C05, C06).

Only three kinds of things happen here: (a) chempy objects / reaction text are built from the
abstract system of a CASE (or from a seeded generator), (b) chempy is called, (c) results are
projected structurally (exception -> class name and the integer named in its message, matrices ->
lists of ints, Fractions -> [n, d], sympy expressions -> coefficient tables of a linear form,
float arrays -> integers in a stated unit).  Whether a system must be accepted, what the
composition matrix is, whether an observed vector is an invariant, bounds, the safe step and
every tolerance come from TLC (CASE `exp` fields or trace verdicts).
"""
import math
import re
import warnings
from fractions import Fraction

from formula_common import enc_rational

CAP = 2 * 10 ** 9


def pmap(fn, items, procs=16):
    """fork-pool map also for short lists of slow items (core.pmap runs < 64 items serially), with the
    same protection as core.pmap: a worker exception travels back as text and a dead worker (OOM
    kill, segfault) ends the map - both as MachineryFailure, never a hang."""
    import multiprocessing
    import core
    from concurrent.futures import ProcessPoolExecutor
    from concurrent.futures.process import BrokenProcessPool
    items = list(items)
    if len(items) <= 1:
        return [fn(x) for x in items]
    out = []
    try:
        with ProcessPoolExecutor(max_workers=min(procs, len(items)),
                                 mp_context=multiprocessing.get_context("fork")) as ex:
            for tag, val in ex.map(core._pmap_chunk, [(fn, [x]) for x in items]):
                if tag == "err":
                    raise core.MachineryFailure("worker raised in pmap(%s):\n%s" % (getattr(fn, "__name__", fn), val))
                out.extend(val)
    except BrokenProcessPool as e:
        raise core.MachineryFailure("a pmap worker process died (%s) in %s" % (e, getattr(fn, "__name__", fn)))
    return out


def guarded(fn):
    """TOTAL OBSERVATION: whatever the code under test returns or raises inside a worker (wrong type,
    wrong shape, nan, an unexpected exception class) becomes an observation that equals no
    expectation - the worker returns {"unobservable": text} and the caller reports a violation."""
    import functools
    import traceback

    @functools.wraps(fn)
    def wrapper(item):
        import core
        try:
            return fn(item)
        except core.MachineryFailure:
            raise
        except Exception:   # noqa
            return {"unobservable": traceback.format_exc()[-1500:]}
    return wrapper


def frac(q):
    return Fraction(int(q[0]), int(q[1]))


def qfloat(q):
    """[n, d] -> float; [1, 0] is the spec's "no bound"."""
    if int(q[1]) == 0:
        return math.inf
    return int(q[0]) / int(q[1])


def seq(x):
    """ToJson writes an empty sequence of some shapes as {}."""
    return [] if isinstance(x, dict) and not x else x


def enc_q(x):
    """exact number -> [n, d] (None if it is not a rational that fits 32 bit)."""
    if isinstance(x, bool):
        return None
    if isinstance(x, int):
        return [x, 1] if abs(x) < 2 ** 31 else None
    if isinstance(x, Fraction):
        if abs(x.numerator) >= 2 ** 31 or x.denominator >= 2 ** 31:
            return None
        return [x.numerator, x.denominator]
    try:
        import sympy
        if isinstance(x, sympy.Rational):
            return enc_q(Fraction(int(x.p), int(x.q)))
        if isinstance(x, sympy.Float) or isinstance(x, float):
            return enc_rational(float(x))
    except ImportError:
        pass
    try:
        import numpy as np
        if isinstance(x, np.integer):
            return enc_q(int(x))
        if isinstance(x, np.floating):
            return enc_rational(float(x))
    except ImportError:
        pass
    return enc_rational(x)


def tlc_many(ctx, jobs, workers=6):
    """Run several independent TLC configs concurrently (JVM start-up dominates the small slices).
    jobs: list of (module, cfg, kwargs) -> list of TLCResult in order; failures propagate."""
    from concurrent.futures import ThreadPoolExecutor
    if len(jobs) <= 1:
        return [ctx.tlc(m, c, **kw) for m, c, kw in jobs]
    with ThreadPoolExecutor(len(jobs)) as ex:
        futs = [ex.submit(ctx.tlc, m, c, **dict(dict(workers=workers), **kw)) for m, c, kw in jobs]
        return [f.result() for f in futs]


# ------------------------------------------------------------------ building inputs
def names_of(sysin):
    return [s["name"] for s in sysin["subs"]]


def side_dict(names, vec):
    return {names[i]: int(n) for i, n in enumerate(vec) if int(n) > 0}


def comp_value(n, den):
    """count n/den as the library would hold it: int when integral, else a float (as the parser gives)."""
    f = Fraction(int(n), int(den))
    return int(f) if f.denominator == 1 else float(f)


def make_substances(sysin, labels=None):
    """labels: {int key: label} - compositions keyed by the spec's labels instead of the integers."""
    from chempy import Substance
    out = []
    for s in sysin["subs"]:
        den = int(s.get("den", 1))
        out.append(Substance(s["name"], composition={(labels[int(k)] if labels else int(k)): comp_value(n, den)
                                                     for k, n in seq(s["comp"])}))
    return out


def make_reactions(sysin, exact=True, zeros=False):
    """zeros: every substance that takes part in the system is listed on both sides of every reaction,
    with an explicit coefficient 0 where it does not occur (a degenerate but legal way of writing it)."""
    from chempy import Reaction
    names = names_of(sysin)
    if zeros:
        def side_dict(nm, vec):    # noqa: F811
            return {nm[i]: int(n) for i, n in enumerate(vec)}
    else:
        side_dict = globals()["side_dict"]
    out = []
    for r in sysin["rxns"]:
        k = frac(r["k"])
        if not exact:
            k = float(k)
        elif k.denominator == 1:
            k = int(k)
        out.append(Reaction(side_dict(names, r["reac"]), side_dict(names, r["prod"]), k,
                            inact_reac=side_dict(names, r["ireac"]), inact_prod=side_dict(names, r["iprod"])))
    return out


_KEY_RE = re.compile(r"\(([^\s():]+): ")


def named_key(msg, labels=None):
    """The composition key an error message names -> the spec's integer key (-999: none / unknown)."""
    m = _KEY_RE.search(msg)
    if not m:
        return -999
    tok = m.group(1)
    if labels:
        inv = {v: k for k, v in labels.items()}
        return int(inv.get(tok, -999))
    return int(tok) if re.fullmatch(r"-?\d{1,9}", tok) else -999


def observe_build(make, labels=None):
    """Call the constructor; -> (rsys or None, observation dict)."""
    with warnings.catch_warnings():
        warnings.simplefilter("ignore")
        try:
            rsys = make()
        except Exception as e:  # noqa
            return None, {"raised": True, "exc": type(e).__name__,
                          "key": named_key(str(e), labels), "msg": str(e)[:200]}
    return rsys, {"raised": False, "exc": "", "key": -999, "msg": ""}


def build_obj(sysin):
    from chempy import ReactionSystem
    return observe_build(lambda: ReactionSystem(make_reactions(sysin), make_substances(sysin)))


def build_obj_alias(sysin, zeros=False):
    """The system under alias keys: OrderedDict(alias -> Substance(name=label, composition)), reactions
    over the aliases (optionally with explicit zero coefficients).  Returns (rsys, obs, sysin as the
    library knows it: substances named by their keys)."""
    from chempy import ReactionSystem
    from collections import OrderedDict
    aliases = ["s%dx" % (i + 1) for i in range(len(sysin["subs"]))] if "aliases" not in sysin else list(sysin["aliases"])[:len(sysin["subs"])]
    subs = make_substances(sysin)
    ain = dict(sysin, subs=[dict(x, name=a, label=x["name"]) for x, a in zip(sysin["subs"], aliases)])
    arg = OrderedDict(zip(aliases, subs))
    rsys, obs = observe_build(lambda: ReactionSystem(make_reactions(ain, zeros=zeros), arg))
    return rsys, obs, ain


CFG_KWARGS = {
    "default": {},
    "checks_balance": {"checks": ["balance"]},
    "checks_all_listed": {"checks": ("balance", "substance_keys", "duplicate", "duplicate_names")},
    "dont_check_duplicate": {"dont_check": {"duplicate"}},
    "dont_check_balance": {"dont_check": {"balance"}},
    "checks_none": {"checks": ()},
    "checks_without_balance": {"checks": ["substance_keys", "duplicate"]},
}
FORMS = ["list", "tuple", "odict", "dict", "names+factory", "set+factory", "list+sort", "alias-odict", "string-keys"]
SORTING_FORMS = ("dict", "set+factory", "list+sort")   # a plain dict counts as unordered: the constructor sorts


def key_labels(sysin):
    return {int(k): str(lab) for k, lab in sysin["keylabels"]}


def build_variant(sysin, cfg_name, form):
    """Constructor with one of the check configurations and one of the accepted forms of the
    substances argument (all of them carry the compositions of the case)."""
    from chempy import ReactionSystem
    from collections import OrderedDict
    subs = make_substances(sysin)
    table = {s.name: s for s in subs}
    kw = dict(CFG_KWARGS[cfg_name])
    if form == "string-keys":
        # composition keys are the spec's labels (strings that sort like the integer keys)
        labels = key_labels(sysin)
        return observe_build(lambda: ReactionSystem(make_reactions(sysin), make_substances(sysin, labels), **kw), labels)
    if form == "alias-odict":
        # the system knows its substances by the KEYS of the mapping (the spec's aliases); the
        # Substance objects keep their own names as mere labels; reactions are written over the keys
        alias = dict(zip(names_of(sysin), sysin["aliases"]))
        arg = OrderedDict((alias[s.name], s) for s in subs)
        rxns = make_reactions(dict(sysin, subs=[dict(x, name=alias[x["name"]]) for x in sysin["subs"]]))
        return observe_build(lambda: ReactionSystem(rxns, arg, **kw))
    if form == "list":
        arg = list(subs)
    elif form == "tuple":
        arg = tuple(subs)
    elif form == "odict":
        arg = OrderedDict((s.name, s) for s in subs)
    elif form == "dict":
        arg = {s.name: s for s in subs}
    elif form == "names+factory":
        arg = [s.name for s in subs]
        kw["substance_factory"] = table.__getitem__
    elif form == "set+factory":
        arg = set(s.name for s in subs)
        kw["substance_factory"] = table.__getitem__
    elif form == "list+sort":
        arg = list(subs)
        kw["sort_substances"] = True
    else:
        raise ValueError(form)
    return observe_build(lambda: ReactionSystem(make_reactions(sysin), arg, **kw))


def observe_check_balance(rsys, strict, throw, labels=None):
    try:
        r = rsys.check_balance(strict=strict, throw=throw)
    except Exception as e:  # noqa
        return {"ev": "CheckBalance", "strict": strict, "throw": throw, "raised": True, "exc": type(e).__name__,
                "key": named_key(str(e), labels), "result": False}
    return {"ev": "CheckBalance", "strict": strict, "throw": throw, "raised": False, "exc": "", "key": -999,
            "result": bool(r)}


def bad_event(ev, why, **kw):
    """An observation that cannot be encoded: TLC rejects it (clause unobservable:<ev>)."""
    return dict({"ev": ev, "bad": str(why)[:200]}, **kw)


def key_to_int(k, labels=None):
    if labels:
        inv = {v: kk for kk, v in labels.items()}
        return inv.get(k)
    return k if isinstance(k, int) and not isinstance(k, bool) else None


def observe_violations(rsys, i, keys_arg, known_keys=None, labels=None):
    """rxn.composition_violation(substances, composition_keys=None | True | explicit list);
    keys_arg / known_keys are the spec's integer keys (translated through labels for the call)."""
    rxn = rsys.rxns[i]
    out = lambda k: labels[k] if labels else k          # noqa: E731
    if keys_arg is True:
        net, keys = rxn.composition_violation(rsys.substances, True)
        keys = [key_to_int(k, labels) for k in keys]
        allkeys = True
    elif keys_arg is None:
        net = rxn.composition_violation(rsys.substances)
        keys, allkeys = (list(known_keys) if known_keys is not None else None), True
    else:
        net = rxn.composition_violation(rsys.substances, [out(k) for k in keys_arg])
        keys, allkeys = list(keys_arg), False
    if keys is None:
        return None
    netq = [enc_q(x) for x in net]
    if any(e is None for e in netq) or any(k is None for k in keys):
        return bad_event("Violations", "net=%r keys=%r" % (list(net), keys), i=i + 1)
    return {"ev": "Violations", "i": i + 1, "keys": [int(k) for k in keys], "net": netq, "allkeys": allkeys}


def observe_charge_violation(rsys, i):
    v = rsys.rxns[i].charge_neutrality_violation(rsys.substances)
    e = enc_q(v)
    if e is None:
        return bad_event("ChargeViolation", repr(v), i=i + 1)
    return {"ev": "ChargeViolation", "i": i + 1, "v": e}


def build_text(sysin):
    """Text route: reaction TEXT from the spec.  Substances are formula-defined (parsed from their
    names) unless the system contains a substance that is composed of nothing (third body, photon:
    not a formula) - then every substance is given explicitly composed."""
    from chempy import ReactionSystem
    from collections import OrderedDict
    txt = "\n".join(sysin["lines"])
    if any(not seq(s["comp"]) for s in sysin["subs"]):
        return observe_build(lambda: ReactionSystem.from_string(
            txt, OrderedDict((s.name, s) for s in make_substances(sysin))))
    return observe_build(lambda: ReactionSystem.from_string(txt, " ".join(names_of(sysin))))


def build_text_derived(sysin):
    """from_string without a substances argument: the substances are those that occur in the text,
    formula-defined, sorted by name."""
    from chempy import ReactionSystem
    return observe_build(lambda: ReactionSystem.from_string("\n".join(sysin["lines"])))


# ------------------------------------------------------------------ projections
def int_matrix(m):
    out = []
    for row in m:
        r = []
        for x in row:
            e = enc_q(x)
            if e is None or e[1] != 1:
                return None
            r.append(e[0])
        out.append(r)
    return out


def q_matrix(m):
    out = []
    for row in m:
        r = [enc_q(x) for x in row]
        if any(e is None for e in r):
            return None
        out.append(r)
    return out


def observe_bvectors(rsys, labels=None, src="composition_balance_vectors"):
    """-> BVectors event (B entries as [n, d]); an unencodable answer is a bad event."""
    A0, _ = rsys.composition_balance_vectors()
    try:   # the caller may do what it likes with a returned matrix: the next answer must be unaffected
        for row in A0:
            for j in range(len(row)):
                row[j] = 12345
    except TypeError:
        pass
    A, keys = rsys.composition_balance_vectors()
    ks = [key_to_int(k, labels) for k in keys]
    B = q_matrix(A)
    if B is None or any(k is None for k in ks):
        return bad_event("BVectors", "B=%r keys=%r" % (A, list(keys)), src=src)
    return {"ev": "BVectors", "B": B, "keys": ks, "src": src}


def observe_invariants(odesys):
    """odesys.linear_invariants / linear_invariant_names -> BVectors event."""
    li = odesys.linear_invariants
    A = [] if li is None else q_matrix(li.tolist() if hasattr(li, "tolist") else li)
    try:
        keys = [int(x) for x in (odesys.linear_invariant_names or [])]
    except (TypeError, ValueError):
        keys = None
    if A is None or keys is None:
        return bad_event("BVectors", "linear_invariants=%r names=%r" % (li, odesys.linear_invariant_names),
                         src="odesys.linear_invariants")
    return {"ev": "BVectors", "B": A, "keys": keys, "src": "odesys.linear_invariants"}


def observe_net(rsys):
    """-> NetStoich event."""
    N = rsys.net_stoichs().tolist()
    M = int_matrix(N)
    if M is None:
        return bad_event("NetStoich", repr(N))
    return {"ev": "NetStoich", "N": M}


def observe_rates(rsys, names, cvec):
    """rsys.rates at an integer state -> per-substance [n, d] (absent substance: rate 0)."""
    r = rsys.rates({n: int(v) for n, v in zip(names, cvec)})
    out = []
    for n in names:
        e = enc_q(r.get(n, 0))
        if e is None:
            return None
        out.append(e)
    return out


def observe_rates_batch(rsys, names, cvecs):
    """rsys.rates with every concentration given as an array over several states at once
    (mutable values) -> one exact per-substance rate vector per state."""
    import numpy as np
    variables = {n: np.array([int(cv[i]) for cv in cvecs], dtype=object) for i, n in enumerate(names)}
    r = rsys.rates(variables)
    out = []
    for s_idx in range(len(cvecs)):
        row = []
        for n in names:
            v = r.get(n, 0)
            v = v[s_idx] if hasattr(v, "__len__") else v
            e = enc_q(v)
            if e is None:
                return None
            row.append(e)
        out.append(row)
    return out


def project_linear_form(expr, elim_idx, deps, y0s, sympy):
    """c_e = expr  ->  u.c = w.y0 + const  with u = e_e - (coefficients of expr on c)."""
    gens = list(deps) + list(y0s)
    try:
        poly = sympy.Poly(sympy.expand(expr), *gens)
    except sympy.PolynomialError:
        return None
    if poly.total_degree() > 1:
        return None
    n = len(deps)
    u = [Fraction(0)] * n
    w = [Fraction(0)] * n
    const = Fraction(0)
    for mon, coef in poly.terms():
        e = enc_q(coef) if (coef.is_Rational or coef.is_Float) else None
        if e is None:
            return None
        cf = Fraction(e[0], e[1])
        if sum(mon) == 0:
            const += cf
            continue
        i = mon.index(1)
        if i < n:
            u[i] -= cf
        else:
            w[i - n] += cf
    u[elim_idx] += 1
    enc = [enc_q(x) for x in u], [enc_q(x) for x in w], enc_q(const)
    if any(e is None for e in enc[0]) or any(e is None for e in enc[1]) or enc[2] is None:
        return None
    return {"elim": elim_idx + 1, "u": enc[0], "w": enc[1], "const": enc[2]}


def observe_lindep(odesys, extra, preferred, repeat=False, y0=None):
    """-> ("forms", [event fields...]) | ("refused", msg) | ("unencodable", why).
    repeat: the solver object is called twice and the second answer is projected;
    y0: integer initial values instead of symbols (the constant then carries u.y0)."""
    import sympy
    names = list(odesys.names)
    y0s = [sympy.Symbol("y0_%d" % i) for i in range(len(names))]
    if y0 is None:
        y0map = {odesys.dep[i]: y0s[i] for i in range(len(names))}
    else:
        y0map = {odesys.dep[i]: sympy.Integer(int(y0[i])) for i in range(len(names))}
    try:
        solver = extra["linear_dependencies"](preferred)
        exprs = solver(None, y0map, None, sympy)
        if repeat:
            exprs = solver(None, y0map, None, sympy)
    except ValueError as e:
        return "refused", str(e)[:120]
    forms = []
    deps = list(odesys.dep)
    for sym, expr in exprs.items():
        idx = deps.index(sym)
        f = project_linear_form(expr, idx, deps, y0s, sympy)
        if f is None:
            return "unencodable", "not a rational linear form: %s" % (expr,)
        if y0 is not None:
            f = {"elim": f["elim"], "u": f["u"], "const": f["const"], "y0": [int(v) for v in y0]}
        forms.append(f)
    return "forms", forms


def e12(x):
    """|x| in units of 10^-12, rounded up, capped (drift encoder of ConservationTrace)."""
    if x != x or x in (math.inf, -math.inf):
        return CAP
    return int(min(CAP, math.ceil(abs(x) * 1e12)))


def integrate(odesys, names, c0, tout, atol, rtol):
    with warnings.catch_warnings():
        warnings.simplefilter("ignore")
        res = odesys.integrate([float(t) for t in tout], {n: float(v) for n, v in zip(names, c0)},
                               integrator="scipy", atol=atol, rtol=rtol, nsteps=50000)
    return res


def observe_drift(yout, names_out, names, B, c0):
    """rows of B (the SPEC's matrix, columns ordered like `names`) applied to the result array."""
    import numpy as np
    if not B:   # a system without any composition key has no invariant to drift
        return []
    B = [[qfloat(x) if isinstance(x, (list, tuple)) else float(x) for x in row] for row in B]
    col = [list(names_out).index(n) for n in names]
    Y = np.asarray(yout, dtype=float)[:, col]
    Bm = np.asarray(B, dtype=float)
    tot = Bm @ np.asarray(c0, dtype=float)
    dev = np.abs(Y @ Bm.T - tot[None, :]).max(axis=0) if len(B) else []
    return [e12(d) for d in dev]


# ------------------------------------------------------------------ trace events
def system_events(sysin):
    evs = []
    for s in sysin["subs"]:
        evs.append({"ev": "Subst", "name": s["name"], "comp": [[int(k), int(n)] for k, n in seq(s["comp"])],
                    "den": int(s.get("den", 1))})
    for r in sysin["rxns"]:
        evs.append({"ev": "Rxn", "reac": [int(x) for x in r["reac"]], "prod": [int(x) for x in r["prod"]],
                    "ireac": [int(x) for x in r["ireac"]], "iprod": [int(x) for x in r["iprod"]],
                    "k": [int(r["k"][0]), int(r["k"][1])]})
    return evs


def build_event(obs):
    return {"ev": "Build", "raised": bool(obs["raised"]), "exc": obs["exc"], "key": int(obs["key"])}
