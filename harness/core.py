"""Check context: evidence accounting, violation reporting, known findings, TLC plumbing.

The property modules in ``harness/props`` only (a) build inputs from abstract cases, (b) call
chempy, (c) project results; every expected value and every trace verdict comes from TLC via
this context.
"""
import collections
import hashlib
import json
import multiprocessing
import os
import random
import shutil
import sys
import tempfile
import time
import traceback

import tlc as _tlc

ROOT = os.path.dirname(os.path.dirname(os.path.abspath(__file__)))
EVIDENCE_DIR = os.path.join(ROOT, "evidence")
REPLAY_DIR = os.path.join(ROOT, "replays")
KNOWN_FILE = os.path.join(ROOT, "known_findings.json")
REPO = os.path.realpath(os.environ.get("VERIF_REPO", "/repo"))
if REPO != os.path.realpath("/repo"):
    # development runs against a scratch copy (seeded changes) must not overwrite the evidence of /repo
    EVIDENCE_DIR = os.path.join(ROOT, "replays", "dev-evidence")

MAX_PRINTED = 25


def _pmap_chunk(arg):
    fn, chunk = arg
    try:
        return ("ok", [fn(x) for x in chunk])
    except BaseException:                                   # noqa: the traceback travels as text
        import traceback
        return ("err", traceback.format_exc())


class MachineryFailure(RuntimeError):
    pass


def stable_hash(obj):
    return hashlib.sha1(json.dumps(obj, sort_keys=True, default=str).encode()).hexdigest()[:16]


def load_known(pid):
    """Open findings for pid from known_findings.json (+ optional known_findings.d/*.json)."""
    import glob
    out = []
    for path in [KNOWN_FILE] + sorted(glob.glob(os.path.join(ROOT, "known_findings.d", "*.json"))):
        try:
            data = json.load(open(path))
        except FileNotFoundError:
            continue
        out += [e for e in data.get("findings", []) if e.get("property") == pid and e.get("status") == "open"]
    return out


def _matches(entry, key):
    for k, v in entry.get("match", {}).items():
        kv = key.get(k)
        if isinstance(v, list):
            if kv not in v and str(kv) not in [str(x) for x in v]:
                return False
        elif str(kv) != str(v):
            return False
    return True


class Context(object):
    def __init__(self, pid, tier, seed, level, replay=None):
        self.pid = pid
        self.tier = tier
        self.quick = tier == "quick"
        self.seed = seed
        self.level = level
        self.rng = random.Random(seed)
        self.t0 = time.time()
        self.states = 0
        self.transitions = 0
        self.tlc_runs = []
        self.coverage_actions = {}
        self.evaluations = 0
        self.traces_validated = 0
        self.cases_replayed = 0
        self._distinct = set()
        self.samples = []
        self.skipped = collections.Counter()
        self.counters = collections.Counter()
        self.violations = []
        self.known_hits = collections.OrderedDict()
        self.known = load_known(pid)
        self.assumptions = []
        self.rule = ""
        self.exhaustive = None
        self.notes = []
        self.tmp = tempfile.mkdtemp(prefix="verif-%s-" % pid)
        # every temporary file of this run (TLC scratch, CBC model files written by pulp, lambdify caches ...) lives
        # under self.tmp, in this process and in everything it forks or starts; cleanup() removes it
        os.environ["TMPDIR"] = self.tmp
        tempfile.tempdir = self.tmp
        self._printed = 0
        self.replay_mode = replay is not None

    # ------------------------------------------------------------------ TLC
    def tlc(self, module, cfg, require_actions=(), require_cases=None, **kw):
        """Run an exhaustive / simulation TLC config; a failure is a machinery failure."""
        kw.setdefault("coverage", bool(require_actions))
        try:
            res = _tlc.run_tlc(module, cfg, **kw)
        except _tlc.TLCError as e:
            raise MachineryFailure(str(e))
        self.states += res.distinct
        self.transitions += res.generated
        self.tlc_runs.append(dict(module=module, cfg=cfg, **res.summary()))
        for a in require_actions:
            # an action wrapped as `GenX == \E v : X(v)` is reported by TLC under either name
            t = sum(res.coverage.get(n, (0, 0))[1] for n in {a, a[3:] if a.startswith("Gen") else a})
            self.coverage_actions["%s!%s" % (module, a)] = t
            if t == 0:
                raise MachineryFailure("vacuity: action %s of %s never taken under %s" % (a, module, cfg))
        if require_cases is not None and len(res.cases) < require_cases:
            raise MachineryFailure("vacuity: %s/%s produced %d cases (< %d)" % (module, cfg, len(res.cases), require_cases))
        return res

    def validate_traces(self, module, cfg, traces, env=None, workers=16, timeout=900, chunk=4000,
                        count=True):
        """Batch trace validation: returns one (verdict, pos, clause) per trace, in order.

        Totality is enforced: every trace must get exactly one verdict, else MachineryFailure."""
        out = []
        for lo in range(0, len(traces), chunk):
            part = traces[lo:lo + chunk]
            path = os.path.join(self.tmp, "traces-%s-%d.json" % (module, lo))
            with open(path, "w") as fh:
                json.dump(part, fh)
            e = dict(env or {})
            e["TRACE_FILE"] = path
            try:
                res = _tlc.run_tlc(module, cfg, env=e, workers=workers, timeout=timeout)
            except _tlc.TLCError as ex:
                raise MachineryFailure(str(ex))
            self.states += res.distinct
            self.transitions += res.generated
            self.tlc_runs.append(dict(module=module, cfg=cfg, traces=len(part), **res.summary()))
            by = {}
            for tid, v, pos, clause in res.verdicts:
                if tid in by and by[tid] != (v, pos, clause):
                    # several chains for one trace (nondeterministic unlogged choice): accept wins
                    if by[tid][0] == "accept":
                        continue
                by[tid] = (v, pos, clause)
            for i in range(1, len(part) + 1):
                if i not in by:
                    raise MachineryFailure("trace validation not total: no verdict for trace %d of %s" % (lo + i, module))
                out.append(by[i])
            os.unlink(path)
        if count:
            self.traces_validated += len(traces)
        return out

    # ------------------------------------------------------------ accounting
    def ran(self, ident=None, nontrivial=True, n=1):
        self.evaluations += n
        if ident is not None and nontrivial:
            self._distinct.add(ident if isinstance(ident, str) else stable_hash(ident))

    def sample(self, obj, cap=6):
        if len(self.samples) < cap:
            self.samples.append(obj)

    def skip(self, why, n=1):
        self.skipped[why] += n

    def pick(self, items, n, always=lambda c: False):
        """Seed-dependent stratified sample: everything `always` selects plus n others, keeping
        every `cls` represented."""
        items = list(items)
        if n is None or len(items) <= n:
            return items
        keep = [c for c in items if always(c)]
        rest = [c for c in items if not always(c)]
        by = collections.defaultdict(list)
        for c in rest:
            by[c.get("cls", "") if isinstance(c, dict) else ""].append(c)
        out = []
        classes = sorted(by)
        per = max(1, n // max(1, len(classes)))
        for k in classes:
            lst = by[k]
            self.rng.shuffle(lst)
            out.extend(lst[:per])
            by[k] = lst[per:]
        pool = [c for k in classes for c in by[k]]
        self.rng.shuffle(pool)
        out.extend(pool[:max(0, n - len(out))])
        return keep + out

    def pmap(self, fn, items, procs=16, chunksize=None):
        """Order-preserving parallel map over forked workers.  An exception in a worker is re-raised here as
        MachineryFailure with the worker's traceback (never pickled as an object: some exception classes do not
        survive pickling, which makes multiprocessing.Pool.map wait forever), and a worker that dies
        (segfault, os._exit, OOM kill) ends the map with MachineryFailure instead of hanging."""
        items = list(items)
        if len(items) < 64 or procs <= 1:
            return [fn(x) for x in items]
        from concurrent.futures import ProcessPoolExecutor
        from concurrent.futures.process import BrokenProcessPool
        ctxm = multiprocessing.get_context("fork")
        cs = chunksize or max(1, len(items) // (procs * 8))
        chunks = [items[i:i + cs] for i in range(0, len(items), cs)]
        out = []
        import gc
        gc.collect()
        gc.freeze()      # forked workers must not touch (and thereby copy) the parent's millions of case objects
        try:
            with ProcessPoolExecutor(max_workers=procs, mp_context=ctxm) as ex:
                for tag, val in ex.map(_pmap_chunk, [(fn, c) for c in chunks]):
                    if tag == "err":
                        raise MachineryFailure("worker raised in pmap(%s):\n%s" % (getattr(fn, "__name__", fn), val))
                    out.extend(val)
        except BrokenProcessPool as e:
            raise MachineryFailure("a pmap worker process died (%s) in %s" % (e, getattr(fn, "__name__", fn)))
        finally:
            gc.unfreeze()
        return out

    # ------------------------------------------------------------ violations
    def violation(self, key, detail):
        """key: small dict identifying *what* fails (used for known-finding matching and dedup);
        detail: everything needed to replay (case/trace, observed, expected/verdict)."""
        for e in self.known:
            if _matches(e, key):
                hid = e.get("id") or stable_hash(e.get("match"))
                if hid not in self.known_hits:
                    self.known_hits[hid] = e
                    print("KNOWN-FINDING: property=%s %s" % (self.pid, e.get("what", json.dumps(e.get("match")))))
                self.counters["known_finding_hits"] += 1
                return False
        rec = dict(property=self.pid, key=key, seed=self.seed, tier=self.tier)
        rec.update(detail)
        h = stable_hash(rec)
        path = os.path.join(REPLAY_DIR, self.pid, h + ".json")
        self.violations.append(path)
        if self._printed < MAX_PRINTED and not self.replay_mode:
            os.makedirs(os.path.dirname(path), exist_ok=True)
            with open(path, "w") as fh:
                json.dump(rec, fh, indent=1, sort_keys=True, default=str)
            print("VIOLATION property=%s replay=%s" % (self.pid, path))
            print("  key=%s" % json.dumps(key, sort_keys=True, default=str)[:300])
            for k in ("observed", "expected", "verdict"):
                if k in detail:
                    print("  %s=%s" % (k, json.dumps(detail[k], sort_keys=True, default=str)[:300]))
            self._printed += 1
        elif self.replay_mode:
            print("VIOLATION property=%s replay=%s" % (self.pid, "(replayed)"))
            for k in ("observed", "expected", "verdict"):
                if k in detail:
                    print("  %s=%s" % (k, json.dumps(detail[k], sort_keys=True, default=str)[:600]))
        return True

    # --------------------------------------------------------------- finish
    def write_evidence(self, status):
        cov = dict(
            states=self.states, transitions=self.transitions,
            traces_validated_against_impl=self.traces_validated + self.cases_replayed,
            cases_replayed=self.cases_replayed, traces_validated=self.traces_validated,
            evaluations=self.evaluations, distinct_nontrivial=len(self._distinct),
            rule=self.rule, samples=self.samples, tlc_runs=self.tlc_runs,
            action_coverage=self.coverage_actions, skipped=dict(self.skipped),
            counters=dict(self.counters), known_findings_reported=list(self.known_hits),
            status=status,
        )
        if self.exhaustive is not None:
            cov["exhaustive"] = self.exhaustive
        if self.notes:
            cov["notes"] = self.notes
        ev = dict(property_id=self.pid, tier=self.tier, seed=self.seed, level=self.level,
                  coverage=cov, assumptions=self.assumptions,
                  wall_s=round(time.time() - self.t0, 2), violations=len(self.violations))
        os.makedirs(EVIDENCE_DIR, exist_ok=True)
        path = os.path.join(EVIDENCE_DIR, self.pid + ".json")
        tmp = path + ".tmp"
        with open(tmp, "w") as fh:
            json.dump(ev, fh, indent=1, sort_keys=True, default=str)
        os.replace(tmp, path)

    def cleanup(self):
        shutil.rmtree(self.tmp, ignore_errors=True)


def main(pid, tier, seed, replay=None):
    import importlib
    sys.path.insert(0, os.path.join(ROOT, "harness", "props"))
    mod = importlib.import_module(pid.lower())
    ctx = Context(pid, tier, seed, mod.LEVEL, replay=replay)
    ctx.rule = getattr(mod, "RULE", "")
    ctx.assumptions = list(getattr(mod, "ASSUMPTIONS", []))
    code = 0
    try:
        import chempy
        if not os.path.realpath(chempy.__file__).startswith(REPO + "/"):
            raise MachineryFailure("chempy imported from %s, not %s" % (chempy.__file__, REPO))
        if replay is not None:
            rec = json.load(open(replay))
            mod.replay(ctx, rec)
        else:
            mod.run(ctx)
        if ctx.violations:
            code = 1
        status = "violations" if code else "held"
    except MachineryFailure as e:
        print("MACHINERY-FAILURE property=%s %s" % (pid, e))
        code = 2
        status = "machinery-failure: %s" % str(e)[:500]
    except Exception:
        traceback.print_exc()
        print("MACHINERY-FAILURE property=%s unexpected exception" % pid)
        code = 2
        status = "machinery-failure: exception"
    finally:
        if replay is None:
            try:
                ctx.write_evidence(status if "status" in dir() else "aborted")
            except Exception:
                traceback.print_exc()
        ctx.cleanup()
    n_extra = len(ctx.violations) - ctx._printed
    if n_extra > 0 and not ctx.replay_mode:
        print("(+%d further violations not printed)" % n_extra)
    print("RESULT property=%s tier=%s seed=%d status=%s states=%d validated=%d violations=%d known=%d wall=%.1fs" % (
        pid, tier, seed, "ok" if code == 0 else ("VIOLATION" if code == 1 else "MACHINERY"),
        ctx.states, ctx.traces_validated + ctx.cases_replayed, len(ctx.violations), len(ctx.known_hits),
        time.time() - ctx.t0))
    return code
