"""Binding helpers shared by C07 and C08 (spec/EqPool.tla, Equilibria.tla, EqSolve.tla).

Only three kinds of things live here:
  * construction of chempy objects from the abstract systems the specification emits
    (species = explicit compositions, reactions = stoichiometry rows, constants = rationals or
    m*10^e decimals),
  * structural projections of what chempy returns (Fraction -> [n, d], float vector -> the fixed
    point / micro-ln encoding documented in EqSolve.tla),
  * the evaluation of a residual vector to 50 digits and its classification with the thresholds
    carried by the case.
No equilibrium chemistry is decided here.
"""
import math
from fractions import Fraction

NUMSYS = ("Lin", "Log", "Square", "LinRel", "LinTanh")


def numsys_class(name):
    from chempy import _eqsys
    return getattr(_eqsys, "NumSys" + name)


def build_system(species, nu, consts, spform="comp", written=None):
    """species: [{'name', 'comp': [[key, n], ...], optional 'solid': bool}], nu: rows over species,
    consts: one parameter per reaction (any number type).  spform "comp": Species(name, charge,
    composition=...), "formula": Species.from_formula(name) (the name is a formula of the same
    composition).  written: {'kind', 'i', 'j', 'm'} (0-based reaction i, species j in the given order).
    Returns (EqSystem, names)."""
    import collections
    from chempy import Species, Equilibrium
    from chempy.equilibria import EqSystem
    subs, names = [], []
    for sp in species:
        if spform in ("formula", "alias"):
            subs.append(Species.from_formula(sp["name"]))
        else:
            comp = {int(k): int(n) for k, n in sp["comp"] if int(k) != 0}
            charge = sum(int(n) for k, n in sp["comp"] if int(k) == 0)
            kw = {"phase_idx": 1} if sp.get("solid") else {}
            subs.append(Species(sp["name"], charge, composition=comp, **kw))
        # "alias": the mapping key differs from Substance.name; everything is then addressed by the key
        names.append("sp%d" % len(names) if spform == "alias" else sp["name"])
    eqs = []
    for i, (row, k) in enumerate(zip(nu, consts)):
        reac = {names[j]: -int(v) for j, v in enumerate(row) if int(v) < 0}
        prod = {names[j]: int(v) for j, v in enumerate(row) if int(v) > 0}
        kw = {}
        if written and written["kind"] != "net" and written["i"] == i:
            # the written form: species j stands on BOTH sides with the extra amount m (net unchanged)
            nm, m = names[written["j"]], int(written["m"])
            if written["kind"] == "inact":
                kw = {"inact_reac": {nm: m}, "inact_prod": {nm: m}}
            else:
                reac[nm] = reac.get(nm, 0) + m
                prod[nm] = prod.get(nm, 0) + m
        eqs.append(Equilibrium(reac, prod, k, **kw))
    if spform == "alias":
        return EqSystem(eqs, collections.OrderedDict(zip(names, subs))), names
    return EqSystem(eqs, subs), names


def reorder(inp_species, nu, vectors, order):
    """species order option: "asc" as emitted, "rev" reversed (columns of nu and every per-species vector)"""
    if order != "rev":
        return inp_species, nu, vectors
    return inp_species[::-1], [row[::-1] for row in nu], [v[::-1] for v in vectors]


def frac(p):
    return Fraction(int(p[0]), int(p[1]))


def srat(p):
    import sympy
    return sympy.Rational(int(p[0]), int(p[1]))


def rat_pair(x):
    """exact projection of a rational-like number -> [n, d] (None if it is not one)"""
    import sympy
    if isinstance(x, Fraction):
        return [x.numerator, x.denominator]
    if isinstance(x, int):
        return [x, 1]
    try:
        x = sympy.nsimplify(x) if not isinstance(x, sympy.Basic) else x
        if x.is_Rational:
            return [int(x.p), int(x.q)]
    except Exception:
        pass
    return None


def float_rat_pair(x, max_den=10 ** 6):
    """encoder (i) of DESIGN 2.3: float -> small rational, or None when it is not one to 1e-12"""
    try:
        x = float(x)
    except Exception:       # complex, None, wrong type: not a small rational
        return None
    if not math.isfinite(x):
        return None
    f = Fraction(x).limit_denominator(max_den)
    if abs(float(f) - x) > 1e-12 * max(1.0, abs(x)):
        return None
    if abs(f.numerator) >= 2 ** 31:
        return None
    return [f.numerator, f.denominator]


# ------------------------------------------------------------------------------ C07
def internal_state(ns, name, conc, params):
    """The internal variables y of formulation `name` that denote the concentrations `conc`.

    Lin / Log / Square are the transforms named by the property (c, ln c, sqrt c) and are taken
    exactly; LinRel / LinTanh scale by code-internal upper bounds, there the formulation's own
    pre_processor is used.  In every case the formulation's own post_processor must map y back to
    conc (checked by the caller): y denotes the state by the code's own definition."""
    import numpy as np
    import sympy
    if name == "Lin":
        return list(conc)
    if name == "Log":
        return [sympy.log(ci) for ci in conc]
    if name == "Square":
        return [sympy.sqrt(ci) for ci in conc]
    with np.errstate(all="ignore"):
        y, _ = ns.pre_processor(np.array([float(ci) for ci in conc]), np.array([float(p) for p in params]))
    if not all(math.isfinite(float(v)) for v in y):
        return None  # the state lies outside the range of the formulation's variables (e.g. tanh)
    return [sympy.Float(float(v), 17) for v in y]


def roundtrip_error(ns, y, conc, params):
    """max relative deviation of post_processor(y) from conc beyond an absolute 1e-15 (NumSysLog's
    pre_processor adds its `small` = 2.3e-16 by design); 0 when there is no post_processor"""
    import numpy as np
    if ns.post_processor is None:
        back = [float(v) for v in y]
    else:
        back, _ = ns.post_processor(np.array([float(v) for v in y]), np.array([float(p) for p in params]))
    worst = 0.0
    for b, ci in zip(back, conc):
        d = abs(float(b) - float(ci))
        if not d <= 1e-15:   # also true for nan
            worst = max(worst, d / max(abs(float(ci)), 1e-300)) if d == d else float("inf")
    return worst


def classify_residual(f, tolz, tolnz):
    """50 digit evaluation (floats as they are); 'zero' iff all |f_i| < 10^-tolz, 'nonzero' iff some
    |f_i| > 10^-tolnz"""
    import sympy
    mags = []
    for fi in f:
        try:
            v = sympy.N(fi, 50) if isinstance(fi, sympy.Basic) else sympy.Float(float(fi))
            if v.is_real is False or v.has(sympy.nan) or v.has(sympy.zoo):
                return "undefined", None
            m = abs(float(v))
        except Exception:   # complex, symbolic, None ...: the residual is not a real number
            return "undefined", None
        if m != m:
            return "undefined", None
        mags.append(m)
    big = max(mags) if mags else 0.0
    if big < 10.0 ** -tolz:
        return "zero", big
    if big > 10.0 ** -tolnz:
        return "nonzero", big
    return "between", big


# ------------------------------------------------------------------------------ C08
UNIT_EXP = 12          # fixed point unit = 10^-12 * scale
LIMB = 10 ** 6
LN_CLIP = 150 * 10 ** 6  # micro-ln values are clipped to +-150e6 (flagged)
LIN_CLIP = 10 ** 7     # hi limb clipped to +-1e7 (|x| up to 10 * scale; EqSolve!InModel)


def dec_float(me):
    """m * 10^e (both integers) as the nearest double"""
    m, e = int(me[0]), int(me[1])
    return float(Fraction(m) * Fraction(10) ** e)


def scale_for(total):
    """power of ten >= total"""
    return int(math.ceil(math.log10(total))) if total > 0 else 0


def enc_vec(xs, scale_exp):
    """float vector -> {'h': hi limbs, 'l': lo limbs, 'ln': micro-ln, 'pos': x > 0, 'fl': flags}

    value_i / (10^scale_exp) * 10^12 = h_i * 10^6 + l_i (rounded to nearest, 0 <= l_i < 10^6);
    ln_i = round(10^6 * ln value_i) for value_i > 0 (0 otherwise).  Returns (record, clipped)
    where clipped tells that some entry was NaN/inf or out of the representable range."""
    h, lo, ln, pos = [], [], [], []
    clipped = False
    for x in xs:
        try:
            x = float(x)
        except Exception:   # complex, None, wrong type: travels as "not a number"
            x = float("nan")
        if not math.isfinite(x):
            clipped = True
            h.append(0), lo.append(0), ln.append(0), pos.append(False)
            continue
        u = int(round(Fraction(x) * Fraction(10) ** (UNIT_EXP - scale_exp)))
        hi, l = divmod(u, LIMB)
        if hi > LIN_CLIP or hi < -LIN_CLIP:
            clipped = True
            hi, l = (LIN_CLIP if hi > 0 else -LIN_CLIP), 0
        h.append(hi), lo.append(l)
        if x > 0:
            v = int(round(math.log(x) * 1e6))
            if abs(v) > LN_CLIP:
                clipped = True
                v = LN_CLIP if v > 0 else -LN_CLIP
            ln.append(v), pos.append(True)
        else:
            ln.append(0), pos.append(False)
    return {"h": h, "l": lo, "ln": ln, "pos": pos}, clipped
