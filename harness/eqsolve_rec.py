"""External recorder for equilibrium solving (C08).  Nothing in /repo is edited: the public
factories of EqSystem and pyneqsys.ConditionalNeqSys.solve are wrapped at import time.

Recorded events (floats raw; the check encodes them afterwards):
  row    top-level solve entered (params = initial concentrations ++ constants)
  begin  ConditionalNeqSys.solve entered (guess, handed-over conditions, conditional_maxiter)
  cond   forward / backward switching condition evaluated (reaction index, state, dissolved
         state as computed by EqSystem.dissolved, verdict)
  solve  a formulation's numerical solve returned (NumSys name, conditions, x, success)
A hook whose target is missing degrades to "not observed" (reported in `installed`)."""
import functools

ACTIVE = None  # list while recording
installed = {}


def emit(ev):
    if ACTIVE is not None:
        ACTIVE.append(ev)


def start():
    global ACTIVE
    ACTIVE = []


def stop():
    global ACTIVE
    ev, ACTIVE = ACTIVE, None
    return ev


def _floats(v):
    """total: anything that is not a real number is recorded as nan (never raises inside the code under test)"""
    out = []
    try:
        for t in v:
            try:
                out.append(float(t))
            except Exception:
                out.append(float("nan"))
    except Exception:
        pass
    return out


def install():
    if installed:
        return installed
    import numpy as np
    from chempy.equilibria import EqSystem
    import pyneqsys.core as pc

    # --- ConditionalNeqSys.solve -> begin
    try:
        orig = pc.ConditionalNeqSys.solve

        @functools.wraps(orig)
        def cond_solve(self, x0, params=(), internal_x0=None, solver=None, conditional_maxiter=20,
                       initial_conditions=None, **kwargs):
            emit({"ev": "begin", "x": _floats(x0), "given": initial_conditions is not None,
                  "conds": [bool(b) for b in (initial_conditions or ())], "maxiter": int(conditional_maxiter)})
            return orig(self, x0, params, internal_x0, solver, conditional_maxiter=conditional_maxiter,
                        initial_conditions=initial_conditions, **kwargs)
        pc.ConditionalNeqSys.solve = cond_solve
        import pyneqsys
        if getattr(pyneqsys, "ConditionalNeqSys", None) is not pc.ConditionalNeqSys:
            installed["begin"] = False
        else:
            installed["begin"] = True
    except AttributeError:
        installed["begin"] = False

    # --- switching conditions
    def wrap_factory(name, kind):
        try:
            orig_f = getattr(EqSystem, name)
        except AttributeError:
            installed[kind] = False
            return

        @functools.wraps(orig_f)
        def factory(self, ri, *a, **k):
            cb = orig_f(self, ri, *a, **k)

            def cond(x, p):
                v = cb(x, p)
                ev = {"ev": "cond", "kind": kind, "ri": int(ri) + 1, "x": _floats(x), "verdict": bool(v)}
                try:
                    ev["xd"] = _floats(self.dissolved(np.asarray(x, dtype=float)))
                except Exception:
                    ev["xd"] = None
                emit(ev)
                return v
            return cond
        setattr(EqSystem, name, factory)
        installed[kind] = True
    wrap_factory("_fw_cond_factory", "fw")
    wrap_factory("_bw_cond_factory", "bw")

    # --- numerical solves of one formulation
    try:
        orig_ss = EqSystem._SymbolicSys_from_NumSys

        @functools.wraps(orig_ss)
        def from_numsys(self, NS, conds, *a, **k):
            ss = orig_ss(self, NS, conds, *a, **k)
            inner = ss.solve

            def solve(x0, params=(), internal_x0=None, solver=None, **kw):
                x, info = inner(x0, params, internal_x0, solver, **kw)
                emit({"ev": "solve", "ns": NS.__name__, "conds": [bool(c) for c in conds], "x": _floats(x),
                      "ok": bool(info["success"])})
                return x, info
            ss.solve = solve
            return ss
        EqSystem._SymbolicSys_from_NumSys = from_numsys
        installed["solve"] = True
    except AttributeError:
        installed["solve"] = False

    # --- top level: one row per solve of the object get_neqsys returns
    try:
        orig_get = EqSystem.get_neqsys

        @functools.wraps(orig_get)
        def get_neqsys(self, *a, **k):
            top = orig_get(self, *a, **k)
            inner = top.solve

            def solve(x0, params=(), *aa, **kk):
                emit({"ev": "row", "params": _floats(params)})
                return inner(x0, params, *aa, **kk)
            top.solve = solve
            return top
        EqSystem.get_neqsys = get_neqsys
        installed["row"] = True
    except AttributeError:
        installed["row"] = False
    return installed
