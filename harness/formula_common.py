"""Binding layer for the Formula spec (C01, C13, C14): projections, token text, seeded token
generator, an independent lexer for foreign formula strings.

No chemistry is decided here.  Expected compositions come from TLC (CASE lines) or are judged
by TLC (trace validation); this module only builds strings from tokens, calls chempy, and
projects results into the abstract vocabulary of spec/Formula.tla.
"""
import re
from fractions import Fraction

MIDDOT = "·"

GREEK = ("alpha beta gamma delta epsilon zeta eta theta iota kappa lambda mu nu xi omicron pi rho "
         "sigma tau upsilon phi chi psi omega").split()
PREFIXES = ["."] + [g + "-" for g in GREEK]
PREFIX_RANK = dict([(g + "-", i) for i, g in enumerate(GREEK)] + [(".", len(GREEK))])
SUFFIXES = ["(s)", "(l)", "(g)", "(aq)"]
CLOSER = {"(": ")", "[": "]", "{": "}"}
OPENER = {v: k for k, v in CLOSER.items()}


def code_text(txt):
    """spec text -> the string handed to chempy ("~" stands for U+00B7 in the ASCII spec)."""
    return txt.replace("~", MIDDOT)


# ---------------------------------------------------------------- projections
def enc_rational(x, max_den=10 ** 6):
    """Fixed encoder (Quantise.tla, kind i): a number -> [n, d] or None if it is not a small
    rational to within 1e-12 relative."""
    if isinstance(x, bool):
        return None
    if isinstance(x, int):
        return [x, 1]
    try:
        fx = Fraction(x)
    except (TypeError, ValueError, OverflowError):
        return None
    fr = fx.limit_denominator(max_den)
    if fr == 0:
        return [0, 1] if fx == 0 else None
    if abs(fx - fr) > abs(fr) * Fraction(1, 10 ** 12):
        return None
    if abs(fr.numerator) >= 2 ** 31 or fr.denominator >= 2 ** 31:
        return None
    return [fr.numerator, fr.denominator]


def project_composition(comp):
    """dict {Z: count, 0: charge} -> {"comp": [[Z, [n, d]], ...] (Z > 0, non-zero), "q": int}
    or {"unencodable": reason}."""
    out = []
    q = 0
    for k in sorted(comp):
        v = comp[k]
        if not isinstance(k, int) or isinstance(k, bool):
            return {"unencodable": "key %r" % (k,)}
        if k == 0:
            e = enc_rational(v)
            if e is None or e[1] != 1:
                return {"unencodable": "charge %r" % (v,)}
            q = e[0]
            continue
        e = enc_rational(v)
        if e is None:
            return {"unencodable": "count %r" % (v,)}
        if e[0] == 0:
            continue
        out.append([k, e])
    return {"comp": out, "q": q}


def observe(fn, txt):
    """Call fn(txt); -> {"raised": bool, ...projection...}"""
    try:
        comp = fn(txt)
    except Exception as e:  # any exception is a rejection
        return {"raised": True, "exc": type(e).__name__}
    p = project_composition(comp)
    p["raised"] = False
    return p


# ---------------------------------------------------------------- tokens -> text
def count_text(c):
    if not c["shown"]:
        return ""
    s = str(c["ip"])
    if c["fd"]:
        s += "." + str(c["fp"]).zfill(c["fd"])
    return s


def tokens_text(toks, symbols):
    """Concatenate token texts (ASCII form, "~" for the middle dot)."""
    out = []
    for t in toks:
        k = t["k"]
        if k in ("pre", "prime", "chg", "suf", "bad", "badchg"):
            out.append(t["t"])
        elif k == "atom":
            out.append(symbols[t["z"] - 1] + count_text(t["c"]))
        elif k == "open":
            out.append(t["b"])
        elif k == "close":
            out.append(t["b"] + count_text(t["c"]))
        elif k == "hyd":
            out.append(t["sep"] + ("" if t["m"] == 1 else str(t["m"])))
        elif k == "stray":
            out.append(CLOSER[t["o"]])
        elif k == "electron":
            out.append("e-")
        elif k in ("finish", "unclosed"):
            pass
        else:
            raise ValueError(k)
    return "".join(out)


NOCOUNT = {"shown": False, "ip": 1, "fd": 0, "fp": 0}


def mk_count(ip, fp=0, fd=0):
    return {"shown": True, "ip": ip, "fd": fd, "fp": fp}


def count_value(c):
    return Fraction(c["ip"] * 10 ** c["fd"] + c["fp"], 10 ** c["fd"])


# ---------------------------------------------------------------- seeded generator
class Gen(object):
    """Random well-formed / ill-formed token sequences beyond the exhaustive bounds.

    Only magnitudes are tracked (to keep every number inside TLC's 32-bit integers, see
    DESIGN 2.3); no composition is computed here."""

    def __init__(self, rng, max_depth=6, max_terms=10, max_parts=4):
        self.rng = rng
        self.max_depth = max_depth
        self.max_terms = max_terms
        self.max_parts = max_parts

    def _count(self, decimal_ok, budget):
        r = self.rng
        u = r.random()
        if u < 0.4:
            return NOCOUNT, Fraction(1), False
        if decimal_ok and u < 0.55:
            fd = r.choice([1, 1, 2, 3])
            ip = r.choice([0, 0, 1, 2, 3, 7, 10, 12])
            fp = r.randrange(1, 10 ** fd)
            if fp % 10 == 0:
                fp += 1
            c = mk_count(ip, fp, fd)
            if count_value(c) <= budget:
                return c, count_value(c), True
            return NOCOUNT, Fraction(1), False
        hi = min(int(budget), r.choice([9, 9, 9, 30, 200, 999]))
        if hi < 2:
            return NOCOUNT, Fraction(1), False
        n = r.randint(2, hi)
        return mk_count(n), Fraction(n), False

    def _group(self, depth, decimal_ok, budget, terms_left):
        """-> tokens of a non-empty term sequence."""
        r = self.rng
        toks = []
        n = r.randint(1, max(1, min(4, terms_left[0])))
        for _ in range(n):
            if terms_left[0] <= 0 and toks:
                break
            if depth < self.max_depth and r.random() < 0.3 and budget >= 2 and terms_left[0] > 0:
                b = r.choice("([{")
                gc, gv, gdec = self._count(decimal_ok, min(budget, 50))
                toks.append({"k": "open", "b": b})
                toks += self._group(depth + 1, decimal_ok and not gdec, budget / gv, terms_left)
                toks.append({"k": "close", "b": CLOSER[b], "c": gc})
            else:
                terms_left[0] -= 1
                c, _, _ = self._count(decimal_ok, budget)
                toks.append({"k": "atom", "z": self._elem(), "c": c})
            if r.random() < 0.06:
                toks.append({"k": "prime", "t": r.choice(["*", "'", "**", "''"])})
        return toks

    def _elem(self):
        r = self.rng
        return r.randint(1, 118) if r.random() < 0.7 else r.choice([1, 6, 7, 8, 11, 17, 26, 27, 29])

    def wellformed(self):
        r = self.rng
        toks = []
        if r.random() < 0.15:
            # one prefix, or two in the order of the notation's table (greek letters alphabetically, radical dot last)
            picked = sorted(r.sample(PREFIXES, 2 if r.random() < 0.35 else 1), key=PREFIX_RANK.get)
            toks.extend({"k": "pre", "t": p} for p in picked)
        decimal = r.random() < 0.3
        # all numbers stay below 1000 (decimal mode) / 10^6 (integer mode): see DESIGN 2.3
        budget = Fraction(900) if decimal else Fraction(10 ** 6)
        nparts = r.choice([1, 1, 1, 2, 2, 3, self.max_parts])
        sep = r.choice(["..", "~"])
        terms_left = [r.randint(1, self.max_terms)]
        for p in range(nparts):
            m = 1
            if p > 0:
                m = r.choice([1, 2, 5, 7, 10, 12])
                toks.append({"k": "hyd", "sep": sep, "m": m})
            # few terms, so that sums of repeated elements stay within the budget
            toks += self._group(0, decimal, budget / m / 64, terms_left)
            terms_left[0] = max(terms_left[0], 1)
        if r.random() < 0.4:
            q = r.choice([1, -1, 2, -2, 3, -3, 4, -4, 10, -12, 25])
            mag = "" if abs(q) == 1 and r.random() < 0.7 else str(abs(q))     # a unit charge may be spelled "+1"
            toks.append({"k": "chg", "q": q, "t": ("+" if q > 0 else "-") + mag})
        elif r.random() < 0.04:
            toks.append({"k": "chg", "q": 0, "t": r.choice(["+0", "-0"])})       # a zero charge written out
        if r.random() < 0.3:
            toks.append({"k": "suf", "t": r.choice(SUFFIXES)})
        toks.append({"k": "finish"})
        return toks

    def illformed(self):
        """Inject exactly one fault of the listed rejection classes into a well-formed sequence."""
        r = self.rng
        for _ in range(50):
            toks = [t for t in self.wellformed()]
            kind = r.choice(["bad", "stray", "mismatch", "unclosed", "badchg"])
            body_idx = [i for i, t in enumerate(toks) if t["k"] in ("atom", "close")]
            if kind == "bad":
                i = r.choice([j for j, t in enumerate(toks) if t["k"] == "atom"])
                toks[i] = {"k": "bad", "t": r.choice(["Xx", "A", "Hx", "Q", "Zz", "Ab", "J", "Nax", "Cc", "Dd", "Ee", "Me", "Ph"])}
                return toks
            if kind == "stray":
                # a closer at depth 0, right after a complete term
                d = 0
                cands = []
                for j, t in enumerate(toks):
                    if t["k"] == "open":
                        d += 1
                    if t["k"] == "close":
                        d -= 1
                    if d == 0 and t["k"] in ("atom", "close") and (j + 1 >= len(toks) or toks[j + 1]["k"] != "prime"):
                        cands.append(j)
                if cands:
                    j = r.choice(cands)
                    toks.insert(j + 1, {"k": "stray", "o": r.choice("([{")})
                    return toks
            if kind == "mismatch":
                cl = [j for j, t in enumerate(toks) if t["k"] == "close"]
                if cl:
                    # the innermost-first closer to be replaced must directly follow a term
                    j = cl[0]
                    if toks[j - 1]["k"] in ("atom", "close"):
                        wrong = r.choice([o for o in "([{" if CLOSER[o] != toks[j]["b"]])
                        toks[j] = {"k": "stray", "o": wrong}
                        # what follows is generated text only; later closers of outer groups stay as they are
                        return self._truncate_after_fault(toks, j)
            if kind == "unclosed":
                cl = [j for j, t in enumerate(toks) if t["k"] == "close"]
                if cl:
                    j = cl[0]
                    if toks[j - 1]["k"] in ("atom", "close", "prime"):
                        return toks[:j] + [{"k": "unclosed"}]
            if kind == "badchg":
                toks = [t for t in toks if t["k"] != "chg"]
                i = max(body_idx + [j for j, t in enumerate(toks) if t["k"] == "prime"])
                # depth 0 is guaranteed after the last body token
                last = max(j for j, t in enumerate(toks) if t["k"] in ("atom", "close", "prime"))
                toks.insert(last + 1, {"k": "badchg", "t": r.choice(["+-", "-+", "+2-", "-3+", "+-2", "-+3"])})
                return toks
        return self.wellformed()

    @staticmethod
    def _truncate_after_fault(toks, j):
        # after a mismatched closer the spec pops one group; keep generating only tokens that the
        # spec's actions accept: drop everything up to the finish marker
        return toks[:j + 1] + [{"k": "finish"}]


# ---------------------------------------------------------------- independent lexer
_SYMBOL_RE = re.compile(r"[A-Z][a-z]*")
_COUNT_RE = re.compile(r"\d+\.\d+|\d+")


def lex(text, symbols):
    """Tokenise a foreign formula string (e.g. one used by the repository's tests) into the
    token vocabulary of the spec, or return None when it is outside the modelled notation.
    Whether the tokenisation is right is decided by TLC (the spec rebuilds the text from the
    tokens and compares it with the original)."""
    s = text.replace(MIDDOT, "~")
    toks = []
    if s == "e-":
        return [{"k": "electron"}, {"k": "finish"}]
    rank = -1
    while True:
        for p in sorted(PREFIXES, key=len, reverse=True):
            if s.startswith(p) and (p != "." or not s.startswith("..")) and PREFIX_RANK[p] > rank:
                toks.append({"k": "pre", "t": p})
                s = s[len(p):]
                rank = PREFIX_RANK[p]
                break
        else:
            break
    suf = None
    for x in SUFFIXES:
        if s.endswith(x):
            suf = x
            s = s[:-len(x)]
            break
    chg = None
    m = re.search(r"([+-])(\d*)$", s)
    if m:
        mag = m.group(2)
        if mag.startswith("0") and mag != "0":
            return None
        q = int(mag) if mag else 1
        q = q if m.group(1) == "+" else -q
        chg = {"k": "chg", "q": q, "t": m.group(0)}
        s = s[:m.start()]
    i = 0
    symset = set(symbols)
    while i < len(s):
        ch = s[i]
        if ch in "([{":
            toks.append({"k": "open", "b": ch})
            i += 1
        elif ch in ")]}":
            m = _COUNT_RE.match(s, i + 1)
            c, i = _lex_count(m, i + 1)
            if c is None:
                return None
            toks.append({"k": "close", "b": ch, "c": c})
        elif ch in "*'":
            j = i
            while j < len(s) and s[j] in "*'":
                j += 1
            toks.append({"k": "prime", "t": s[i:j]})
            i = j
        elif s.startswith("..", i) or ch == "~":
            sep = ".." if ch == "." else "~"
            i += len(sep)
            m = re.compile(r"\d+").match(s, i)
            mm = 1
            if m:
                if m.group(0).startswith("0") or m.group(0) == "1":
                    return None
                mm = int(m.group(0))
                i = m.end()
            toks.append({"k": "hyd", "sep": sep, "m": mm})
        else:
            m = _SYMBOL_RE.match(s, i)
            if not m:
                return None
            word = m.group(0)
            # greedy two-letter symbol first, as in the written notation
            sym = None
            for ln in (2, 1):
                if word[:ln] in symset and len(word) >= ln:
                    sym = word[:ln]
                    break
            if sym is None or (len(word) > len(sym)):
                return None  # capitalised token that is not an element: outside the well-formed model
            i += len(sym)
            mc = _COUNT_RE.match(s, i)
            c, i = _lex_count(mc, i)
            if c is None:
                return None
            toks.append({"k": "atom", "z": symbols.index(sym) + 1, "c": c})
    if chg:
        toks.append(chg)
    if suf:
        toks.append({"k": "suf", "t": suf})
    toks.append({"k": "finish"})
    return toks


def _lex_count(m, i):
    if not m:
        return NOCOUNT, i
    t = m.group(0)
    if "." in t:
        ip, fr = t.split(".")
        if len(fr) > 3 or (len(ip) > 1 and ip.startswith("0")) or int(fr) == 0 and int(ip) == 0:
            return None, i
        return mk_count(int(ip), int(fr), len(fr)), m.end()
    if t.startswith("0") or t == "1" or len(t) > 6:
        return None, i
    return mk_count(int(t)), m.end()


# ---------------------------------------------------------------- un-presentation (C13)
# Three lexers that undo exactly the presentation mapping of each output format and nothing else.
# They return the abstract presentation tokens of spec/Formula.tla (Render): lists of [r, t] with
# r in Pre Sym Sub Sup Br Infix Plain Suf.  Anything they cannot place -> None (reported as a
# mismatch by the caller, since the spec's token list is then not reproduced).
_USUB = dict(zip("₀₁₂₃₄₅₆₇₈₉", "0123456789"))
_USUP = dict(zip("⁰¹²³⁴⁵⁶⁷⁸⁹⁺⁻", "0123456789+-"))
_GREEK_U = "αβγδεζηθικλμνξοπρστυφχψω"

FORMATS = {
    "latex": dict(
        pre=dict([("^\\bullet ", ".")] + [("\\" + g + "-", g + "-") for g in GREEK if g not in ("epsilon", "omicron")]
                 + [("\\varepsilon-", "epsilon-"), ("o-", "omicron-")]),
        infix="\\cdot ", sub=("_{", "}"), sup=("^{", "}"), br={"\\{": "{", "\\}": "}"}),
    "unicode": dict(
        pre=dict([("⋅", ".")] + [(u + "-", g + "-") for g, u in zip(GREEK, _GREEK_U)]),
        infix="·", sub=None, sup=None, br={}),
    "html": dict(
        pre=dict([("&sdot;", ".")] + [("&" + g + ";-", g + "-") for g in GREEK]),
        infix="&sdot;", sub=("<sub>", "</sub>"), sup=("<sup>", "</sup>"), br={}),
}


def unpresent(s, fmt):
    F = FORMATS[fmt]
    toks = []
    i = 0
    rank = -1
    while True:
        for shown in sorted(F["pre"], key=len, reverse=True):
            if s.startswith(shown, i) and PREFIX_RANK[F["pre"][shown]] > rank:
                toks.append(["Pre", F["pre"][shown]])
                i += len(shown)
                rank = PREFIX_RANK[F["pre"][shown]]
                break
        else:
            break
    suf = None
    for x in SUFFIXES:
        if s.endswith(x) and len(s) - len(x) >= i:
            suf = x
            s = s[:len(s) - len(x)]
            break
    n = len(s)
    while i < n:
        ch = s[i]
        m = None
        if s.startswith(F["infix"], i):
            toks.append(["Infix", ".."])
            i += len(F["infix"])
            continue
        hit = False
        for shown, plain in F["br"].items():
            if s.startswith(shown, i):
                toks.append(["Br", plain])
                i += len(shown)
                hit = True
                break
        if hit:
            continue
        if F["sub"] and s.startswith(F["sub"][0], i):
            j = s.find(F["sub"][1], i)
            if j < 0:
                return None
            toks.append(["Sub", s[i + len(F["sub"][0]):j]])
            i = j + len(F["sub"][1])
            continue
        if F["sup"] and s.startswith(F["sup"][0], i):
            j = s.find(F["sup"][1], i)
            if j < 0:
                return None
            toks.append(["Sup", s[i + len(F["sup"][0]):j]])
            i = j + len(F["sup"][1])
            continue
        if fmt == "unicode" and ch in _USUB:
            # a subscript run may contain an ordinary '.' between subscript digits
            j = i
            out = ""
            while j < n and (s[j] in _USUB or (s[j] == "." and j + 1 < n and s[j + 1] in _USUB and out)):
                out += _USUB.get(s[j], ".")
                j += 1
            toks.append(["Sub", out])
            i = j
            continue
        if fmt == "unicode" and ch in _USUP:
            j = i
            out = ""
            while j < n and s[j] in _USUP:
                out += _USUP[s[j]]
                j += 1
            toks.append(["Sup", out])
            i = j
            continue
        if ch in "([{)]}":
            toks.append(["Br", ch])
            i += 1
            continue
        m = re.compile(r"[A-Z][a-z]*").match(s, i)
        if m:
            toks.append(["Sym", m.group(0)])
            i = m.end()
            continue
        if ch == "e" and not toks:
            toks.append(["Sym", "e"])
            i += 1
            continue
        m = re.compile(r"[0-9]+|[*']+").match(s, i)
        if m:
            toks.append(["Plain", m.group(0)])
            i = m.end()
            continue
        return None
    if suf:
        toks.append(["Suf", suf])
    return toks


def reassemble(ptoks):
    """presentation tokens -> plain formula text (the inverse of the presentation mapping)."""
    out = []
    for r, t in ptoks:
        if r == "Sup":
            m = re.match(r"^(\d*)([+-])$", t)
            if t == "0":
                out.append("+0")
                continue
            if not m:
                return None
            out.append(m.group(2) + m.group(1))
        else:
            out.append(t)
    return "".join(out)
