"""Binding helpers shared by C03 (Kinetics) and C04 (OdeBuild).

Only three kinds of code live here (DESIGN 2.3):
  * construction of chempy objects from the abstract vocabulary of spec/Kinetics.tla
    (reactions = four sparse coefficient maps + rate constant, systems = sequences, substance
    order, concentration state, stirred-tank conditions),
  * calls into chempy,
  * structural projections of results: number -> [n, d] (exact; floats via Fraction(x), which is
    exact), dict -> list in substance order (an absent key is 0), sympy expression -> monomial
    table [[n, d], p, [[var, exp], ...]] via sympy.Poly with symbols mapped BY NAME,
    exception -> {"raise": <class name>}.
No expected value is computed here: they come from TLC (CASE lines) or TLC judges the recorded
trace (KineticsTrace / OdeBuildTrace).
"""
from fractions import Fraction

LIMIT = 2 ** 31 - 1
FEEDVAR = "feedratio"


def fcvar(s):
    return "fc_" + s


# ----------------------------------------------------------------------------- numbers
def conv(q, mode):
    """spec rational [n, d] -> python number of the requested kind (exact in every mode that
    is offered for it: int/float only for integral values)."""
    n, d = q
    if mode == "int":
        assert d == 1
        return int(n)
    if mode == "float":
        assert d == 1
        return float(n)
    if mode == "frac":
        return Fraction(n, d)
    if mode == "sym":
        import sympy
        return sympy.Rational(n, d)
    raise ValueError(mode)


def integral(qs):
    return all(q[1] == 1 for q in qs)


def proj_num(x):
    """number -> [n, d] exactly, or None if it has no exact small rational value."""
    import numbers
    try:
        import sympy
    except ImportError:  # pragma: no cover
        sympy = None
    if isinstance(x, bool):
        return None
    if isinstance(x, int):
        f = Fraction(x)
    elif isinstance(x, Fraction):
        f = x
    elif isinstance(x, float):
        if x != x or x in (float("inf"), float("-inf")):
            return None
        f = Fraction(x)
    elif sympy is not None and isinstance(x, sympy.Basic):
        if x.is_Float:
            f = Fraction(float(x))
        elif x.is_Rational:
            f = Fraction(int(x.p), int(x.q))
        else:
            return None
    elif isinstance(x, numbers.Real):
        try:
            f = Fraction(float(x))
        except (ValueError, OverflowError):
            return None
    else:
        try:
            f = Fraction(float(x))
        except Exception:
            return None
    if abs(f.numerator) > LIMIT or f.denominator > LIMIT:
        return None
    return [f.numerator, f.denominator]


def proj_int(x):
    """integer-valued number -> int; anything else -> a sentinel that equals no expectation"""
    q = proj_num(x)
    if q is None or q[1] != 1:
        return {"not-an-integer": repr(x)[:40]}
    return q[0]


def proj_seq(xs):
    out = [proj_num(x) for x in xs]
    return None if any(o is None for o in out) else out


def proj_dict(d, order):
    """dict keyed by substance -> list in `order`; an absent key is the number 0; a key outside
    `order` is reported (structurally) as an extra key."""
    extra = sorted(k for k in d if k not in order)
    if extra:
        return {"extra_keys": extra}
    return proj_seq([d.get(k, 0) for k in order])


def guarded(fn, *a, **kw):
    try:
        return fn(*a, **kw)
    except Exception as e:  # the class name is the projection of an exception
        return {"raise": type(e).__name__, "msg": str(e)[:120]}


def is_raise(o):
    return isinstance(o, dict) and "raise" in o


# ----------------------------------------------------------------------------- polynomials
def canon_mono(m):
    coef, p, e = m
    return [list(coef), int(p), sorted([str(v), int(x)] for v, x in e)]


def canon_poly(ms):
    return sorted((canon_mono(m) for m in ms), key=lambda m: (m[1], m[2], m[0]))


def proj_poly(expr, names):
    """sympy expression -> canonical monomial table.

    names: iterable of the variable names that may occur.  Symbols are identified by NAME.  A
    symbol called k<i> occurring with exponent 1 as the only such symbol of a monomial is the
    free rate constant p = i of that monomial; everything else goes to the exponent vector.
    Returns None when the expression is not a polynomial with rational coefficients in its free
    symbols (un-encodable observation)."""
    import re
    import sympy
    expr = sympy.sympify(expr)
    # half-integer powers of a symbol (c**1.5, c**(3/2)): c**(h/2) is written with the variable
    # "sqrt_<c>" (exponent h mod 2) and c (exponent h div 2); other non-integer powers are not
    # monomials of the vocabulary -> un-encodable
    roots = {}
    pows = [q for q in expr.atoms(sympy.Pow) if not q.exp.is_Integer]
    if pows:
        rep = {}
        for q in pows:
            e = sympy.nsimplify(q.exp, rational=True) if q.exp.is_number else None
            if e is None or not q.base.is_Symbol or not e.is_Rational or e.q != 2 or e.p < 0:
                return None
            root = roots.setdefault(q.base, sympy.Symbol("sqrt_" + q.base.name, positive=True))
            rep[q] = root ** int(e.p)
        expr = expr.xreplace(rep)
    syms = sorted(expr.free_symbols, key=lambda s: s.name)
    if not syms:
        c = proj_num(expr)
        if c is None:
            return None
        return [] if c[0] == 0 else [[c, 0, []]]
    try:
        poly = sympy.Poly(sympy.expand(expr), *syms)
    except sympy.PolynomialError:
        return None
    out = []
    for exps, coef in poly.terms():
        c = proj_num(coef)
        if c is None:
            return None
        if c[0] == 0:
            continue
        ks = [(s.name, x) for s, x in zip(syms, exps) if x and re.fullmatch(r"k[0-9]+", s.name)]
        p = 0
        e = []
        if len(ks) == 1 and ks[0][1] == 1:
            p = int(ks[0][0][1:])
        acc = {}
        for s, x in zip(syms, exps):
            if not x:
                continue
            if p and s.name == "k%d" % p:
                continue
            if s in roots.values():
                base = s.name[5:]
                acc[base] = acc.get(base, 0) + int(x) // 2
                acc[s.name] = acc.get(s.name, 0) + int(x) % 2
            else:
                acc[s.name] = acc.get(s.name, 0) + int(x)
        e = [[n, x] for n, x in acc.items() if x]
        out.append([c, p, e])
    return canon_poly(out)


def proj_polys(exprs, names):
    out = [proj_poly(x, names) for x in exprs]
    return None if any(o is None for o in out) else out


# ----------------------------------------------------------------------------- substance-key alphabet
def actualize(cin):
    """Rewrite a case into the ACTUAL substance keys it asks for (cin["names"], e.g. A -> "H+"):
    the abstract names of the spec are replaced everywhere a substance key occurs.  Returns the
    rewritten case and the inverse map used to bring observed names back (unname_obs)."""
    names = cin.get("names")
    if not names or list(names) == list(cin["subst"]):
        return cin, {}
    fwd = dict(zip(cin["subst"], names))
    inv = {v: k for k, v in fwd.items()}

    def f(k):
        if k in fwd:
            return fwd[k]
        if isinstance(k, str) and k.startswith("fc_") and k[3:] in fwd:
            return fcvar(fwd[k[3:]])
        return k
    out = dict(cin)
    out["subst"] = [f(s) for s in cin["subst"]]
    out["names"] = list(out["subst"])
    out["rxns"] = [dict(rx, **{part: [[f(k), v] for k, v in rx.get(part) or []]
                               for part in ("reac", "prod", "ireac", "iprod", "half")})
                   for rx in cin["rxns"]]
    out["feed"] = dict(cin["feed"], order=[f(s) for s in cin["feed"].get("order") or []])
    if "bind" in cin:
        out["bind"] = [[f(k), v] for k, v in cin["bind"]]
    if cin.get("hist"):
        out["hist"] = [[0, [f(s) for s in h[1]], [f(s) for s in h[2]]] if h[0] == 0 else h for h in cin["hist"]]
    if "psymkeys" in cin:
        out["psymkeys"] = [f(k) for k in cin["psymkeys"]]
    if "cfg" in cin:
        out["cfg"] = dict(cin["cfg"], symorder=[f(s) for s in cin["cfg"].get("symorder") or []])
    return out, inv


def _is_mono(x):
    return isinstance(x, list) and len(x) == 3 and isinstance(x[1], int) and isinstance(x[0], list) \
        and isinstance(x[2], list) and len(x[0]) == 2


def unname_obs(obs, inv):
    """bring every observed substance name (names lists, variable names of monomial tables) back
    to the abstract names of the spec; monomial tables are re-canonicalised."""
    if not inv:
        return obs

    def g(k):
        if k in inv:
            return inv[k]
        if isinstance(k, str) and k.startswith("fc_") and k[3:] in inv:
            return "fc_" + inv[k[3:]]
        if isinstance(k, str) and k.startswith("c_") and k[2:] in inv:
            return "c_" + inv[k[2:]]
        if isinstance(k, str) and k.startswith("sqrt_") and k[5:] in inv:
            return "sqrt_" + inv[k[5:]]
        return k

    def walk(x):
        if isinstance(x, str):
            return g(x)
        if isinstance(x, dict):
            return {k: (v if k in ("raise", "msg") else walk(v)) for k, v in x.items()}
        if isinstance(x, list):
            y = [walk(v) for v in x]
            if y and all(_is_mono(m) for m in y):
                return canon_poly(y)
            return y
        return x
    out = walk(obs)
    if isinstance(out, dict) and isinstance(out.get("params"), list):
        out["params"] = sorted(out["params"])
    return out


# ----------------------------------------------------------------------------- construction
def mk_reaction(rx, param, exact_half=False):
    """A Reaction from the four coefficient maps.  `half` (power-law orders): for the marked species
    half a unit moves from the active to the inactive reactant part (active coefficient n - 1/2,
    written 0.5 / 1.5 ... as in '1.5 A', or as a Fraction when exact_half)."""
    from chempy import Reaction
    reac = dict((k, v) for k, v in rx["reac"])
    ireac = dict((k, v) for k, v in rx["ireac"])
    kw = {}
    for k, h in rx.get("half") or []:
        if h:
            hv = Fraction(1, 2) if exact_half else 0.5
            reac[k] = reac[k] - hv
            ireac[k] = ireac.get(k, 0) + hv
            kw["dont_check"] = {"all_integral"}
    return Reaction(reac, dict((k, v) for k, v in rx["prod"]), param, inact_reac=ireac,
                    inact_prod=dict((k, v) for k, v in rx["iprod"]), **kw)


def initial_subst(cin):
    """the substance order the system is CONSTRUCTED with: a history entry <<0, old, new>> records a
    later sort_substances_inplace()"""
    for h in cin.get("hist") or []:
        if h[0] == 0:
            return list(h[1])
    return list(cin["subst"])


def substances_for(cin):
    """`substances` argument of ReactionSystem in the form the case asks for (cin["_sform"]):
    list of keys (default) / Species objects with a phase index (sphase) / one space-separated
    string / OrderedDict key -> Substance(key) / OrderedDict under ALIAS keys (Substance.name differs
    from the key) / a set or None (the constructor sorts) / a list to be sorted by the constructor.
    Returns (substances, extra constructor keywords)."""
    from collections import OrderedDict
    keys = initial_subst(cin)
    ph = dict(zip(cin["subst"], cin.get("sphase") or []))
    if any(ph.values()):
        from chempy.chemistry import Species
        return [Species(s, phase_idx=int(ph.get(s, 0))) for s in keys], {}
    form = cin.get("_sform", "list")
    if form == "str":
        return " ".join(keys), {}
    if form in ("odict", "alias"):
        from chempy import Substance
        pre = "n_" if form == "alias" else ""
        return OrderedDict((s, Substance(pre + s)) for s in keys), {}
    if form == "set":
        return set(keys), {}
    if form == "none":
        return None, {}
    if form == "sortlist":
        return keys[::-1], {"sort_substances": True}
    return keys, {}


def mk_system(cin, params, substances=None):
    from chempy import ReactionSystem
    rxns = [mk_reaction(rx, p, exact_half=bool(cin.get("_exact_half"))) for rx, p in zip(cin["rxns"], params)]
    if substances is not None:
        return ReactionSystem(rxns, substances)
    subs, kw = substances_for(cin)
    return ReactionSystem(rxns, subs, **kw)


def initial_kvs(cin):
    """rate constants the reactions are CONSTRUCTED with: the case lists the current constants and
    the history of re-assignments <<i, old, new>> that led to them."""
    kvs = [rx["kv"] for rx in cin["rxns"]]
    seen = set()
    for i, old, new in cin.get("hist") or []:
        if i == 0:
            continue
        if i not in seen:
            kvs[i - 1] = old
            seen.add(i)
    return kvs


def replay_history(rsys, cin, mk_param, touch):
    """evaluate, re-assign Reaction.param, evaluate, ... as the history of the case says; the caller
    then observes the final state on the SAME objects."""
    for i, old, new in cin.get("hist") or []:
        guarded(touch)
        if i == 0:
            rsys.sort_substances_inplace()
        else:
            rsys.rxns[i - 1].param = mk_param(i, new)


def variables_for(cin, mode):
    """variables dict (substances + feed keys) in the requested number kind."""
    v = {}
    for s, q in zip(cin["subst"], cin["c"]):
        v[s] = conv(q, mode)
    fd = cin["feed"]
    if fd["on"]:
        v[FEEDVAR] = conv(fd["F"], mode)
        for s, q in zip(cin["subst"], fd["cf"]):
            v[fcvar(s)] = conv(q, mode)
    return v


def symbols_for(cin):
    import sympy
    v = {s: sympy.Symbol(s) for s in cin["subst"]}
    if cin["feed"]["on"]:
        v[FEEDVAR] = sympy.Symbol(FEEDVAR)
        for s in cin["subst"]:
            v[fcvar(s)] = sympy.Symbol(fcvar(s))
    return v


def cstr_arg(cin):
    from collections import OrderedDict
    if not cin["feed"]["on"]:
        return None
    order = cin["feed"].get("order") or cin["subst"]
    return (FEEDVAR, OrderedDict((s, fcvar(s)) for s in order))


def all_inputs(cin):
    qs = list(cin["c"]) + [rx["kv"] for rx in cin["rxns"]] + \
        [q for h in cin.get("hist") or [] if h[0] != 0 for q in h[1:]]
    if cin["feed"]["on"]:
        qs += [cin["feed"]["F"]] + list(cin["feed"]["cf"])
    return qs


def var_names(cin):
    n = list(cin["subst"]) + ["k%d" % rx["k"] for rx in cin["rxns"]]
    if cin["feed"]["on"]:
        n += [FEEDVAR] + [fcvar(s) for s in cin["subst"]]
    return n


# ----------------------------------------------------------------------------- C03 observations
def _param_form(pform, i, value):
    """how a reaction carries its constant: plain number, MassAction([k]), or the key 'k<i>'"""
    if pform == "plain":
        return value
    if pform == "ma":
        from chempy.kinetics.rates import MassAction
        return MassAction([value])
    if pform == "str":
        return "k%d" % i
    raise ValueError(pform)


def _container(xs, kind):
    if kind == "tuple":
        return tuple(xs)
    if kind == "ndarray":
        import numpy as np
        return np.array(xs)
    return list(xs)


def stoich_tables(rsys, subst, rxns):
    """the stoichiometry-matrix methods and get_coeff_mtx, projected to nested integer lists"""
    from chempy.util.stoich import get_coeff_mtx

    def ints(m):
        return [[proj_int(x) for x in row] for row in m]

    def rats(m):
        return [[proj_num(x) for x in row] for row in m]
    o = {}
    o["net"] = guarded(lambda: ints(rsys.net_stoichs()))
    o["net_keys"] = guarded(lambda: ints(rsys.net_stoichs(subst)))
    o["areac"] = guarded(lambda: rats(rsys.active_reac_stoichs()))
    o["allreac"] = guarded(lambda: ints(rsys.all_reac_stoichs()))
    o["aprod"] = guarded(lambda: ints(rsys.active_prod_stoichs()))
    o["allprod"] = guarded(lambda: ints(rsys.all_prod_stoichs()))
    o["coeff"] = guarded(lambda: rats(get_coeff_mtx(subst, [(r.reac, r.prod) for r in rsys.rxns])))
    o["order"] = guarded(lambda: [proj_num(r.order()) for r in rsys.rxns])
    o["rkeys"] = guarded(lambda: [sorted(r.keys()) for r in rsys.rxns])
    return o


def observe_numeric(cin, mode, pform="plain", container="list", extras=False):
    """Everything C03 names as an observation point, at the state of the case, in number kind
    `mode`, with the constants carried in form `pform` and arrays passed as `container`.
    Each entry is a projected value or {"raise": cls}.  extras: also the less common call forms
    (explicit rate expressions, key selections, repeated evaluation, stoichiometry matrices)."""
    from chempy.kinetics.ode import dCdt_list, law_of_mass_action_rates
    from chempy.kinetics.rates import MassAction
    cin, inv = actualize(cin)
    cin = dict(cin, _exact_half=(mode == "frac"))
    subst = list(cin["subst"])
    params = [_param_form(pform, rx["k"], conv(kv, mode)) for rx, kv in zip(cin["rxns"], initial_kvs(cin))]
    rsys = guarded(mk_system, cin, params)
    if is_raise(rsys):
        return {"build": rsys}
    v = variables_for(cin, mode)
    if pform == "str":
        for rx in cin["rxns"]:
            v["k%d" % rx["k"]] = conv(rx["kv"], mode)
    cs = cstr_arg(cin)
    def touch():
        # every observation point is evaluated BEFORE each step of the history, so that anything a
        # call might remember (wrappers, key lists, matrices) exists when the step happens
        guarded(lambda: [r.rate(v) for r in rsys.rxns])
        guarded(lambda: rsys.rates(v, substance_keys=list(rsys.substances)))
        guarded(lambda: rsys.rates(v))
        guarded(lambda: stoich_tables(rsys, list(rsys.substances), cin["rxns"]))
        if pform != "str":
            c0 = [v[s] for s in rsys.substances]
            ex = ({},) if pform == "ma" else ()
            guarded(lambda: dCdt_list(rsys, list(law_of_mass_action_rates(c0, rsys, *ex))))
    replay_history(rsys, cin, lambda i, kv: _param_form(pform, i, conv(kv, mode)), touch)
    obs = {}
    v0 = dict(v)
    obs["contrib_keys"] = [guarded(lambda r=r: proj_dict(r.rate(v, substance_keys=subst), subst)) for r in rsys.rxns]
    obs["contrib_default"] = [guarded(lambda r=r: proj_dict(r.rate(v), subst)) for r in rsys.rxns]
    obs["rates_keys"] = guarded(lambda: proj_dict(rsys.rates(v, substance_keys=subst, cstr_fr_fc=cs), subst))
    obs["rates_default"] = guarded(lambda: proj_dict(rsys.rates(v, cstr_fr_fc=cs), subst))
    if pform != "str":   # the array form takes plain (or MassAction-wrapped) numbers only
        clist = _container([v[s] for s in subst], container)
        extra = ({},) if pform == "ma" else ()
        obs["rvals"] = guarded(lambda: proj_seq(list(law_of_mass_action_rates(clist, rsys, *extra))))
        if cs is None:
            obs["dcdt"] = guarded(lambda: proj_seq(list(dCdt_list(
                rsys, _container(list(law_of_mass_action_rates(clist, rsys, *extra)), container)))))
    if extras:
        # evaluating again gives the same, and the caller's variables are left alone
        def again():
            first = rsys.rates(v, substance_keys=subst, cstr_fr_fc=cs)
            first.clear()          # the caller edits the mapping it was given
            return proj_dict(rsys.rates(v, substance_keys=subst, cstr_fr_fc=cs), subst)
        obs["rates_again"] = guarded(again)
        import numpy
        import sympy
        # the backend argument away from its default (unused by mass action with plain constants)
        obs["rates_backend_np"] = guarded(lambda: proj_dict(
            rsys.rates(v, numpy, substance_keys=subst, cstr_fr_fc=cs), subst))
        obs["rates_backend_sympy"] = guarded(lambda: proj_dict(
            rsys.rates(v, backend=sympy, substance_keys=subst, cstr_fr_fc=cs), subst))
        obs["frame"] = (v == v0)
        obs.update(("st_" + k, x) for k, x in stoich_tables(rsys, subst, cin["rxns"]).items())
        # explicitly passed rate expressions replace the constants (all / the odd-numbered ones)
        ov = [conv(q, mode) for q in cin.get("ov") or []]
        if len(ov) == len(rsys.rxns):
            for pat in ("all", "mixed"):
                rx = [MassAction([ov[i]]) if (pat == "all" or i % 2 == 0) else None for i in range(len(ov))]
                obs["ov%s_contrib" % pat] = [guarded(lambda r=r, x=x: proj_dict(r.rate(v, substance_keys=subst, ratex=x), subst))
                                             for r, x in zip(rsys.rxns, rx)]
                obs["ov%s_rates" % pat] = guarded(lambda: proj_dict(
                    rsys.rates(v, substance_keys=subst, ratexs=rx, cstr_fr_fc=cs), subst))
    return unname_obs(obs, inv)


def observe_vector(cin):
    """Array-valued concentrations: every variable is a numpy array holding the state and the second
    state of the case, so one call evaluates both.  Projects the two values per substance, whether
    the caller's arrays were left alone (frame) and whether every returned array is an object of its
    own - not one of the arguments, not shared between two substances (distinct)."""
    import numpy as np
    cin, inv = actualize(cin)
    subst = list(cin["subst"])
    mode = "float" if integral(all_inputs(cin) + list(cin["c2"])) else "frac"
    dt = float if mode == "float" else object
    params = [conv(kv, mode) for kv in initial_kvs(cin)]
    rsys = guarded(mk_system, cin, params)
    if is_raise(rsys):
        return {"build": rsys}
    v = variables_for(cin, mode)
    for s, q1, q2 in zip(subst, cin["c"], cin["c2"]):
        v[s] = np.array([conv(q1, mode), conv(q2, mode)], dtype=dt)
    before = {k: (x.copy() if hasattr(x, "copy") else x) for k, x in v.items()}
    cs = cstr_arg(cin)
    replay_history(rsys, cin, lambda i, kv: conv(kv, mode), lambda: rsys.rates(v, substance_keys=subst))

    def vec(d):
        out = []
        for s in subst:
            x = d.get(s, 0)
            x = np.broadcast_to(np.asarray(x, dtype=object), (2,)) if np.ndim(x) <= 1 else x
            out.append(proj_seq(list(x)) if np.shape(x) == (2,) else {"shape": list(np.shape(x))})
        return out
    obs = {}

    def run():
        res = rsys.rates(v, substance_keys=subst, cstr_fr_fc=cs)
        arrays = [x for x in res.values() if isinstance(x, np.ndarray)]
        ids = [id(x) for x in arrays]
        inputs = set(id(x) for x in v.values())
        obs["vec_distinct"] = len(set(ids)) == len(ids) and not (set(ids) & inputs) and \
            not any(np.shares_memory(a, b) for a in arrays for b in v.values() if isinstance(b, np.ndarray))
        return vec(res)
    obs["vec"] = guarded(run)
    obs["vec_frame"] = all(np.array_equal(v[k], before[k]) if isinstance(before[k], np.ndarray) else v[k] == before[k]
                           for k in before)
    return obs


def observe_selection(cin, mode, keys):
    """Reaction.rate / ReactionSystem.rates / net_stoichs asked for a sub-permutation `keys` of the
    substances (no feed)."""
    cin, inv = actualize(dict(cin, _sel=keys))
    fwd = dict(zip(inv.values(), inv.keys())) if inv else {}
    keys = [fwd.get(k, k) for k in keys]
    params = [conv(kv, mode) for kv in initial_kvs(cin)]
    rsys = guarded(mk_system, cin, params)
    if is_raise(rsys):
        return {"build": rsys}
    v = variables_for(cin, mode)
    obs = {}
    obs["contrib"] = [guarded(lambda r=r: proj_dict(r.rate(v, substance_keys=tuple(keys)), keys)) for r in rsys.rxns]
    obs["rates"] = guarded(lambda: proj_dict(rsys.rates(v, substance_keys=list(keys)), keys))
    obs["net"] = guarded(lambda: [[proj_int(x) for x in row] for row in rsys.net_stoichs(keys)])
    return obs


def observe_symbolic(cin, kmode):
    """The same calls with sympy symbols for every variable; rate constants numeric
    (kmode='num', exact rationals) or symbols k<i> (kmode='sym').  Results are monomial tables."""
    import sympy
    from chempy.kinetics.ode import dCdt_list, law_of_mass_action_rates
    cin, inv = actualize(cin)
    cin = dict(cin, _exact_half=(kmode == "sym"))
    subst = list(cin["subst"])
    if kmode == "num":
        params = [conv(kv, "sym") for kv in initial_kvs(cin)]
    else:
        params = [sympy.Symbol("k%d" % rx["k"]) for rx in cin["rxns"]]
    rsys = guarded(mk_system, cin, params)
    if is_raise(rsys):
        return {"build": rsys}
    v = symbols_for(cin)
    cs = cstr_arg(cin)
    names = var_names(cin)
    def touch():
        guarded(lambda: [r.rate(v) for r in rsys.rxns])
        guarded(lambda: rsys.rates(v, substance_keys=list(rsys.substances)))
        guarded(lambda: rsys.net_stoichs())
        guarded(lambda: dCdt_list(rsys, list(law_of_mass_action_rates([v[s] for s in rsys.substances], rsys))))
    replay_history(rsys, cin, (lambda i, kv: conv(kv, "sym")) if kmode == "num" else (lambda i, kv: sympy.Symbol("k%d" % i)),
                   touch)

    def tab(d):
        extra = sorted(k for k in d if k not in subst)
        if extra:
            return {"extra_keys": extra}
        return proj_polys([d.get(s, 0) for s in subst], names)

    obs = {}
    obs["contrib_keys"] = [guarded(lambda r=r: tab(r.rate(v, substance_keys=subst))) for r in rsys.rxns]
    obs["rates_keys"] = guarded(lambda: tab(rsys.rates(v, substance_keys=subst, cstr_fr_fc=cs)))
    obs["rates_default"] = guarded(lambda: tab(rsys.rates(v, cstr_fr_fc=cs)))
    if cs is None:
        clist = [v[s] for s in subst]
        obs["dcdt"] = guarded(lambda: proj_polys(dCdt_list(rsys, list(law_of_mass_action_rates(clist, rsys))), names))
    return unname_obs(obs, inv)


# ----------------------------------------------------------------------------- seeded systems (code -> spec)
TRACE_SPECIES = ["A", "B", "C", "D", "E", "G"]


def full_map(d):
    return {s: int(d.get(s, 0)) for s in TRACE_SPECIES}


def gen_system(rng, rational):
    """A random system beyond the exhaustive bounds: <= 6 species, <= 6 reactions (<= 4 with a
    rational state), coefficients <= 3.  Sizes are chosen so that every intermediate of the exact
    evaluation in TLC stays below 2^31 (order <= 5 at integer states <= 5, order <= 3 at rational
    states with denominators <= 3)."""
    ns = rng.randint(2, 6)
    subst = rng.sample(TRACE_SPECIES, ns)
    nr = rng.randint(1, 4 if rational else 6)
    max_order = 3 if rational else 5
    rxns = []
    tries = 0
    while len(rxns) < nr and (tries < 200 or not rxns):   # bounded: rejected draws cannot loop for ever
        tries += 1
        reac, prod, ireac, iprod = {}, {}, {}, {}
        order = rng.choice([0, 1, 1, 2, 2, 3, max_order])
        left = order
        while left > 0:
            s = rng.choice(subst)
            x = rng.randint(1, min(3, left))
            reac[s] = reac.get(s, 0) + x
            if reac[s] > 3:
                reac[s] = 3
            left -= x
        for _ in range(rng.randint(0, 2)):
            prod[rng.choice(subst)] = rng.randint(1, 3)
        if rng.random() < 0.35:
            ireac[rng.choice(subst)] = rng.randint(1, 3)
        if rng.random() < 0.35:
            iprod[rng.choice(subst)] = rng.randint(1, 3)
        net = {s: prod.get(s, 0) + iprod.get(s, 0) - reac.get(s, 0) - ireac.get(s, 0) for s in subst}
        if not any(net.values()):
            continue  # chempy refuses reactions that change nothing
        kv = [rng.choice([1, 2, 3, 5, 7, 9]), 1] if not rational else [rng.choice([1, 2, 3, 5]), rng.choice([1, 2])]
        if kv[0] % 2 == 0 and kv[1] == 2:
            kv = [kv[0] // 2, 1]
        half = {}
        if not rational and reac and rng.random() < 0.15:
            # a power-law order: half a unit of one active reactant is inactive
            half[rng.choice(sorted(reac))] = 1
        rx = {"reac": reac, "prod": prod, "ireac": ireac, "iprod": iprod, "half": half, "kv": kv}
        if rx in rxns:
            continue  # chempy refuses exact duplicates (same stoichiometry and same constant)
        rxns.append(rx)
    if rational:
        pool = [[1, 2], [1, 3], [2, 3], [3, 2], [1, 1], [2, 1], [3, 1]]
    else:
        pool = [[x, 1] for x in (1, 2, 3, 4, 5)]
    c = {s: rng.choice(pool) for s in subst}
    for r in rxns:
        for s in r["half"]:
            c[s] = rng.choice([[1, 1], [4, 1]])   # perfect squares keep the square root exact
    feed = None
    if rng.random() < 0.3:
        feed = {"F": rng.choice(pool), "cf": {s: rng.choice(pool) for s in subst}, "order": list(subst),
                "usermap": False}
        if rng.random() < 0.6:
            # the caller's own substance -> feed-key mapping: any sub-permutation of the substances
            order = rng.sample(subst, rng.randint(1, len(subst)))
            feed.update(order=order, usermap=True)
    phase = {s: rng.choice([0, 0, 0, 1, 2]) for s in subst} if rng.random() < 0.3 else {s: 0 for s in subst}
    hist = []
    if rng.random() < 0.3:
        cur = [r["kv"] for r in rxns]
        for _ in range(rng.randint(1, 2)):
            i = rng.randrange(len(rxns))
            new = [rng.choice([1, 2, 3, 5, 7]), 1]
            if new != cur[i]:
                hist.append([i + 1, new])
                cur[i] = new
    return {"subst": subst, "rxns": rxns, "c": c, "feed": feed, "phase": phase, "hist": hist}


def system_to_case_in(sysd):
    """seeded system -> the `in` vocabulary of a CASE (so that the same observers are used):
    rxns carry the CURRENT constants, hist the re-assignments <<i, old, new>> that led there."""
    subst = sysd["subst"]
    cur = [r["kv"] for r in sysd["rxns"]]
    hist = []
    for i, new in sysd.get("hist") or []:
        hist.append([i, cur[i - 1], new])
        cur[i - 1] = new
    rx = []
    for i, r in enumerate(sysd["rxns"]):
        rx.append({"reac": sorted(r["reac"].items()), "prod": sorted(r["prod"].items()),
                   "ireac": sorted(r["ireac"].items()), "iprod": sorted(r["iprod"].items()),
                   "half": sorted((r.get("half") or {}).items()), "k": i + 1, "kv": cur[i]})
    fd = sysd["feed"]
    return {"subst": subst, "rxns": rx, "c": [sysd["c"][s] for s in subst],
            "sphase": [int((sysd.get("phase") or {}).get(s, 0)) for s in subst], "hist": hist,
            "feed": {"on": True, "F": fd["F"], "cf": [fd["cf"][s] for s in subst],
                     "order": list(fd.get("order") or subst), "usermap": bool(fd.get("usermap"))} if fd
            else {"on": False, "F": [0, 1], "cf": [], "order": [], "usermap": False}}


def system_events(sysd):
    ev = []
    for r in sysd["rxns"]:
        ev.append({"ev": "AddReaction", "reac": full_map(r["reac"]), "prod": full_map(r["prod"]),
                   "ireac": full_map(r["ireac"]), "iprod": full_map(r["iprod"]),
                   "half": full_map(r.get("half") or {}), "kv": r["kv"]})
    cfull = {s: sysd["c"].get(s, [1, 1]) for s in TRACE_SPECIES}
    ev.append({"ev": "SetState", "subst": sysd["subst"], "c": cfull,
               "phase": {s: int((sysd.get("phase") or {}).get(s, 0)) for s in TRACE_SPECIES}})
    if sysd["feed"]:
        ev.append({"ev": "Feed", "F": sysd["feed"]["F"],
                   "cf": {s: sysd["feed"]["cf"].get(s, [1, 1]) for s in TRACE_SPECIES},
                   "order": list(sysd["feed"].get("order") or sysd["subst"]),
                   "usermap": bool(sysd["feed"].get("usermap"))})
    for i, new in sysd.get("hist") or []:
        ev.append({"ev": "Reassign", "i": i, "kv": new})
    return ev


# ----------------------------------------------------------------------------- C04: building ODE systems
_LIN = {}


def lin_class(tkey="T"):
    """The substituted expression  k := a * <tkey>  ("expr"/"expruk" substitutions of OdeBuild.tla):
    a chempy Expr with one argument a and one parameter key (T1, T2, ... Tg: every substituted key
    has its own, so several expression substitutions are independent of each other)."""
    if tkey not in _LIN:
        from chempy.util._expr import Expr

        class Lin(Expr):
            argument_names = ("a",)
            parameter_keys = (tkey,)

            def __call__(self, variables, backend=None, **kw):
                (a,) = self.all_args(variables, backend=backend)
                (T,) = self.all_params(variables, backend=backend)
                return a * T

        Lin.__name__ = "Lin_" + tkey
        _LIN[tkey] = Lin
    return _LIN[tkey]


def _aval(cfg, i):
    av = cfg.get("avals")
    return conv(av[i] if av else cfg["aval"], "int")


_PARLIN = []


def parlin_class():
    """Rate constant  v * g  with g a PARAMETER KEY ("ma_pk" kind of OdeBuild.tla)."""
    if not _PARLIN:
        from chempy.util._expr import Expr

        class ParLin(Expr):
            argument_names = ("v",)
            parameter_keys = ("g",)

            def __call__(self, variables, backend=None, **kw):
                (v,) = self.all_args(variables, backend=backend)
                (g,) = self.all_params(variables, backend=backend)
                return v * g

        _PARLIN.append(ParLin)
    return _PARLIN[0]


_PROD2 = []


def prod2_class():
    """Rate constant  p * q  with two unique keys and explicit defaults ("ma_uk2")."""
    if not _PROD2:
        from chempy.util._expr import Expr

        class Prod2(Expr):
            argument_names = ("p", "q")

            def __call__(self, variables, backend=None, **kw):
                p, q = self.all_args(variables, backend=backend)
                return p * q

        _PROD2.append(Prod2)
    return _PROD2[0]


def kname(i):
    return "k%d" % i


def pname(i):
    return "p%d" % i


def qname(i):
    return "q%d" % i


def symname(s):
    """name of the user-made concentration symbol of substance s (create_odesys, symorder)"""
    return "c_" + s


def param_obj(kind, i, kv, cfg=None):
    from chempy.kinetics.rates import MassAction
    v = conv(kv, "int") if kv[1] == 1 else conv(kv, "frac")
    if kind == "num":
        return v
    if kind == "ma_num":
        return MassAction([v])
    if kind == "str":
        return kname(i)
    if kind == "ma_fk":
        return MassAction.fk(kname(i))
    if kind == "ma_uk":
        return MassAction([v], unique_keys=(kname(i),))
    if kind == "ma_pk":
        return MassAction(parlin_class()([v]))
    if kind == "ma_uk2":
        return MassAction(prod2_class()([v, conv(cfg["qval"], "int")], unique_keys=(pname(i), qname(i))))
    raise ValueError(kind)


def user_symbols(cin):
    """plain dict substance -> sympy symbol, inserted in the order the configuration asks for
    (None when the configuration does not hand over symbols)."""
    import sympy
    order = cin["cfg"].get("symorder") or []
    if not order:
        return None
    if cin["cfg"].get("symodict"):
        from collections import OrderedDict
        return OrderedDict((s, sympy.Symbol(symname(s))) for s in order)
    return {s: sympy.Symbol(symname(s)) for s in order}


def user_param_symbols(cin):
    """OrderedDict parameter key -> user-made symbol u_<key>, listing the free parameters of the
    case (the keys of its bind map) in sorted ("order") or reverse-sorted ("rev") key order."""
    import sympy
    from collections import OrderedDict
    ps = cin["cfg"].get("psym", "none")
    if ps == "none":
        return None
    keys = sorted(cin.get("psymkeys") or [k for k, v in cin["bind"]])
    if ps == "rev":
        keys = keys[::-1]
    return OrderedDict((k, sympy.Symbol("u_" + k)) for k in keys)


def param_signature(rsys):
    """structural projection of the reactions' parameters (to see whether a build left them alone)"""
    out = []
    for r in rsys.rxns:
        p = r.param
        out.append((type(p).__name__, repr(getattr(p, "args", p)), repr(getattr(p, "unique_keys", None)), id(p)))
    return out


def build_odesys(cin):
    """(odesys, extra) for the configuration of the case, through the real builders."""
    return build_odesys_full(cin)[0]


def build_odesys_full(cin):
    """((odesys, extra), frame) - frame: the system's parameters are the same objects with the same
    content after the build(s) as before."""
    from collections import OrderedDict
    from chempy import Substance
    from chempy.kinetics.ode import get_odesys, _create_odesys
    from chempy.util._expr import Constant
    cfg = cin["cfg"]
    params = [param_obj(kd, rx["k"], kv, cfg) for kd, rx, kv in zip(cfg["kinds"], cin["rxns"], initial_kvs(cin))]
    if cfg["comp"] or cfg.get("alias"):
        # alias: the substances are handed over under keys that differ from Substance.name
        pre = "n_" if cfg.get("alias") else ""
        compof = dict(zip(cin["subst"], cin["comp"] if cfg["comp"] else [None] * len(cin["subst"])))
        substances = OrderedDict(
            (s, Substance(pre + s, composition=None if compof[s] is None else
                          dict((int(k), int(v)) for k, v in compof[s])))
            for s in initial_subst(cin))
        from chempy import ReactionSystem
        rxns = [mk_reaction(rx, p) for rx, p in zip(cin["rxns"], params)]
        rsys = ReactionSystem(rxns, substances, dont_check={"balance"})
    else:
        rsys = mk_system(cin, params)
    a = conv(cfg["aval"], "int")
    order = cin["feed"].get("order") or cin["subst"]
    if cin.get("hist"):
        # history: build once, re-assign Reaction.param (same kind, new value), build again
        cin0 = dict(cin, hist=[], rxns=[dict(rx, kv=kv) for rx, kv in zip(cin["rxns"], initial_kvs(cin))])
        replay_history(rsys, cin, lambda i, kv: param_obj(cfg["kinds"][i - 1], i, kv, cfg),
                       lambda: (build_odesys(cin0), [r.rate_expr() for r in rsys.rxns]))
    if cfg["builder"] == "get_odesys":
        subs = OrderedDict()
        for i, (sk, rx) in enumerate(zip(cfg["subs"], cin["rxns"])):
            if sk == "num" and cfg["kinds"][i] == "ma_uk2":
                subs[pname(rx["k"])] = conv(cfg["subvals"][i], "int")
            elif sk == "num2":
                subs[qname(rx["k"])] = conv(cfg["subvals"][i], "int")
            elif sk == "num":
                subs[kname(rx["k"])] = conv(cfg["subvals"][i], "int")
            elif sk == "expr":
                subs[kname(rx["k"])] = lin_class("T%d" % rx["k"])([_aval(cfg, i)])
            elif sk == "expruk":
                subs[kname(rx["k"])] = lin_class("T%d" % rx["k"])([_aval(cfg, i)], unique_keys=("a%d" % rx["k"],))
        if cfg.get("gsub", "none") == "num":
            subs["g"] = conv(cfg["gsubval"], "int")
        elif cfg.get("gsub", "none") == "expr":
            subs["g"] = lin_class("Tg")([a])
        if cfg.get("fsub", "none") == "num":
            subs[FEEDVAR] = conv(cfg["fsubval"], "int")
        kw = {}
        if cfg.get("consts"):
            # a constants object: a class with plain-float attributes
            attrs = {}
            if "g" in cfg["consts"]:
                attrs["g"] = conv(cfg["gconst"], "float")
            if FEEDVAR in cfg["consts"]:
                attrs[FEEDVAR] = conv(cfg["fconst"], "float")
            kw["constants"] = type("Constants", (), attrs)
        cstr = bool(cfg["cstr"])
        if cstr and cin["feed"].get("usermap"):
            # the caller's own (feed-ratio key, substance -> feed-concentration key) mapping
            cstr = (FEEDVAR, OrderedDict((s, fcvar(s)) for s in order))
        if cfg.get("opts"):
            # the remaining options in an explicit, neutral form: the default class passed by hand,
            # substituted numbers given as floats
            from pyodesys.symbolic import SymbolicSys
            kw["SymbolicSys"] = SymbolicSys
            subs = OrderedDict((k, float(x) if isinstance(x, int) else x) for k, x in subs.items())
        if cfg.get("preother"):
            # the same system object was first built the other way round
            guarded(lambda: get_odesys(rsys, include_params=not cfg["incl"]))
            guarded(lambda: _create_odesys(rsys))
        kw.update(include_params=cfg["incl"], substitutions=subs or None, cstr=cstr)
        if cfg.get("implicit"):
            # arguments equal to their documented default are left out
            for k, dflt in (("include_params", True), ("substitutions", None), ("cstr", False)):
                if kw[k] is dflt or (k == "cstr" and kw[k] is False):
                    del kw[k]
        before = param_signature(rsys)
        if cfg.get("rebuild"):
            get_odesys(rsys, **kw)
        out = get_odesys(rsys, **kw)
        return out, param_signature(rsys) == before
    pe = {}
    for i, (sk, rx) in enumerate(zip(cfg["subs"], cin["rxns"])):
        if sk == "num":
            pe[kname(rx["k"])] = Constant([conv(cfg["subvals"][i], "int")])
        elif sk in ("expr", "expruk"):
            pe[kname(rx["k"])] = lin_class("T%d" % rx["k"])([_aval(cfg, i)])
    kw = {}
    if pe:
        kw["parameter_expressions"] = pe
    if cfg["cstr"]:
        kw["rates_kw"] = dict(cstr_fr_fc=(FEEDVAR, OrderedDict((s, fcvar(s)) for s in order)))
    usyms = user_symbols(cin)
    if usyms is not None:
        kw["substance_symbols"] = usyms
    psyms = user_param_symbols(cin)
    if psyms is not None:
        kw["parameter_symbols"] = psyms
    if cfg.get("opts"):
        import sympy
        from sym import Backend
        from pyodesys.symbolic import SymbolicSys
        kw.update(backend=Backend("sympy"), SymbolicSys=SymbolicSys, time_symbol=sympy.Symbol("tau"), symbolic_kw={})
    if cfg.get("preother"):
        guarded(lambda: get_odesys(rsys, include_params=False))
    before = param_signature(rsys)
    if cfg.get("rebuild"):
        _create_odesys(rsys, **kw)
    out = _create_odesys(rsys, **kw)
    return out, param_signature(rsys) == before


def observe_odesys(cin):
    """Project everything C04 names: names, param_names, exprs (monomial tables with symbols
    mapped BY NAME), f_cb and rate_exprs_cb at the state - called again at a second state and once
    more at the first - with parameters bound BY NAME, linear_invariants."""
    import sympy
    cin, inv = actualize(cin)
    built = guarded(build_odesys_full, cin)
    if is_raise(built):
        return {"build": built}
    (odesys, extra), frame = built
    names = list(odesys.names)
    pnames = list(odesys.param_names)
    obs = {"build": "ok", "names": names, "params": sorted(pnames),
           "params_unique": len(set(pnames)) == len(pnames), "frame": bool(frame)}
    create = cin["cfg"]["builder"] == "create_odesys"
    usyms = user_symbols(cin) if create else None
    psyms = user_param_symbols(cin) if create else None
    if psyms is not None:
        obs["paramseq"] = (pnames == list(psyms.keys()))
    if create and cin["cfg"].get("opts"):
        obs["indep"] = str(odesys.indep)
    if create:
        # which substance does the i-th dependent variable stand for?  user-made symbols are
        # identified by their name c_<substance>, default ones carry the substance key
        back = {symname(k): k for k in (usyms or {})}
        obs["dep"] = [back.get(str(sym), "?" + str(sym)) if usyms else str(sym) for sym in odesys.dep]

    def tables():
        rep = {}
        if usyms:
            for k in usyms:
                rep[sympy.Symbol(symname(k))] = sympy.Symbol(k)
        else:
            for sym, n in zip(odesys.dep, names):
                rep[sym] = sympy.Symbol(n)
        if psyms:
            for k in psyms:
                rep[sympy.Symbol("u_" + k)] = sympy.Symbol(k)
        else:
            for sym, n in zip(odesys.params, pnames):
                rep[sym] = sympy.Symbol(n)
        return proj_polys([sympy.sympify(e).xreplace(rep) for e in odesys.exprs], names + pnames)
    obs["poly"] = guarded(tables)
    bind = dict((k, v) for k, v in cin["bind"])

    def yp(cvals):
        cmap = dict(zip(cin["subst"], cvals))
        y = [float(conv(cmap[n], "frac")) for n in names]
        p = [float(conv(bind[n], "frac")) for n in pnames]
        return y, p
    obs["f"] = guarded(lambda: proj_seq(list(odesys.f_cb(0.0, *yp(cin["c"])))))
    if "rate_exprs_cb" in extra:
        obs["rvals"] = guarded(lambda: proj_seq(list(extra["rate_exprs_cb"](0.0, *yp(cin["c"])))))
    if cin.get("c2"):
        # the generated callbacks are called again: another state, then the first one once more
        obs["f2"] = guarded(lambda: proj_seq(list(odesys.f_cb(3.0, *yp(cin["c2"])))))   # and another time
        obs["f_again"] = guarded(lambda: proj_seq(list(odesys.f_cb(0.0, *yp(cin["c"])))))
        if "rate_exprs_cb" in extra:
            obs["rvals2"] = guarded(lambda: proj_seq(list(extra["rate_exprs_cb"](0.0, *yp(cin["c2"])))))
    li = odesys.linear_invariants

    def bmat():
        if li is None:
            return []
        return [[proj_int(x) for x in row] for row in sympy.Matrix(li).tolist()]
    obs["B"] = guarded(bmat)
    return unname_obs(obs, inv)


def gen_build_config(rng, n, substs=(), feed=False):
    """A random configuration from the families of OdeBuild_MC (not filtered: TLC's Accepted
    decides whether a configuration is inside the model)."""
    kinds_all = ["num", "ma_num", "str", "ma_fk", "ma_uk"]
    builder = rng.choice(["get_odesys", "get_odesys", "create_odesys"])
    if builder == "create_odesys":
        kinds = [rng.choice(["ma_num", "str", "ma_fk", "ma_uk"]) for _ in range(n)]
        if rng.random() < 0.4:
            kinds = ["str"] * n
    else:
        kinds = [rng.choice(kinds_all) for _ in range(n)]
    incl = builder == "get_odesys" and rng.random() < 0.4
    subs = ["none"] * n
    mode = rng.random()
    named = [i for i, k in enumerate(kinds) if k in ("str", "ma_fk", "ma_uk")]
    if builder == "create_odesys":
        named = [i for i, k in enumerate(kinds) if k == "str"]
    if named and mode < 0.5:
        for i in named:
            if rng.random() < 0.5 or (incl and kinds[i] in ("str", "ma_fk")):
                subs[i] = "num"
        if rng.random() < 0.4:
            subs[rng.choice(named)] = rng.choice(["expr", "expruk"]) if builder == "get_odesys" else "expr"
    elif incl:
        for i in named:
            if kinds[i] in ("str", "ma_fk"):
                subs[i] = "num"
    cfg = {"builder": builder, "incl": incl, "kinds": kinds, "subs": subs, "comp": False,
           "subvals": [[rng.choice([2, 3, 5, 7]), 1] for _ in range(n)],
           "aval": [rng.choice([2, 3, 5]), 1], "tval": [rng.choice([2, 3, 7]), 1]}
    cfg.update(default_pk_fields())
    # parameter keys: some reactions carry v*g; substitution / constants object on g and feedratio
    if rng.random() < 0.4:
        for i in range(n):
            if subs[i] == "none" and kinds[i] != "num" and rng.random() < 0.5:
                kinds[i] = "ma_pk"
    cfg["gval"] = [rng.choice([2, 3, 5]), 1]
    cfg["gsubval"] = [rng.choice([2, 3, 7]), 1]
    cfg["gconst"] = [rng.choice([3, 5, 7]), 1]
    cfg["fsubval"] = [rng.choice([2, 3, 5]), 1]
    cfg["fconst"] = [rng.choice([3, 5, 7]), 1]
    if builder == "get_odesys":
        if "ma_pk" in kinds and rng.random() < 0.5:
            cfg["gsub"] = "num" if any(x in ("expr", "expruk") for x in subs) else rng.choice(["num", "expr"])
        if feed and rng.random() < 0.4:
            cfg["fsub"] = "num"
        cfg["consts"] = rng.choice([[], [], ["g"], [FEEDVAR], ["g", FEEDVAR]])
    elif substs and rng.random() < 0.6:
        order = list(substs)
        rng.shuffle(order)
        cfg["symorder"] = order
    # constants with two unique keys; substitution of the first / second key
    if rng.random() < 0.3:
        for i in range(n):
            if subs[i] == "none" and kinds[i] not in ("num", "ma_pk") and rng.random() < 0.6:
                kinds[i] = "ma_uk2"
                if builder == "get_odesys":
                    subs[i] = rng.choice(["none", "num", "num2"])
    cfg["qval"] = [rng.choice([2, 3, 5]), 1]
    cfg["avals"] = [[rng.choice([2, 3, 5]), 1] for _ in range(n)]
    cfg["tvals"] = [[rng.choice([2, 3, 7]), 1] for _ in range(n)]
    # several independent expression substitutions at once
    if builder == "get_odesys" and rng.random() < 0.3:
        for i in named:
            if kinds[i] in ("str", "ma_fk", "ma_uk") and subs[i] in ("none", "num") and rng.random() < 0.7:
                subs[i] = rng.choice(["expr", "expruk"])
    cfg["alias"] = rng.random() < 0.3   # both builders name the variables by key
    cfg["opts"] = rng.random() < 0.3
    cfg["preother"] = rng.random() < 0.2
    cfg["rebuild"] = rng.random() < 0.2
    cfg["implicit"] = rng.random() < 0.3
    if builder == "create_odesys":
        # (user-made parameter symbols need the exact set of free parameters, which only the
        # spec knows: that form is exercised by the spec -> code cases, not by seeded traces)
        cfg["symodict"] = bool(cfg["symorder"]) and list(cfg["symorder"]) == list(substs) and rng.random() < 0.5
    return cfg


def default_pk_fields():
    return {"gsub": "none", "fsub": "none", "consts": [], "symorder": [],
            "gval": [1, 1], "gsubval": [1, 1], "gconst": [1, 1], "fsubval": [1, 1], "fconst": [1, 1],
            "qval": [1, 1], "avals": [[1, 1]] * 8, "tvals": [[1, 1]] * 8, "alias": False, "opts": False, "preother": False, "pfull": False, "psym": "none", "symodict": False, "rebuild": False, "implicit": False}


# ----------------------------------------------------------------------------- repository suite (code -> spec)
SUITE_FILES = ["chempy/tests/test_reactionsystem.py", "chempy/kinetics/tests/test_ode.py",
               "chempy/kinetics/tests/test_rates.py", "chempy/kinetics/tests/test__rates.py"]


def record_suite(tmpdir, repo):
    """Run the repository's own kinetics tests under the external recorder plugin
    (harness/kinetics_recorder.py) and return the recorded calls (one dict per call)."""
    import json
    import os
    import subprocess
    import sys
    out = os.path.join(tmpdir, "suite-calls.jsonl")
    if os.path.exists(out):
        os.unlink(out)
    here = os.path.dirname(os.path.abspath(__file__))
    env = dict(os.environ, CHEMPY_VERIF_TRACE=out, PYTHONPATH=repo + ":" + here, PYTHONDONTWRITEBYTECODE="1")
    files = [f for f in SUITE_FILES if os.path.exists(os.path.join(repo, f))]
    subprocess.run(["timeout", "600", sys.executable, "-m", "pytest", "-q", "-p", "no:cacheprovider",
                    "-p", "kinetics_recorder"] + files, cwd=repo, env=env,
                   stdout=subprocess.DEVNULL, stderr=subprocess.DEVNULL)
    if not os.path.exists(out):
        return []
    return [json.loads(line) for line in open(out) if line.strip()]
