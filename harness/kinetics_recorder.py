"""pytest plugin (loaded with ``-p kinetics_recorder``, active only when CHEMPY_VERIF_TRACE names
a file): records the calls the repository's own tests make to ``ReactionSystem.rates`` and
``chempy.kinetics.ode.get_odesys`` from OUTSIDE (no source hooks), one JSON line per call.

A call is written as a trace in the vocabulary of spec/KineticsTrace.tla / OdeBuildTrace.tla
when it lies inside the model (plain or MassAction-wrapped numeric / named constants, at most six
substances, small exactly-encodable numbers, no units); otherwise it is written as
{"skip": reason}.  Nothing is judged here: TLC judges the traces (harness/props/c03.py, c04.py).
"""
import json
import math
import os
from fractions import Fraction

import kinetics_common as kc

_OUT = os.environ.get("CHEMPY_VERIF_TRACE")
_TEST = [""]


class Skip(Exception):
    pass


def _q(x):
    """number -> small exact rational [n, d] (floats: nearest rational with denominator <= 10^6,
    residual <= 1e-12 relative), else Skip."""
    import numbers
    if isinstance(x, bool) or not isinstance(x, (numbers.Real, Fraction)):
        raise Skip("value-not-a-plain-number")
    if isinstance(x, (int, Fraction)):
        f = Fraction(x)
    else:
        x = float(x)
        if x != x or abs(x) == float("inf"):
            raise Skip("value-not-finite")
        f = Fraction(x).limit_denominator(10 ** 6)
        if abs(float(f) - x) > 1e-12 * abs(x):
            raise Skip("float-not-a-small-rational")
    if abs(f.numerator) > 10 ** 6 or f.denominator > 10 ** 6:
        raise Skip("number-too-large-for-exact-replay")
    return [f.numerator, f.denominator]


def _check_size(kvs, cs, order, nr):
    """Crude bound on the integers TLC meets when it evaluates the rates exactly (numerators,
    denominators and the cross products of rational addition must stay below 2^31)."""
    kn = max([abs(q[0]) for q in kvs] + [1])
    kd = max([q[1] for q in kvs] + [1])
    cn = max([abs(q[0]) for q in cs] + [1])
    cd = max([q[1] for q in cs] + [1])
    num = 9 * nr * kn * cn ** order
    den = kd * cd ** order
    if num * den * den >= 2 ** 31:
        raise Skip("number-too-large-for-exact-replay")


def _system(rsys):
    subst = list(rsys.substances.keys())
    if not 1 <= len(subst) <= len(kc.TRACE_SPECIES):
        raise Skip("too-many-substances")
    ren = dict(zip(subst, kc.TRACE_SPECIES))
    if len(rsys.rxns) > 8:
        raise Skip("too-many-reactions")
    shapes = []
    for r in rsys.rxns:
        sh = {}
        for part, attr in (("reac", "reac"), ("prod", "prod"), ("ireac", "inact_reac"), ("iprod", "inact_prod")):
            d = {}
            for k, v in getattr(r, attr).items():
                if int(v) != v or not 0 <= int(v) <= 9:
                    raise Skip("non-integer-stoichiometry")
                if k not in ren:
                    raise Skip("reaction-key-not-a-substance")
                d[ren[k]] = int(v)
            sh[part] = d
        if sum(sh["reac"].values()) > 6:
            raise Skip("order-too-large-for-exact-replay")
        shapes.append(sh)
    return subst, ren, shapes


def _phases(rsys, ren):
    ph = {s: 0 for s in kc.TRACE_SPECIES}
    for k, sub in rsys.substances.items():
        ph[ren[k]] = int(getattr(sub, "phase_idx", 0) or 0)
    return ph


def _plain_constant(param, ratex):
    from chempy.kinetics.rates import MassAction
    obj = param if ratex is None else ratex
    if isinstance(obj, MassAction):
        if obj.unique_keys is not None or obj.args is None or len(obj.args) != 1:
            raise Skip("rate-constant-not-plain")
        obj = obj.args[0]
    return _q(obj)


def _record_rates(rsys, variables, substance_keys, ratexs, cstr_fr_fc, result):
    import sympy
    subst, ren, shapes = _system(rsys)
    if substance_keys is not None and list(substance_keys) != subst:
        raise Skip("custom-substance-keys")
    ratexs = ratexs or [None] * len(rsys.rxns)
    ev = []
    for sh, r, rx in zip(shapes, rsys.rxns, ratexs):
        ev.append(dict(ev="AddReaction", reac=kc.full_map(sh["reac"]), prod=kc.full_map(sh["prod"]),
                       ireac=kc.full_map(sh["ireac"]), iprod=kc.full_map(sh["iprod"]), half=kc.full_map({}),
                       kv=_plain_constant(r.param, rx)))
    variables = variables or {}
    vals = [variables.get(s) for s in subst]
    symbolic = any(isinstance(v, sympy.Basic) and not v.is_number for v in vals)
    c = {s: [1, 1] for s in kc.TRACE_SPECIES}
    names = {}
    if symbolic:
        for s, v in zip(subst, vals):
            if v is None:
                continue
            if not isinstance(v, sympy.Symbol):
                raise Skip("variable-not-a-bare-symbol")
            names[v] = sympy.Symbol(ren[s])
    else:
        for s, v in zip(subst, vals):
            if v is not None:
                c[ren[s]] = _q(v)
    used = set()
    for sh in shapes:
        used.update(k for k, v in sh["reac"].items() if v)
    if any(variables.get(s) is None for s in subst if ren[s] in used):
        raise Skip("missing-concentration")
    ev.append(dict(ev="SetState", subst=[ren[s] for s in subst], c=c, phase=_phases(rsys, ren)))
    if cstr_fr_fc:
        fr, fc = cstr_fr_fc
        if not fc or any(s not in ren for s in fc):
            raise Skip("feed-map-key-not-a-substance")
        if symbolic:
            if not all(isinstance(variables[k], sympy.Symbol) for k in [fr] + list(fc.values())):
                raise Skip("variable-not-a-bare-symbol")
            names[variables[fr]] = sympy.Symbol(kc.FEEDVAR)
            for s in fc:
                names[variables[fc[s]]] = sympy.Symbol(kc.fcvar(ren[s]))
            ev.append(dict(ev="Feed", F=[1, 1], cf={s: [1, 1] for s in kc.TRACE_SPECIES},
                           order=[ren[s] for s in fc], usermap=True))
        else:
            cf = {s: [1, 1] for s in kc.TRACE_SPECIES}
            for s in fc:
                cf[ren[s]] = _q(variables[fc[s]])
            ev.append(dict(ev="Feed", F=_q(variables[fr]), cf=cf, order=[ren[s] for s in fc], usermap=True))
    order = max(sum(sh["reac"].values()) for sh in shapes)
    qs = list(c.values()) + [e["F"] for e in ev if e["ev"] == "Feed"] + \
        [q for e in ev if e["ev"] == "Feed" for q in e["cf"].values()]
    _check_size([e["kv"] for e in ev if e["ev"] == "AddReaction"], qs, 0 if symbolic else order, len(shapes))
    res = dict(ev="Result", rates=[], dcdt=[], rvals=[], contrib=[], poly=[])
    extra = [k for k in result if k not in ren]
    if extra:
        raise Skip("result-key-not-a-substance")
    if symbolic:
        tabs = []
        for s in subst:
            e = sympy.sympify(result.get(s, 0)).xreplace(names)
            e = sympy.nsimplify(e, rational=True, tolerance=1e-13) if e.atoms(sympy.Float) else e
            t = kc.proj_poly(e, [])
            if t is None:
                raise Skip("unencodable-expression")
            tabs.append(t)
        res["poly"] = tabs
    else:
        res["rates"] = [_q(result.get(s, 0)) for s in subst]
    return ev + [res]


def _kind_of(param):
    """-> (kind, key or None, value [n, d] or None) in the vocabulary of OdeBuild.tla"""
    from chempy.kinetics.rates import MassAction
    if isinstance(param, str):
        return "str", param, None
    if isinstance(param, MassAction):
        uk = param.unique_keys
        if param.args is None:
            if uk is None or len(uk) != 1:
                raise Skip("rate-constant-not-plain")
            return "ma_fk", uk[0], None
        if len(param.args) != 1:
            raise Skip("rate-constant-not-plain")
        v = _q(param.args[0])
        if uk is None:
            return "ma_num", None, v
        if len(uk) != 1:
            raise Skip("rate-constant-not-plain")
        return "ma_uk", uk[0], v
    return "num", None, _q(param)


_PRIMES = [2, 3, 5, 7, 11, 13]
_KPRIMES = [17, 19, 23, 29, 31, 37, 41, 43]


def _record_get_odesys(rsys, include_params, kwargs, out):
    import sympy
    if set(kwargs) - {"substitutions", "cstr"}:
        raise Skip("builder-options-outside-model")
    if kwargs.get("substitutions"):
        raise Skip("substitutions-not-recorded")
    cstr = kwargs.get("cstr", False)
    if cstr not in (True, False):
        raise Skip("custom-cstr-keys")
    subst, ren, shapes = _system(rsys)
    for s in rsys.substances.values():
        if s.name != list(rsys.substances.keys())[list(rsys.substances.values()).index(s)]:
            raise Skip("substance-name-differs-from-key")
    kinds, ev, pren = [], [], {}
    for i, (sh, r) in enumerate(zip(shapes, rsys.rxns)):
        kind, key, val = _kind_of(r.param)
        if key is not None:
            if key in pren:
                raise Skip("shared-parameter-key")
            pren[key] = kc.kname(i + 1)
        kinds.append(kind)
        ev.append(dict(ev="AddReaction", reac=kc.full_map(sh["reac"]), prod=kc.full_map(sh["prod"]),
                       ireac=kc.full_map(sh["ireac"]), iprod=kc.full_map(sh["iprod"]), half=kc.full_map({}),
                       kv=val if val is not None else [_KPRIMES[i], 1]))
    n = len(subst)
    c = {s: [1, 1] for s in kc.TRACE_SPECIES}
    for s, pv in zip(subst, _PRIMES):
        c[ren[s]] = [pv, 1]
    ev.append(dict(ev="SetState", subst=[ren[s] for s in subst], c=c, phase=_phases(rsys, ren)))
    bind = {}
    for (sh, r), e in zip(zip(shapes, rsys.rxns), ev):
        pass
    for key, kn in pren.items():
        bind[key] = ev[int(kn[1:]) - 1]["kv"]
    if cstr:
        cf = {s: [1, 1] for s in kc.TRACE_SPECIES}
        for s, pv in zip(subst, [47, 53, 59, 61, 67, 71]):
            cf[ren[s]] = [pv, 1]
            pren["fc_" + s] = kc.fcvar(ren[s])
            bind["fc_" + s] = [pv, 1]
        pren["feedratio"] = kc.FEEDVAR
        bind["feedratio"] = [73, 1]
        ev.append(dict(ev="Feed", F=[73, 1], cf=cf, order=[ren[s] for s in subst], usermap=False))
    ev.append(dict(ev="Build", cfg=dict(kc.default_pk_fields(), builder="get_odesys", incl=bool(include_params),
                                        kinds=kinds, subs=["none"] * len(kinds), cstr=bool(cstr), comp=False,
                                        subvals=[[1, 1]] * len(kinds), aval=[1, 1], tval=[1, 1])))
    odesys, extra = out
    names = list(odesys.names)
    pnames = list(odesys.param_names)
    if any(nm not in ren for nm in names) or any(pn not in pren for pn in pnames):
        res_names = [ren.get(nm, "?" + str(nm)) for nm in names]
        res_params = sorted(pren.get(pn, "?" + str(pn)) for pn in pnames)
    else:
        res_names = [ren[nm] for nm in names]
        res_params = sorted(pren[pn] for pn in pnames)
    rep = {}
    for sym, nm in zip(odesys.dep, names):
        rep[sym] = sympy.Symbol(ren.get(nm, "?"))
    for sym, pn in zip(odesys.params, pnames):
        rep[sym] = sympy.Symbol(pren.get(pn, "?"))
    tabs = []
    for e in odesys.exprs:
        e = sympy.sympify(e).xreplace(rep)
        e = sympy.nsimplify(e, rational=True, tolerance=1e-13) if e.atoms(sympy.Float) else e
        t = kc.proj_poly(e, [])
        if t is None:
            raise Skip("unencodable-expression")
        tabs.append(t)
    _check_size([e["kv"] for e in ev if e["ev"] == "AddReaction"], [[73, 1]],
                max(sum(sh["reac"].values()) for sh in shapes), len(shapes))
    f = []
    try:
        y = [float(c[ren[nm]][0]) for nm in names]
        p = [float(Fraction(*bind[pn])) for pn in pnames]
        f = [_q(float(x)) for x in odesys.f_cb(0.0, y, p)]
    except Exception:
        f = []
    ev.append(dict(ev="Result", built=True, names=res_names, dep=[], params=res_params, poly=tabs, f=f,
                   rvals=[], hasr=False))
    return ev


def _log(obj):
    with open(_OUT, "a") as fh:
        fh.write(json.dumps(obj, default=str) + "\n")


def pytest_runtest_setup(item):
    _TEST[0] = item.nodeid


def pytest_configure(config):
    if not _OUT:
        return
    from chempy.reactionsystem import ReactionSystem
    orig = ReactionSystem.rates

    def rates(self, variables=None, backend=math, substance_keys=None, ratexs=None, cstr_fr_fc=None):
        result = orig(self, variables, backend, substance_keys, ratexs, cstr_fr_fc)
        try:
            _log({"fn": "rates", "test": _TEST[0],
                  "trace": _record_rates(self, variables, substance_keys, ratexs, cstr_fr_fc, result)})
        except Skip as e:
            _log({"fn": "rates", "test": _TEST[0], "skip": str(e)})
        except Exception as e:  # a projection problem is never an alarm
            _log({"fn": "rates", "test": _TEST[0], "skip": "recorder-" + type(e).__name__})
        return result

    ReactionSystem.rates = rates

    import chempy.kinetics.ode as ode_mod
    orig_get = ode_mod.get_odesys

    def get_odesys(rsys, include_params=True, **kwargs):
        out = orig_get(rsys, include_params, **kwargs)
        try:
            _log({"fn": "get_odesys", "test": _TEST[0],
                  "trace": _record_get_odesys(rsys, include_params, kwargs, out)})
        except Skip as e:
            _log({"fn": "get_odesys", "test": _TEST[0], "skip": str(e)})
        except Exception as e:
            _log({"fn": "get_odesys", "test": _TEST[0], "skip": "recorder-" + type(e).__name__})
        return out

    get_odesys.__doc__ = orig_get.__doc__
    ode_mod.get_odesys = get_odesys
    try:
        import chempy.kinetics as kin_mod
        if getattr(kin_mod, "get_odesys", None) is orig_get:
            kin_mod.get_odesys = get_odesys
    except Exception:
        pass
