# -*- coding: utf-8 -*-
"""Binding layer for spec/Numbers.tla and spec/Decimal.tla (C20, and the parameters of C12).

Only projections live here:
  * numbers -> exact decimals (sign, digit sequence, exponent) through repr()/Decimal,
  * printed strings -> abstract observations: a small lexer per presentation (plain "%g" text,
    LaTeX, Unicode, HTML) that undoes exactly the presentation mapping and returns the pieces a
    reader sees (sign, printed digits, decimals, power of ten, significand omitted?, digits in the
    uncertainty parenthesis, unit text after the number).
Whether the observation denotes the input value is decided by TLC (Numbers!NumberOK, UncertOK,
RomanOK); nothing here rounds, compares magnitudes or knows a tolerance.
"""
import re
from decimal import Decimal

# ---------------------------------------------------------------- numbers -> decimals


def dec_of(x):
    """int / float / numpy scalar / 0-d array -> {"neg", "digs", "e"} (normalised: value =
    (-1)^neg * d1.d2...dk * 10^e, zero has no digits).  Floats go through repr(), i.e. the
    shortest decimal that reads back as the same float.  None when not finite."""
    if isinstance(x, bool):
        return None
    if isinstance(x, int):
        d = Decimal(x)
    else:
        try:
            f = float(x)
        except (TypeError, ValueError):
            return None
        if f != f or f in (float("inf"), float("-inf")):
            return None
        d = Decimal(repr(f))
    sign, digits, exponent = d.as_tuple()
    digits = list(digits)
    while digits and digits[0] == 0:
        digits.pop(0)
    if not digits:
        return {"neg": False, "digs": [], "e": 0}
    e = len(digits) - 1 + exponent
    while digits and digits[-1] == 0:
        digits.pop()
    return {"neg": bool(sign), "digs": digits, "e": e}


def dec_text(d):
    """decimal record -> a literal Python/float() reads (used to build inputs from cases)."""
    if not d["digs"]:
        return "0.0"
    s = "".join(str(k) for k in d["digs"])
    return "%s%s.%se%d" % ("-" if d["neg"] else "", s[0], s[1:] or "0", d["e"])


def float_of(d):
    return float(dec_text(d))


# ---------------------------------------------------------------- strings -> observations
_SUP = {u"⁰": "0", u"¹": "1", u"²": "2", u"³": "3", u"⁴": "4", u"⁵": "5", u"⁶": "6", u"⁷": "7",
        u"⁸": "8", u"⁹": "9", u"⁻": "-", u"⁺": "+"}
_SIG = r"(?P<neg>-?)(?P<ip>\d+)(?:\.(?P<fp>\d+))?(?:\((?P<u>\d+)\))?"

# per presentation: (pattern of "times ten to the", pattern of a bare power of ten, separator
# between number and unit)
_KINDS = {
    "plain": (r"e(?P<exp>[+-]?\d+)", None, " "),
    "latex": (r"\\cdot 10\^\{(?P<exp>-?\d+)\}", r"10\^\{(?P<exp>-?\d+)\}", "\\,"),
    "unicode": (u"·10(?P<sup>[⁰¹²³⁴⁵⁶⁷⁸⁹⁻⁺]+)", u"10(?P<sup>[⁰¹²³⁴⁵⁶⁷⁸⁹⁻⁺]+)", " "),
    "html": (r"&sdot;10<sup>(?P<exp>-?\d+)</sup>", r"10<sup>(?P<exp>-?\d+)</sup>", " "),
    # the LaTeX reaction printer separates number and unit by a blank (and wraps the unit in $...$)
    "latex-rxn": (r"\\cdot 10\^\{(?P<exp>-?\d+)\}", r"10\^\{(?P<exp>-?\d+)\}", " "),
}


def _exp_of(m):
    gd = m.groupdict()
    if gd.get("sup") is not None:
        return int("".join(_SUP[c] for c in gd["sup"]))
    return int(gd["exp"])


def lex_embedded(text, kind):
    """Every number written inside a longer text (a printed rate expression), in order.

    The property asks that the magnitudes are shown, not how they are typeset: inside an expression
    a number may be written in the printer's own presentation or in plain e-notation (the LaTeX
    printer prints rate expressions through str()); the longer reading wins.  A '-' inside the
    expression belongs to the expression ("exp(-Ea/(R*T))"), only a leading one is a sign."""
    kinds = [kind] + (["plain"] if kind != "plain" else [])
    out, i = [], 0
    while i < len(text):
        ch = text[i]
        prev = text[i - 1] if i else " "
        start = ch.isdigit() or (i == 0 and ch == "-" and len(text) > 1 and text[1].isdigit())
        if start and not (prev.isalnum() or prev in "._"):
            best = None
            for k in kinds:
                obs = lex_number(text[i:], k, prefix=True)
                if obs["lexed"] and (best is None or obs["consumed"] > best["consumed"]):
                    best = obs
            if best is not None:
                out.append(best)
                i += max(1, best.pop("consumed"))
                continue
        i += 1
    return out


def lex_number(text, kind, prefix=False):
    """Un-present one printed number (optionally followed by a unit).

    -> {"lexed": True, "neg", "digs", "ndec", "omitted", "hasexp", "exp", "hasu", "udigs",
        "len", "unit"}  or {"lexed": False, ...} when the text does not start with a number in
    the given presentation followed (after the separator) by the unit text."""
    times, bare, sep = _KINDS[kind]
    fail = {"lexed": False, "neg": False, "digs": [], "ndec": 0, "omitted": False, "hasexp": False,
            "exp": 0, "hasu": False, "udigs": [], "len": 0, "unit": "", "text": text}
    rest = None
    obs = None
    if bare is not None:
        m = re.match(bare, text)
        if m:
            # a bare power of ten: no significand written
            obs = dict(neg=False, digs=[], ndec=0, omitted=True, hasexp=True, exp=_exp_of(m),
                       hasu=False, udigs=[], len=0)
            rest = text[m.end():]
    if obs is None:
        m = re.match(_SIG, text)
        if not m:
            return fail
        ip, fp, u = m.group("ip"), m.group("fp") or "", m.group("u")
        obs = dict(neg=m.group("neg") == "-", digs=[int(c) for c in ip + fp], ndec=len(fp),
                   omitted=False, hasexp=False, exp=0, hasu=u is not None,
                   udigs=[int(c) for c in (u or "")], len=m.end())
        rest = text[m.end():]
        m2 = re.match(times, rest)
        if m2:
            obs["hasexp"] = True
            obs["exp"] = _exp_of(m2)
            # length of the number in the plain "e" notation (un-presented)
            obs["len"] += 1 + len(str(obs["exp"]))
            rest = rest[m2.end():]
    if prefix:
        obs.update(lexed=True, unit="", consumed=len(text) - len(rest))
        return obs
    if rest == "":
        unit = ""
    elif rest.startswith(sep) and len(rest) > len(sep):
        unit = rest[len(sep):]
    else:
        return fail
    if abs(obs["exp"]) > 100000:
        return fail
    obs["lexed"] = True
    obs["unit"] = unit
    return obs


def lex_roman(text):
    return {"syms": list(text)}
