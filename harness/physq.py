"""Binding helpers shared by the C18 / C19 property modules (no chemistry in here).

* unit names used in the specifications -> `quantities` unit objects (the only place where a
  spec unit name is tied to a library object; a wrong factor in the spec's unit table shows up
  as a disagreement with the code),
* structural projections: quantity -> (float magnitude in a requested unit, dimension vector),
  warnings -> the list of messages of range / neutrality UserWarnings,
* decoders for the exact encodings used in CASE lines: Rational pair, BigNat limbs, BigDec.
"""
import math
import warnings
from fractions import Fraction

import quantities as pq

try:  # the named concentration units of chempy.units (UnitQuantity objects, as a user would write them)
    from chempy.units import default_units as _u
    _M, _mM = _u.molar, _u.millimolar
except Exception:  # pragma: no cover
    _M = pq.UnitQuantity("M", 1e3 * pq.mole / pq.m ** 3, u_symbol="M")
    _mM = pq.UnitQuantity("mM", pq.mole / pq.m ** 3, u_symbol="mM")

UNITS = {
    "mol/kg": pq.mol / pq.kg, "mmol/kg": pq.mmol / pq.kg, "umol/kg": pq.umol / pq.kg,
    "mol/g": pq.mol / pq.g, "mmol/g": pq.mmol / pq.g,
    "nm": pq.nm, "angstrom": pq.angstrom, "m": pq.m, "pm": pq.pm, "1/nm": 1 / pq.nm, "1/m": 1 / pq.m,
    "K": pq.K, "mK": pq.mK,
    "kg/m3": pq.kg / pq.m ** 3, "g/cm3": pq.g / pq.cm ** 3, "g/dm3": pq.g / (pq.m / 10) ** 3,
    "bar": pq.bar, "Pa": pq.Pa, "kPa": pq.kPa, "atm": pq.atm,
    "M": _M, "mM": _mM, "mol/m3": pq.mol / pq.m ** 3,
    "M/atm": _M / pq.atm, "mol/m3/Pa": pq.mol / pq.m ** 3 / pq.Pa,
    "M/bar": _M / pq.bar, "mM/bar": _mM / pq.bar,
    "m2/s": pq.m ** 2 / pq.s, "cm2/s": pq.cm ** 2 / pq.s,
    "cP": pq.cP, "Pa*s": pq.Pa * pq.s,
    "V": pq.V, "mV": pq.mV, "m2/V/s": pq.m ** 2 / pq.V / pq.s,
    "kg/mol": pq.kg / pq.mol, "g/mol": pq.g / pq.mol,
    "1": pq.dimensionless,
}

_BASE = {"meter": "m", "kilogram": "kg", "second": "s", "ampere": "A", "kelvin": "K", "mole": "mol",
         "candela": "cd"}


def frac(q):
    """Rational.tla pair [n, d] -> Fraction."""
    return Fraction(int(q[0]), int(q[1]))


def limbs_to_int(limbs):
    """BigNat.tla little-endian base-10^4 limbs -> int."""
    n = 0
    for i, d in enumerate(limbs):
        n += int(d) * 10 ** (4 * i)
    return n


def int_to_limbs(n):
    """non-negative int -> limbs; anything else is a ValueError (callers turn it into a sentinel)"""
    if isinstance(n, bool) or not isinstance(n, int) or n < 0:
        raise ValueError("not a natural number: %r" % (n,))
    out = []
    while n:
        out.append(n % 10000)
        n //= 10000
    return out


def bigdec(d):
    """BigDec.tla record {s, m (limbs), f (fractional limbs)} -> Fraction."""
    return Fraction(int(d["s"]) * limbs_to_int(d["m"]), 10 ** (4 * int(d["f"])))


def make(value, arg):
    """value (Fraction, in the documented unit) handed over as `value * mul` in unit `arg.unit`."""
    mag = float(value * frac(arg["mul"]))
    if arg["unit"] == "none":
        return mag
    return mag * UNITS[arg["unit"]]


def is_quantity(x):
    return isinstance(x, pq.Quantity)


def dims(x):
    """Dimension vector of a result: sorted [[base, exponent], ...] over SI base units
    (exponents as floats rounded to 1e-9; [] for plain numbers / dimensionless)."""
    if not is_quantity(x):
        return None
    out = []
    for u, e in x.simplified.dimensionality.items():
        name = _BASE.get(u.name, u.name)
        e = float(e)
        if abs(e) > 1e-12:
            out.append([name, round(e, 9)])
    return sorted(out)


def magnitude_in(x, unit_name):
    """float magnitude of x in the named unit (plain numbers are returned as they are).
    Raises ValueError if x is a quantity of an incompatible dimension."""
    if not is_quantity(x):
        return float(x)
    if unit_name in (None, "none", "1"):
        r = x.simplified
    else:
        r = (x / UNITS[unit_name]).simplified
    if dict(r.dimensionality):
        raise ValueError("incompatible dimension: %s is not a %s" % (x.dimensionality, unit_name))
    return float(r.magnitude)


def observe(fn, warn_words):
    """Call fn(); return dict(raised, exc, value, warned, messages).  Only UserWarnings whose text
    contains one of warn_words count (deprecation noise is ignored)."""
    with warnings.catch_warnings(record=True) as rec:
        warnings.simplefilter("always")
        try:
            val = fn()
            err = None
        except Exception as e:  # noqa: observed, not judged here
            val = None
            err = e
    msgs = [str(w.message) for w in rec
            if issubclass(w.category, UserWarning) and not issubclass(w.category, DeprecationWarning)
            and any(k in str(w.message).lower() for k in warn_words)]
    return dict(raised=err is not None, exc=(type(err).__name__ + ": " + str(err)[:120]) if err is not None else None,
                value=val, warned=bool(msgs), messages=msgs)


def close(obs, exp, rtol, atol=0.0):
    """total: anything that is not a finite real number is simply not close"""
    try:
        if obs is None or isinstance(obs, (complex, bool, str)) or math.isnan(obs) or math.isinf(obs):
            return False
        return bool(abs(obs - exp) <= rtol * abs(exp) + atol)
    except Exception:
        return False


INT_MAX = 2 ** 31 - 1


def quantise(val, qexp, bound=INT_MAX):
    """observed float -> (ok, round(val * 10^qexp)).  TOTAL: nan, inf, complex, None, arrays, values
    whose quantised magnitude does not fit `bound` (TLC's JsonDeserialize mangles >= 2^31) give
    (False, 0) - the trace specifications reject a sample whose `ok` flag is false."""
    try:
        if val is None or isinstance(val, (complex, bool, str)):
            return False, 0
        f = float(val)
        if math.isnan(f) or math.isinf(f):
            return False, 0
        y = int(round(Fraction(f) * 10 ** qexp))
        if bound is not None and abs(y) > bound:
            return False, 0
        return True, y
    except Exception:
        return False, 0


def snapshot(obj, depth=0):
    """structural, comparable picture of call arguments (to observe that a call leaves them unchanged);
    total: unknown objects are pictured by their repr"""
    try:
        import numpy as np
        if depth > 6:
            return repr(obj)[:80]
        if is_quantity(obj):
            return ("q", np.asarray(obj.magnitude).ravel().tolist(), str(obj.dimensionality))
        if isinstance(obj, np.ndarray):
            return ("a", obj.ravel().tolist(), str(obj.dtype))
        if isinstance(obj, dict):
            return ("d", [(snapshot(k, depth + 1), snapshot(v, depth + 1)) for k, v in obj.items()])
        if isinstance(obj, (list, tuple)):
            return ("l", [snapshot(x, depth + 1) for x in obj])
        if isinstance(obj, (int, float, str, bool, complex)) or obj is None:
            return obj
        if hasattr(obj, "charge") and hasattr(obj, "name"):
            return ("s", str(obj.name), snapshot(getattr(obj, "charge", None), depth + 1))
        return repr(obj)[:120]
    except Exception as e:  # never a crash
        return "unsnapshotable: %s" % type(e).__name__
