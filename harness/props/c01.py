"""C01 - formula parsing yields exactly the written composition and charge.

spec/Formula.tla (+ Formula_MC slices, FormulaTrace).  Directions:
  spec -> code : every terminal state of each exhaustive slice is a case (text + expected
                 composition/charge or "raises"); replayed into formula_to_composition and
                 Substance.from_formula.
  code -> spec : seeded token sequences beyond the bounds (118 elements, depth 6, 3-digit and
                 decimal counts, 4 hydrate parts) are run through the real parser; TLC replays
                 the token events through the Formula actions and judges the observed result.
"""
import formula_common as fc

LEVEL = "model_checking"
RULE = ("cases = terminal states of the sliced exhaustive Formula_MC configs (TLC) + seeded token "
        "sequences validated by FormulaTrace; distinct = distinct formula texts; non-trivial = at "
        "least two tokens (not a bare element symbol)")
ASSUMPTIONS = [
    "spec/Periodic.tla symbol table (frozen, reviewed by hand) is the reference for element symbols",
    "ASCII '~' in spec text stands for U+00B7",
    "floats returned for decimal counts are encoded as rationals p/q (q <= 10^6, rel. residual <= 1e-12)",
]

QUICK = ["nest_q", "counts_q", "hyd_q", "decor_q", "prefix2_q", "symbols", "symsuf", "faults_q", "digits", "near"]
THOROUGH = ["nest_t", "counts_t", "hyd_t", "decor_t", "prefix2_t", "symbols", "symsuf", "faults_t", "digits", "near"]
ACTIONS = {
    "nest_q": ["GenAtom", "GenOpen", "GenClose", "Finish"],
    "hyd_q": ["GenHydrate", "GenCharge"],
    "decor_q": ["GenPrefix", "GenPrime", "GenCharge", "GenSuffix"],
    "prefix2_q": ["GenPrefix", "GenCharge", "GenSuffix"],
    "faults_q": ["GenBadSymbol", "GenStray", "GenMismatch", "GenUnclosed", "GenContradictory"],
}


def _symbols():
    from chempy.util.periodic import symbols
    return symbols


def _observe_both(txt):
    from chempy.util.parsing import formula_to_composition
    from chempy import Substance
    t = fc.code_text(txt)
    o1 = fc.observe(formula_to_composition, t)
    o2 = fc.observe(lambda s: Substance.from_formula(s).composition, t)
    return o1, o2


def _agrees(obs, exp):
    if "unencodable" in obs:
        return False
    if exp["raise"]:
        return obs["raised"]
    if obs["raised"]:
        return False
    return obs["comp"] == exp["comp"] and obs["q"] == exp["q"]


def replay_case(case):
    o1, o2 = _observe_both(case["in"]["txt"])
    bad = []
    # history: the (memoised, stateful) parser must give the same answer when asked again, also with
    # the documented defaults passed explicitly
    from chempy.util.parsing import formula_to_composition, _latex_mapping
    t = fc.code_text(case["in"]["txt"])
    try:    # the caller may do what it likes with a returned mapping: it must not affect later parses
        mine = formula_to_composition(t)
        for k in list(mine):
            mine[k] += 1
        mine[0] = mine.get(0, 0) + 3
        mine[999] = 1
    except Exception:
        pass
    again = fc.observe(lambda s: formula_to_composition(s, prefixes=list(_latex_mapping.keys()),
                                                        suffixes=("(s)", "(l)", "(g)", "(aq)")), t)
    if {k: v for k, v in again.items() if k != "exc"} != {k: v for k, v in o1.items() if k != "exc"}:
        bad.append(("formula_to_composition[second call, explicit defaults]", again))
    if not _agrees(o1, case["exp"]):
        bad.append(("formula_to_composition", o1))
    if not _agrees(o2, case["exp"]):
        bad.append(("Substance.from_formula", o2))
    # configuration: the caller passes the ignore lists explicitly - exactly the prefixes and the suffix this formula
    # carries (as list / tuple)
    exp = case["exp"]
    if not exp["raise"]:
        pl, sl = list(exp["prefix_list"]), list(exp["suffix_list"])
        for what, mk in (("formula_to_composition[own lists]",
                          lambda s: formula_to_composition(s, prefixes=pl, suffixes=tuple(sl))),
                         ("formula_to_composition[own lists, generators]",
                          lambda s: formula_to_composition(s, prefixes=tuple(pl), suffixes=list(sl)))):
            o4 = fc.observe(mk, t)
            if not _agrees(o4, exp):
                bad.append((what, o4))
    # the phase-aware constructor reads the same composition, whether the phase index comes from the suffix
    # or is given explicitly
    from chempy import Species
    for what, mk in (("Species.from_formula", lambda s: Species.from_formula(s).composition),
                     ("Species.from_formula[phase_idx=0]", lambda s: Species.from_formula(s, phase_idx=0).composition)):
        o3 = fc.observe(mk, t)
        if not _agrees(o3, case["exp"]):
            bad.append((what, o3))
    return bad


def _expected_view(exp):
    return {"raise": True} if exp["raise"] else {"raise": False, "comp": exp["comp"], "q": exp["q"]}


def _run_trace(toks):
    from chempy.util.parsing import formula_to_composition
    txt = fc.tokens_text(toks, _symbols())
    o = fc.observe(formula_to_composition, fc.code_text(txt))
    ev = {"k": "result", "txt": txt, "raised": o["raised"],
          "comp": o.get("comp", []), "q": o.get("q", 0), "shown": [], "mass9": []}
    if "unencodable" in o:
        return None, o
    return [t for t in toks] + [ev], o


def run(ctx):
    import chempy  # noqa
    slices = QUICK if ctx.quick else THOROUGH
    per_slice = 2500 if ctx.quick else 250000
    for sl in slices + ["sim"]:
        if sl == "sim":   # deep random behaviours of the full-alphabet grammar (tlc -simulate)
            res = ctx.tlc("Formula_MC", "Formula_MC_sim.cfg", simulate="num=%d" % (150 if ctx.quick else 4000),
                          depth=30, seed=ctx.seed + 7, workers=4, require_cases=100, timeout=1500)
            uniq = {}
            for c in res.cases:
                uniq.setdefault(c["in"]["txt"], c)
            res.cases = list(uniq.values())
        else:
            res = ctx.tlc("Formula_MC", "Formula_MC_%s.cfg" % sl, require_actions=ACTIONS.get(sl, ()),
                          require_cases=100, timeout=1500)
        cases = res.cases
        sel = ctx.pick(cases, per_slice, always=lambda c: c["cls"].startswith("fault") and ctx.quick and False)
        res.cases = cases = None          # only the sample is kept in memory
        outs = ctx.pmap(replay_case, sel)
        ctx.cases_replayed += len(sel)
        for case, bad in zip(sel, outs):
            txt = case["in"]["txt"]
            ctx.ran(txt, nontrivial=case["exp"].get("ntoks", 2) >= 2 or case["exp"]["raise"])
            for fn, obs in bad:
                ctx.violation({"fn": fn, "txt": txt, "cls": case["cls"]},
                              {"direction": "spec->code", "case": case, "observed": obs,
                               "expected": _expected_view(case["exp"]), "tlc_cfg": "Formula_MC_%s.cfg" % sl})
        if sel:
            ctx.sample({"slice": sl, "txt": sel[0]["in"]["txt"], "exp": _expected_view(sel[0]["exp"])}, cap=8)
    # TLC enumerates each slice completely; both tiers replay a stratified sample of the cases (2 500 / 250 000 per slice)
    ctx.exhaustive = not ctx.quick

    # ---- code -> spec: seeded generator beyond the bounds, judged by TLC
    n = 3000 if ctx.quick else 40000
    g = fc.Gen(ctx.rng, max_depth=4 if ctx.quick else 6)
    seqs = []
    for i in range(n):
        seqs.append(g.illformed() if i % 5 == 4 else g.wellformed())
    outs = ctx.pmap(_run_trace, seqs)
    traces, keep = [], []
    for toks, (tr, o) in zip(seqs, outs):
        if tr is None:
            ctx.skip("unencodable-observation")
            continue
        traces.append(tr)
        keep.append(o)
    verdicts = ctx.validate_traces("FormulaTrace", "FormulaTrace.cfg", traces)
    for tr, o, (v, pos, clause) in zip(traces, keep, verdicts):
        txt = tr[-1]["txt"]
        ctx.ran(txt, nontrivial=len(tr) > 3)
        if v == "accept":
            continue
        if clause.startswith("step:") or clause in ("text", "notdone", "no-result-event"):
            # the generator produced something the spec's actions do not accept: harness defect
            raise __import__("core").MachineryFailure("generated trace outside the model: %s at %d: %r" % (clause, pos, txt))
        ctx.violation({"fn": "formula_to_composition", "txt": txt, "clause": clause},
                      {"direction": "code->spec", "trace": tr, "observed": o,
                       "verdict": {"verdict": v, "pos": pos, "clause": clause}, "tlc_cfg": "FormulaTrace.cfg"})
    if traces:
        ctx.sample({"trace": traces[0]}, cap=8)
    _binding_selftest(ctx, [t for t, (v, _, _) in zip(traces, verdicts) if v == "accept"])

    # ---- code -> spec: every formula the repository's own tests parse, judged by the full spec
    _suite_stage(ctx)


def _binding_selftest(ctx, accepted):
    """Demonstrate the binding: corrupt one recorded field of accepted traces and require TLC to
    reject each of them with the matching clause (a trace spec that constrained nothing would not)."""
    import copy
    import core
    bad, want = [], []
    for tr in accepted:
        ev = tr[-1]
        if ev["raised"]:
            c = copy.deepcopy(tr)
            c[-1].update(raised=False, comp=[[1, [1, 1]]], q=0)
            bad.append(c)
            want.append("missing-raise")
        elif ev["comp"]:
            c = copy.deepcopy(tr)
            c[-1]["comp"][0][1][0] += c[-1]["comp"][0][1][1]      # one more atom of the first element
            bad.append(c)
            want.append("comp")
            c = copy.deepcopy(tr)
            c[-1]["q"] += 1
            bad.append(c)
            want.append("charge")
        if len(bad) >= 60:
            break
    if not bad:
        raise core.MachineryFailure("binding self-test: no accepted trace to corrupt")
    got = ctx.validate_traces("FormulaTrace", "FormulaTrace.cfg", bad, count=False)
    for (v, pos, clause), w in zip(got, want):
        if v != "reject" or clause != w:
            raise core.MachineryFailure("binding self-test: corrupted trace gave %s/%s, expected reject/%s" % (v, clause, w))
    ctx.counters["selftest_corrupted_traces_rejected"] += len(bad)


SUITE_TESTS = ["chempy/util/tests/test_parsing.py", "chempy/tests/test_chemistry.py",
               "chempy/tests/test_reactionsystem.py"]


def suite_traces(ctx, targets, want_fn):
    """Calls the repository's own tests make -> (traces, records); strings the independent lexer
    cannot place in the grammar are counted out-of-model."""
    import suite
    recs, summ = suite.record_suite(SUITE_TESTS, targets)
    ctx.notes.append({"suite": summ})
    seen, out = set(), []
    for r in recs:
        if r.get("fn") != want_fn or r.get("not_observed"):
            continue
        a = r.get("args")
        if not (isinstance(a, list) and len(a) == 1 and isinstance(a[0], str)) or r.get("kwargs", {}).get("dict"):
            ctx.skip("suite-call-with-options")
            continue
        if a[0] in seen:
            continue
        seen.add(a[0])
        toks = fc.lex(a[0], _symbols())
        if toks is None:
            ctx.skip("suite-string-outside-modelled-notation")
            continue
        out.append((a[0], toks, r))
    return out


def _suite_stage(ctx):
    items = suite_traces(ctx, ["chempy.util.parsing:formula_to_composition"],
                         "chempy.util.parsing:formula_to_composition")
    traces, meta = [], []
    for text, toks, r in items:
        if r["ok"]:
            d = {k: v for k, v in r["result"].get("dict", [])} if isinstance(r["result"], dict) else None
            if d is None:
                ctx.skip("suite-unprojectable-result")
                continue
            o = fc.project_composition(d)
            if "unencodable" in o:
                ctx.skip("suite-unencodable-result")
                continue
            o["raised"] = False
        else:
            o = {"raised": True}
        ev = {"k": "result", "txt": text.replace(fc.MIDDOT, "~"), "raised": o["raised"],
              "comp": o.get("comp", []), "q": o.get("q", 0), "shown": [], "mass9": []}
        traces.append(toks + [ev])
        meta.append((text, o))
    if not traces:
        return
    verdicts = ctx.validate_traces("FormulaTrace", "FormulaTrace.cfg", traces)
    for tr, (text, o), (v, pos, clause) in zip(traces, meta, verdicts):
        if v == "accept":
            ctx.ran("suite:" + text, nontrivial=len(tr) > 3)
            ctx.counters["suite_calls_judged"] += 1
            continue
        if clause.startswith("step:") or clause in ("text", "notdone", "no-result-event"):
            ctx.skip("suite-string-outside-modelled-notation")
            ctx.traces_validated -= 1
            continue
        ctx.violation({"fn": "formula_to_composition", "txt": text, "clause": clause, "source": "repo-suite"},
                      {"direction": "code->spec", "trace": tr, "observed": o,
                       "verdict": {"verdict": v, "pos": pos, "clause": clause}, "tlc_cfg": "FormulaTrace.cfg"})
    ctx.sample({"suite_trace": traces[0]}, cap=8)


def replay(ctx, rec):
    if rec.get("direction") == "spec->code":
        bad = replay_case(rec["case"])
        for fn, obs in bad:
            ctx.violation(rec["key"], {"observed": obs, "expected": _expected_view(rec["case"]["exp"])})
    else:
        toks = rec["trace"][:-1]
        tr, o = _run_trace(toks)
        v, pos, clause = ctx.validate_traces("FormulaTrace", "FormulaTrace.cfg", [tr])[0]
        if v != "accept":
            ctx.violation(rec["key"], {"observed": o, "verdict": {"verdict": v, "pos": pos, "clause": clause}})
