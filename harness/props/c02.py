"""C02 - balancing returns only balanced, positive, canonical coefficients or refuses.

spec/Balance.tla (+ LinAlg, Balance_MC slices, BalanceTrace).  Directions:
  spec -> code : every canonical problem of each exhaustive slice (signed composition matrix x
                 mode [x duplicate pairs]) is classified by TLC (ray+ / ray- / ray0 / multi /
                 infeasible / undecided) and emitted with its admissible outcomes; the problem is
                 rebuilt as Substance objects and balance_stoichiometry is called.  Finite
                 admissible sets ("exact", "oneof", "raise") are compared structurally here; every
                 disagreement, every "judge" case (predicate-valued admissible set) and a sample
                 of the agreeing ones is additionally judged by TLC (BalanceTrace), and the two
                 formulations must agree.
  code -> spec : seeded matrices beyond the bounds (<= 6 species x 5 keys, entries <= 12), many-species
                 finely resolved fractional compositions (scale 10^4 / 10^5, judged on the true integer
                 matrix; unclassified beyond the 32-bit elimination range), many-species
                 heavily under-determined problems (8..10 species, 3..4 keys) whose mode-None answer is
                 judged against a planted witness and its own answers for other presentations, many-species
                 single-ray problems (11..14 species, positive solution known by construction and
                 verified by TLC as a Witness) and textbook reactions given as formulas (three of
                 them with 11..13 species) are run through the real code; TLC replays
                 the problem through the Balance actions, classifies it and judges the outcome.
"""
import json
import math

LEVEL = "model_checking"
RULE = ("cases = (canonical signed composition matrix, mode[, duplicates]) enumerated and classified "
        "by TLC + seeded/textbook problems judged by BalanceTrace; distinct = distinct composition "
        "matrices (side split included); non-trivial = at least 3 species")
ASSUMPTIONS = [
    "problems whose class TLC cannot decide inside its search boxes (free coordinates <= 12, "
    "certificate entries <= 3) are emitted but never judged (counted as skipped: undecided)",
    "minimal coefficient sum is decided by exhaustive bounded search when it needs <= 600 "
    "free-coordinate assignments, otherwise everything but minimality is judged (skipped: nomin)",
    "problems whose Hadamard minor bound (row-primitive matrix) exceeds 32767 are not classified by TLC "
    "(32-bit integers): the soundness clauses balanced/positive/integer/coprime/keys are still judged "
    "(exact CRT zero test), completeness (must it answer / refuse, minimality) is not",
    "a call that neither returns nor raises within 60 s (CBC on an unbounded integer program) is not an "
    "observation: skipped and counted (call-timeout), its solver process is killed",
    "a refusal (ValueError) is admissible in modes True/False whenever the null space has dimension "
    ">= 2: the statement only demands an answer for single-ray problems and for mode None",
]

QUICK = ["tiny_q", "s3_q", "s4k2_q", "s4k3_q", "chg_q", "scale_q", "fine4_q", "fine5_q", "forms_q", "loose_q",
         "dupl_q", "dupl2_q"]
THOROUGH = ["tiny_q", "s3_q", "s3_t", "s4k2_q", "s4k3_q", "s4k3_t", "s5_t", "chg_q", "chg_t", "scale_q",
            "fine4_q", "fine5_q", "forms_q", "forms_t", "loose_q", "loose_t",
            "dupl_q", "dupl2_q", "dupl_t"]
ACTIONS = {
    "tiny_q": ["GenShape", "GenSetEntry", "Classify", "GenMode", "ChooseForm", "GenAccept"],
    "dupl_q": ["GenDupl"],
}
# replay budget (problems x modes) per slice: None = everything
QUICK_PER_SLICE = 400
QUICK_PER_SLICE_SPECIAL = {"fine4_q": 200}
THOROUGH_PER_SLICE = {"forms_q": 4000, "forms_t": 6000, "loose_q": 3000, "loose_t": 4000, "fine4_q": 3000, "s3_q": 6000, "s3_t": 12000,
                      "s4k3_t": 16000, "chg_t": 12000, "s5_t": 6000, "dupl_t": 6000}

# atomic number standing for row k (the charge row is key 0)
ROW_KEYS = [1, 6, 8, 7, 16, 17, 11, 19, 20, 26, 29, 30, 12, 13, 15, 9, 35, 53, 25, 24]
MODES = {"True": True, "False": False, "None": None}
INT_LIMIT = 2 ** 31 - 1
FN = "balance_stoichiometry"


# ----------------------------------------------------------------------------- building inputs
DEFAULT_FORM = {"set": True, "cont": "list", "naming": "plain", "subst": "map", "psym": "default",
                "num": "int", "calls": 1, "modearg": "plain", "allow": False, "keys": "plain",
                "names": "same", "prior": "same"}


def _form(inp):
    return inp.get("form") or DEFAULT_FORM


def _names(inp):
    """species names; 'reversed': the sorted order of the names is the reverse of the order given
    (unpadded numbers, so that e.g. R10 sorts before R2)"""
    nr, np_ = inp["nr"], inp["np"]
    rev = _form(inp)["naming"] == "reversed"
    dup = {tuple(p)[1]: tuple(p)[0] for p in inp["dupl"]}
    rname = {i: "R%d" % ((nr + 1 - i) if rev else i) for i in range(1, nr + 1)}
    reac = [rname[i] for i in range(1, nr + 1)]
    prod = [rname[dup[j]] if j in dup else ("P%d" % ((np_ + 1 - (j - nr)) if rev else (j - nr)))
            for j in range(nr + 1, nr + np_ + 1)]
    return reac, prod


def _amount(v, scale, num):
    """the amount entry/scale in the number type the form prescribes"""
    if num in ("float", "explicit0f"):
        return float(v) / scale
    if num == "numpy":
        import numpy
        return numpy.int64(v) if scale == 1 else numpy.float64(v) / scale
    if num == "sympy":
        import sympy
        return sympy.Rational(v, scale)
    if num == "fraction":
        import fractions
        return fractions.Fraction(v, scale)
    return v if scale == 1 else v / scale


def _composition(inp, j, num="int", keys="plain"):
    comp = {}
    for k in range(inp["nk"]):
        v = inp["comp"][k][j]
        if v == 0 and num not in ("explicit0", "explicit0f"):
            continue
        key = 0 if (k + 1) == inp["crow"] else (ROW_KEYS[inp["nk"] - 1 - k] if keys == "reversed" else ROW_KEYS[k])
        comp[key] = _amount(v, inp["scale"], num)
    return comp


def build(inp, shift=0):
    """name -> Substance; shift > 0: the compositions are rotated among the species (another problem on
    the same keys, used for the 'prior = other' history)"""
    from chempy import Substance
    f = _form(inp)
    reac, prod = _names(inp)
    names = reac + prod
    subst = {}
    for j, name in enumerate(names):
        c = _composition(inp, (j + shift) % len(names), f["num"], f.get("keys", "plain"))
        # alias keys: the Substance's own name differs from the key it is held under
        subst[name] = Substance(("subst-%d" % (j % 3)) if f.get("names") == "alias" else name, composition=c)
    return reac, prod, subst


class _Factory(object):
    """substance_factory whose table can be exchanged between calls"""
    def __init__(self, table):
        self.table = table

    def __call__(self, key):
        return self.table[key]


def call_plan(inp):
    """the call(s) in the form the case prescribes: (names, make_args, before_last) where make_args()
    gives fresh (reactants, products) containers backed by the SAME objects where the form says so and
    before_last() turns the state used by the earlier call into the one of the observed call"""
    import collections
    import sympy
    from chempy import Substance
    f = _form(inp)
    reac, prod, subst = build(inp)
    other = f.get("prior") == "other" and f["calls"] > 1
    first = build(inp, shift=1)[2] if other else subst
    table = dict(first)                     # the one mapping object handed to every call
    if f["subst"] == "superset":            # unrelated extra entries in the mapping
        table["Au_extra"] = Substance("Au_extra", composition={79: 1})
        table["e_extra"] = Substance("e_extra", composition={0: -1})
    factory = _Factory(table)
    kw = {}
    if f["subst"] in ("map", "superset"):
        kw["substances"] = table
    elif f["subst"] == "str":
        kw["substances"] = " ".join(collections.OrderedDict.fromkeys(reac + prod))
        kw["substance_factory"] = factory
    else:
        kw["substance_factory"] = factory
    if f["psym"] == "user_int":
        kw["parametric_symbols"] = sympy.numbered_symbols("q", start=3, integer=True, positive=True)
    elif f["psym"] == "user_plain":
        kw["parametric_symbols"] = sympy.numbered_symbols("w")
    if f["modearg"] == "one" and inp["mode"] == "None":
        kw["underdetermined"] = 1
    elif f["modearg"] == "zero" and inp["mode"] == "False":
        kw["underdetermined"] = 0
    else:
        kw["underdetermined"] = MODES[inp["mode"]]
    if f["allow"] or inp["dupl"]:
        kw["allow_duplicates"] = True
    rd, pd = collections.OrderedDict.fromkeys(reac), collections.OrderedDict.fromkeys(prod)
    cont = {"list": list, "tuple": tuple, "set": set, "frozenset": frozenset,
            "dict": collections.OrderedDict.fromkeys}.get(f["cont"])
    if f["cont"] == "keysview":
        fixed = (rd.keys(), pd.keys())
    elif f["cont"] == "generator":
        fixed = None
    else:
        fixed = (cont(reac), cont(prod))

    def make_args():
        if fixed is None:                   # one-shot iterators (a single call, see FormFits)
            return (k for k in reac), (k for k in prod)
        return fixed

    def before_last():
        if other:                           # edit the mapping in place / give the factory another table
            for k, v in subst.items():
                table[k] = v
    return reac, prod, make_args, before_last, kw


# ----------------------------------------------------------------------------- projection
def _q(v):
    """number -> [n, d] (d > 0) or None when it is not an exact rational"""
    import sympy
    import numbers
    if isinstance(v, bool):
        return None
    if isinstance(v, numbers.Integral):     # int, numpy integers
        return [int(v), 1]
    if isinstance(v, float):
        return [int(v), 1] if v == v and abs(v) != float("inf") and v.is_integer() else None
    if isinstance(v, sympy.Rational):
        return [int(v.p), int(v.q)]
    return None


def _encodable(pairs):
    return all(abs(n) <= INT_LIMIT and 0 < d <= INT_LIMIT for n, d in pairs) \
        and sum(abs(n) for n, d in pairs) <= INT_LIMIT


def project(result, reac, prod):
    """total: whatever the code returned becomes an observation; anything the projection cannot place
    in the vocabulary is the sentinel kind "other", which no admissible outcome equals"""
    n = len(reac) + len(prod)
    try:
        return _project(result, reac, prod)
    except _CallTimeout:
        raise
    except Exception as e:
        return {"k": "other", "exc": "", "x": [[0, 1]] * n, "present": [False] * n, "extra": 0,
                "x0": [[0, 1]] * n, "vs": [], "sig": "other:projection-%s" % type(e).__name__}


def _project(result, reac, prod):
    """(reactant dict, product dict) -> abstract observation (see Balance.tla, 'Observed outcomes')"""
    import sympy
    n = len(reac) + len(prod)
    zero = [[0, 1]] * n
    obs = {"k": "num", "exc": "", "x": list(zero), "present": [False] * n, "extra": 0,
           "x0": list(zero), "vs": []}
    try:
        rdict, pdict = result
        items = [(reac.index(k) if k in reac else None, v) for k, v in rdict.items()]
        items += [(len(reac) + prod.index(k) if k in prod else None, v) for k, v in pdict.items()]
    except Exception:
        return dict(obs, k="other", sig="other:shape")
    vals = {}
    for j, v in items:
        if j is None:
            obs["extra"] += 1
        else:
            obs["present"][j] = True
            vals[j] = v
    syms = set()
    for v in vals.values():
        if isinstance(v, sympy.Basic):
            syms |= v.free_symbols
    if not syms:
        for j, v in vals.items():
            qv = _q(v)
            if qv is None:
                return dict(obs, k="other", sig="other:%s" % type(v).__name__)
            obs["x"][j] = qv
        if not _encodable(obs["x"]):
            return dict(obs, k="unencodable", sig="unencodable")
        ns = [obs["x"][j][0] for j in vals]
        obs["sig"] = "neg" if any(v < 0 for v in ns) else ("zero" if any(v == 0 for v in ns) else "pos")
        return obs
    syms = sorted(syms, key=str)
    vs = [list(zero) for _ in syms]
    for j, v in vals.items():
        try:
            p = sympy.Poly(sympy.sympify(v), *syms)
        except Exception:
            return dict(obs, k="other", sig="other:nonpoly")
        if p.total_degree() > 1:
            return dict(obs, k="other", sig="other:nonlinear")
        c0 = _q(p.coeff_monomial(1))
        cs = [_q(p.coeff_monomial(s)) for s in syms]
        if c0 is None or any(c is None for c in cs):
            return dict(obs, k="other", sig="other:coeff")
        obs["x0"][j] = c0
        for i, c in enumerate(cs):
            vs[i][j] = c
    obs.update(k="sym", vs=vs, sig="sym")
    if not _encodable(obs["x0"]) or not all(_encodable(v) for v in vs):
        return dict(obs, k="unencodable", sig="unencodable")
    return obs


class _CallTimeout(BaseException):
    pass


def _alarm(signum, frame):
    raise _CallTimeout()


CALL_TIMEOUT_S = 60


def _kill_children():
    """the CBC solver runs as a child process; an interrupted call must not leave it running"""
    import os
    import signal
    me = str(os.getpid())
    for pid in os.listdir("/proc"):
        if not pid.isdigit():
            continue
        try:
            with open("/proc/%s/stat" % pid) as fh:
                fields = fh.read().rsplit(")", 1)[1].split()
            if fields[1] == me:
                os.kill(int(pid), signal.SIGKILL)
                os.waitpid(int(pid), 0)
        except (OSError, IndexError):
            pass


def _guarded(fn, limit=None):
    """run fn() under a wall-clock alarm: a call that neither returns nor raises within the limit is
    not an observation (skipped and counted, never judged)"""
    import signal
    old = signal.signal(signal.SIGALRM, _alarm)
    signal.setitimer(signal.ITIMER_REAL, limit or CALL_TIMEOUT_S)
    try:
        return fn()
    except _CallTimeout:
        _kill_children()
        raise
    finally:
        signal.setitimer(signal.ITIMER_REAL, 0)
        signal.signal(signal.SIGALRM, old)


_LIMITED = []


def _limit_memory():
    """total observation: a call that allocates without bound ends as a MemoryError observation, not as
    an OOM-killed worker (address-space limit per process, inherited by the solver subprocess)"""
    if _LIMITED:
        return
    _LIMITED.append(True)
    try:
        import multiprocessing
        import resource
        if multiprocessing.current_process().name == "MainProcess":
            return          # the parent also starts the TLC JVMs: only pool workers are limited
        soft, hard = resource.getrlimit(resource.RLIMIT_AS)
        cap = 12 * 2 ** 30
        if soft == resource.RLIM_INFINITY or soft > cap:
            resource.setrlimit(resource.RLIMIT_AS, (cap, hard))
    except Exception:
        pass


def observe(inp):
    """call the real code on the abstract problem; never raises"""
    from chempy import balance_stoichiometry
    _limit_memory()
    reac, prod, make_args, before_last, kw = call_plan(inp)

    def calls():
        # the same argument objects (containers, mapping, factory, symbol generator) serve every call;
        # what an earlier call returned is clobbered; the observation is the outcome of the last call
        for _ in range(_form(inp)["calls"] - 1):
            try:
                early = balance_stoichiometry(*make_args(), **kw)
                for d in early:
                    for k in list(d):
                        d[k] = 0
            except Exception:
                pass
        before_last()
        return balance_stoichiometry(*make_args(), **kw)
    try:
        res = _guarded(calls, inp.get("timeout") or (3 if inp["scale"] >= 10 ** 4 else None))
    except _CallTimeout:
        return {"k": "unencodable", "sig": "call-timeout"}
    except BaseException as e:  # the class name is the observation (also SystemExit, MemoryError ...)
        n = len(reac) + len(prod)
        return {"k": "raise", "exc": type(e).__name__, "x": [[0, 1]] * n, "present": [False] * n,
                "extra": 0, "x0": [[0, 1]] * n, "vs": [], "sig": "raise:" + type(e).__name__}
    return project(res, reac, prod)


def observe_case(case):
    return observe(case["in"])


# ----------------------------------------------------------------------------- traces
def trace_of(inp, obs):
    ev = [{"ev": "Shape", "nr": inp["nr"], "np": inp["np"], "nk": inp["nk"], "crow": inp["crow"],
           "scale": inp["scale"]}]
    n = inp["nr"] + inp["np"]
    for j in range(n):
        for k in range(inp["nk"]):
            ev.append({"ev": "SetEntry", "k": k + 1, "j": j + 1, "v": inp["comp"][k][j]})
    # beyond the range of exact 32-bit elimination the problem is not classified: TLC then judges
    # the soundness clauses only (Balance!Unclassified)
    ev.append({"ev": "Unclassified" if inp.get("unclassified") else "Classify"})
    if inp.get("witness"):      # a positive balancing vector known by construction; TLC verifies it
        ev.append({"ev": "Witness", "x": list(inp["witness"])})
    if inp.get("peer"):         # the code's own answer for another presentation of the same problem
        ev.append({"ev": "Peer", "x": list(inp["peer"])})
    if inp["dupl"]:
        ev.append({"ev": "Dupl", "pairs": [list(p) for p in inp["dupl"]]})
    ev.append({"ev": "Mode", "m": inp["mode"]})
    if inp.get("form"):
        ev.append({"ev": "Form", "f": inp["form"]})
    o = {k: obs[k] for k in ("k", "exc", "x", "present", "extra", "x0", "vs")}
    ev.append({"ev": "Result", "obs": o})
    return ev


def hadamard_ok(comp):
    """encoder guard: every minor of the matrix is bounded by H; the elimination in LinAlg needs
    H^2 < 2^30 (32-bit TLC integers)"""
    def prim(r):
        g = 0
        for v in r:
            g = math.gcd(g, abs(v))
        return [v // g for v in r] if g > 1 else r
    comp = [prim(r) for r in comp]      # LinAlg!Reduce makes the rows primitive first
    rows = [math.sqrt(sum(v * v for v in r)) for r in comp]
    cols = [math.sqrt(sum(r[j] * r[j] for r in comp)) for j in range(len(comp[0]))]
    hr = 1.0
    for v in rows:
        hr *= max(1.0, v)
    hc = 1.0
    for v in sorted(cols, reverse=True)[:len(comp)]:
        hc *= max(1.0, v)
    return min(hr, hc) < 32767


FORM_KEYS = ("cont", "naming", "subst", "psym", "num", "calls", "modearg", "allow", "keys", "names", "prior")


def rand_form(rng, inp):
    """a call form for a seeded problem (validated by Balance!ChooseForm in the trace)"""
    f = _rand_form(rng, inp)
    if f["cont"] == "generator":
        f["calls"] = 1
    return f


def _rand_form(rng, inp):
    return {"set": True,
            "cont": rng.choice(["list", "tuple", "set", "frozenset", "dict", "keysview", "generator"]),
            "naming": rng.choice(["plain", "reversed"]),
            "subst": rng.choice(["map", "superset", "str", "none"]),
            "psym": rng.choice(["default", "default", "user_int", "user_plain"]),
            "num": rng.choice(["int", "int", "float", "explicit0", "explicit0f", "numpy", "sympy", "fraction"]),
            "calls": rng.choice([1, 1, 2]),
            "modearg": ("one" if inp["mode"] == "None" and not inp["dupl"] and rng.random() < 0.3 else
                        "zero" if inp["mode"] == "False" and rng.random() < 0.3 else "plain"),
            "allow": bool(inp["dupl"]) or rng.random() < 0.3,
            "keys": rng.choice(["plain", "reversed"]),
            "names": rng.choice(["same", "alias"]),
            "prior": rng.choice(["same", "other"])}


def problem_text(inp):
    if "formulas" in inp:
        return "%s -> %s" % (" + ".join(inp["formulas"][0]), " + ".join(inp["formulas"][1]))
    reac, prod = _names(inp)
    def sp(j):
        c = _composition(inp, j, _form(inp)["num"])
        return "{" + ",".join("%s:%s" % (k, c[k]) for k in sorted(c)) + "}"
    n = inp["nr"]
    return "%s -> %s" % (" + ".join(sp(j) for j in range(n)),
                         " + ".join(sp(j) for j in range(n, n + inp["np"]))) + \
        (" dupl=%s" % json.dumps(inp["dupl"]) if inp["dupl"] else "") + \
        (" form=%s" % ",".join("%s" % _form(inp)[k] for k in FORM_KEYS) if inp.get("form") else "")


def matrix_id(inp):
    return json.dumps([inp["nr"], inp["np"], inp["crow"], inp["scale"], inp["comp"], inp["dupl"]])


# ----------------------------------------------------------------------------- comparison
def direct_agrees(exp, obs):
    """structural comparison with a finite admissible set; None when the set is a predicate"""
    kind = exp["kind"]
    if kind == "raise":
        return obs["k"] == "raise" and obs["exc"] == exp["exc"]
    if kind in ("exact", "oneof"):
        if obs["k"] != "num" or obs["extra"] != 0 or not all(obs["present"]):
            return False
        return any(obs["x"] == [[v, 1] for v in s] for s in exp["sols"])
    return None


def unused_key(inp):
    """structural signature: "row" if some composition key has amount 0 in every species, "dupl" if it
    has outside the declared duplicate columns, else "no" """
    dcols = set(c - 1 for p in inp["dupl"] for c in p)
    if any(all(v == 0 for v in row) for row in inp["comp"]):
        return "row"
    if any(all(v == 0 for j, v in enumerate(row) if j not in dcols) for row in inp["comp"]):
        return "dupl"
    return "no"


def _key(inp, cls, clause, obs):
    return {"fn": FN, "mode": inp["mode"], "cls": cls, "clause": clause, "sig": obs.get("sig", ""),
            "scale": inp["scale"], "num": _form(inp)["num"], "cont": _form(inp)["cont"], "unused_key": unused_key(inp),
            "problem": problem_text(inp)}


def _split(clause):
    c, _, cls = clause.partition("@")
    return c, cls


def judge_batch(ctx, items):
    """items: list of (inp, obs, direct, direction, cfg) with direct in (True, False, None).  TLC
    judges each observation in one batch; the direct comparison, where there is one, must agree
    with TLC's verdict.  Returns the number of code->spec traces judged."""
    import core
    items = [it for it in items if it[1]["k"] != "unencodable"]
    traces = [trace_of(inp, obs) for inp, obs, _, _, _ in items]
    verdicts = ctx.validate_traces("BalanceTrace", "BalanceTrace.cfg", traces, count=False)
    for (inp, obs, direct, direction, cfg_name), tr, (v, pos, clause) in zip(items, traces, verdicts):
        c, cls = _split(clause)
        if clause.startswith("step:") or clause in ("no-result-event", "notready", "obs-shape"):
            raise core.MachineryFailure("trace outside the model: %s at %d: %s" % (clause, pos, problem_text(inp)))
        if v == "accept":
            if c in ("undecided", "nomin"):
                if direct is False:
                    # the exhaustive case (complete admissible set) excludes the observation; the
                    # trace-side search box was too small to confirm or refute it: the case stands
                    ctx.violation(_key(inp, cls, "not-in-admissible-set", obs),
                                  {"direction": direction, "case": {"in": inp}, "trace": tr, "observed": obs,
                                   "verdict": {"verdict": v, "pos": pos, "clause": clause}, "tlc_cfg": cfg_name})
                    continue
                ctx.skip(c)
            if direct is False:
                raise core.MachineryFailure("TLC accepts what the generated case excludes: %s mode=%s obs=%s"
                                            % (problem_text(inp), inp["mode"], obs.get("sig")))
            continue
        if direct is True:
            raise core.MachineryFailure("TLC rejects (%s) what the generated case admits: %s mode=%s"
                                        % (clause, problem_text(inp), inp["mode"]))
        ctx.violation(_key(inp, cls, c, obs),
                      {"direction": direction, "case": {"in": inp}, "trace": tr, "observed": obs,
                       "verdict": {"verdict": v, "pos": pos, "clause": clause}, "tlc_cfg": cfg_name})
    n = sum(1 for it in items if it[3] == "code->spec")
    ctx.traces_validated += n
    return n


# ----------------------------------------------------------------------------- seeded problems
TEXTBOOK = [
    ("H2 O2", "H2O"), ("C2H2 O2", "CO H2O"), ("CH4 O2", "CO2 H2O"), ("C6H12O6 O2", "CO2 H2O"),
    ("Fe O2", "Fe2O3"), ("Al O2", "Al2O3"), ("N2 H2", "NH3"), ("KClO3", "KCl O2"),
    ("Na H2O", "NaOH H2"), ("CaCO3", "CaO CO2"), ("C3H8 O2", "CO2 H2O"), ("C2H6 O2", "CO2 H2O"),
    ("Fe2O3 CO", "Fe CO2"), ("NH3 O2", "NO H2O"), ("P4 O2", "P2O5"), ("H2SO4 NaOH", "Na2SO4 H2O"),
    ("Al HCl", "AlCl3 H2"), ("KMnO4 HCl", "KCl MnCl2 H2O Cl2"), ("Cu HNO3", "Cu(NO3)2 NO H2O"),
    ("CuSCN KIO3 HCl", "CuSO4 KCl HCN ICl H2O"), ("Ca(OH)2 H3PO4", "Ca3(PO4)2 H2O"),
    ("NH4ClO4 Al", "Al2O3 HCl H2O N2"), ("Fe+3 I-", "Fe+2 I2"), ("MnO4- H+ Fe+2", "Mn+2 Fe+3 H2O"),
    ("Cr2O7-2 H+ e-", "Cr+3 H2O"), ("Zn Ag+", "Zn+2 Ag"), ("H2O2", "H2O O2"), ("SO2 O2", "SO3"),
    ("C O2", "CO CO2"), ("Fe O2", "FeO Fe2O3"), ("C CO", "CO2"), ("H2 O2", "H2O O3"),
    ("CO2 H2O", "C6H12O6 O2"), ("Na2CO3 HCl", "NaCl H2O CO2"), ("PCl5 H2O", "H3PO4 HCl"),
    ("Mg3N2 H2O", "Mg(OH)2 NH3"), ("C12H22O11 O2", "CO2 H2O"), ("NaCl", "Na Cl2"), ("H2O", "H2 O2 O3"),
    ("NO2 H2O", "HNO3 NO"), ("S8 O2", "SO3"), ("C4H10 O2", "CO2 H2O"), ("Ag2S Al", "Ag Al2S3"),
    ("H2 CO", "CH4 H2O CO2"), ("CH4 H2O", "CO CO2 H2"), ("NaN3", "Na N2"), ("FeS2 O2", "Fe2O3 SO2"),
]


# formula-defined reactions with >= 11 species and a reference balancing (verified by TLC as a Witness)
TEXTBOOK_BIG = [
    ("O2 Fe Al Cr Mn", "FeO Fe2O3 Fe3O4 Al2O3 Cr2O3 CrO3 MnO2", [10, 7, 2, 3, 1, 2, 1, 1, 1, 1, 1, 1]),
    ("H2 O2 N2 C S Fe Al", "H2O NH3 CO2 SO2 Fe2O3 Al2O3", [5, 9, 1, 1, 1, 4, 4, 2, 2, 1, 1, 2, 2]),
    ("CH4 C2H6 C3H8 C4H10 O2 N2", "CO2 H2O NO NO2 CO", [3, 2, 1, 2, 33, 2, 16, 26, 2, 2, 2]),
]


# non-stoichiometric compounds: finely resolved fractional amounts through the formula parser
TEXTBOOK_FINE = [
    ("Fe0.9474O O2", "Fe2O3", [20000, 4211, 9474]),
    ("Fe0.947O O2", "Fe3O4", [3000, 394, 947]),
    ("Ni0.9474O H2", "Ni H2O", None),
    ("Fe0.9474O CO", "Fe CO2", None),
    ("Ce0.8333Gd0.1667O1.9167 H2", "Ce2O3 Gd2O3 H2O", None),
    ("Fe0.94737O O2", "Fe2O3", None),
]


def _formula_problem(item):
    """(reactant formulas, product formulas, mode) -> (inp, obs): compositions come from chempy's own
    formula parser (pipeline with C01); rows are the composition keys in sorted order."""
    from chempy import Substance, balance_stoichiometry
    rtxt, ptxt, mode = item[:3]
    witness = item[3] if len(item) > 3 else None
    reac, prod = rtxt.split(), ptxt.split()
    try:
        comps = [Substance.from_formula(f).composition for f in reac + prod]
        keys = sorted(set(k for c in comps for k in c))
        ok = all(isinstance(v, (int, float)) and v == v and abs(v) < 1e9 for c in comps for v in c.values())
    except Exception:
        return None          # the formula parser is C01's subject; not an observation of C02
    if not ok:
        return None
    crow = 0
    if 0 in keys:           # charge row last, as the model has it
        keys = [k for k in keys if k != 0] + [0]
        crow = len(keys)
    raw = [[c.get(k, 0) for c in comps] for k in keys]
    scale = None        # amounts are comp/scale: the smallest power of ten that makes them integers
    for sc in (1, 10, 100, 1000, 10 ** 4, 10 ** 5):
        if all(abs(v * sc - round(v * sc)) < 1e-7 for r in raw for v in r):
            scale = sc
            break
    if scale is None:
        return None
    comp = [[int(round(v * scale)) for v in r] for r in raw]
    inp = {"nr": len(reac), "np": len(prod), "nk": len(keys), "crow": crow, "scale": scale, "comp": comp,
           "mode": mode, "dupl": [], "formulas": [reac, prod], "witness": witness,
           "unclassified": not hadamard_ok(comp)}
    try:
        res = _guarded(lambda: balance_stoichiometry(list(reac), list(prod), underdetermined=MODES[mode]))
    except _CallTimeout:
        return inp, {"k": "unencodable", "sig": "call-timeout"}
    except BaseException as e:
        n = len(reac) + len(prod)
        obs = {"k": "raise", "exc": type(e).__name__, "x": [[0, 1]] * n, "present": [False] * n,
               "extra": 0, "x0": [[0, 1]] * n, "vs": [], "sig": "raise:" + type(e).__name__}
    else:
        obs = project(res, reac, prod)
    return inp, obs


def rational_obs_ok(inp, obs):
    """encoder guard: non-integer / symbolic coefficient vectors are checked by TLC with 32-bit rational
    arithmetic; every partial sum of A.x is bounded by n * max|A| * max|numerator| * lcm(denominators)"""
    vecs = [obs["x"]] if obs["k"] == "num" else ([obs["x0"]] + list(obs["vs"]) if obs["k"] == "sym" else [])
    if all(d == 1 for v in vecs for _, d in v) and obs["k"] == "num":
        return True         # integer vectors go through the large-number zero test
    amax = max(abs(v) for r in inp["comp"] for v in r)
    n = inp["nr"] + inp["np"]
    for v in vecs:
        l = 1
        for _, d in v:
            l = l * d // math.gcd(l, d)
        if n * amax * max(abs(a) for a, _ in v) * l > INT_LIMIT:
            return False
    return True


def _fine(rng, n_problems):
    """finely resolved fractional compositions (4-5 significant digits, scale 10^4 / 10^5): a small
    integer problem with n species, n-1 keys and a planted positive solution, one or two amounts of
    which are replaced by a nearby fine fraction (the null space stays one-dimensional, its generator
    mostly positive, its entries large).  Mode None only for two species at scale 10^4 (the integer
    program of mode None takes minutes on larger numbers on the unchanged tree)."""
    out = []
    while len(out) < n_problems:
        scale = rng.choice([10 ** 4, 10 ** 4, 10 ** 5])
        n = rng.randint(2, 4)
        nk = n - 1
        nr = rng.randint(1, n - 1)
        cols = []
        for _ in range(n):
            while True:
                c = [rng.randint(1, 3) if rng.random() < 0.6 else 0 for _ in range(nk)]
                if any(c):
                    cols.append(c)
                    break
        x = [rng.randint(1, 3) for _ in range(n)]
        x[-1] = 1
        last = [-sum((-1 if j < nr else 1) * x[j] * cols[j][k] for j in range(n - 1)) for k in range(nk)]
        if any(v < 0 for v in last) or not any(last) or max(last) > 9:
            continue
        cols[-1] = last
        comp = [[cols[j][k] * scale for j in range(n)] for k in range(nk)]
        cells = [(k, j) for k in range(nk) for j in range(n) if comp[k][j]]
        npert = min(len(cells), rng.choice([1, 1, 2]))
        for k, j in rng.sample(cells, npert):
            v = int(comp[k][j] * rng.uniform(0.85, 1.15))
            if v % 10 == 0:
                v += rng.choice([1, 3, 7])
            comp[k][j] = v
        for mode in (("True", "False", "None") if scale == 10 ** 4 and npert == 1 and n == 2 else ("True", "False")):
            out.append({"nr": nr, "np": n - nr, "nk": nk, "crow": 0, "scale": scale, "comp": comp,
                        "mode": mode, "dupl": [], "unclassified": not hadamard_ok(comp), "timeout": 3})
    return out[:n_problems]


HARD_AMOUNTS = [1, 2, 3, 5, 7, 11, 13, 17, 19, 23, 29, 31]
HARD_FORMS = [dict(DEFAULT_FORM),
              dict(DEFAULT_FORM, cont="set", naming="reversed", keys="reversed"),
              dict(DEFAULT_FORM, keys="reversed", cont="tuple")]


def _hard(rng, n_problems):
    """heavily under-determined problems for the minimal-sum clause of mode None: 8..10 species, 3..4 keys
    (null space of dimension >= 4), large pairwise coprime amounts, a planted positive solution with
    entries up to 12 (so minimal sums of 25..100).  TLC cannot compute the minimum here; the answer is
    judged against the planted witness and against the code's own answers for other presentations of
    the same problem (Balance!Witness, Balance!Peer).  Each problem comes in len(HARD_FORMS)
    presentations (species / key order)."""
    out = []
    while len(out) < n_problems:
        n = rng.randint(8, 10)
        nk = rng.randint(3, 4)
        nr = rng.randint(3, n - 3)
        cols = []
        for _ in range(n):
            while True:
                c = [rng.choice(HARD_AMOUNTS) if rng.random() < 0.7 else 0 for _ in range(nk)]
                if any(c):
                    cols.append(c)
                    break
        x = [rng.randint(1, 12) for _ in range(n)]
        x[-1] = rng.choice([1, 1, 2, 3])
        last = []
        for k in range(nk):
            t = -sum((-1 if j < nr else 1) * x[j] * cols[j][k] for j in range(n - 1))
            if t < 0 or t % x[-1]:
                last = None
                break
            last.append(t // x[-1])
        if not last or not any(last) or max(last) > 99:
            continue
        cols[-1] = last
        comp = [[cols[j][k] for j in range(n)] for k in range(nk)]
        out.append([{"nr": nr, "np": n - nr, "nk": nk, "crow": 0, "scale": 1, "comp": comp, "mode": "None",
                     "dupl": [], "witness": list(x), "unclassified": not hadamard_ok(comp),
                     "form": dict(f), "timeout": 5} for f in HARD_FORMS])
    return out


def _catalog(rng, n_problems):
    """instances of the same class selected by the EFFORT an exact integer program needs (CBC
    branch-and-bound nodes: 4 below 100, 8 in 900..1300, 28 in 1600..8300), each with a positive
    solution of proven minimal sum as its witness (harness/c02_hard_catalog.json; the witness is checked
    by TLC like any other).  A solver that gives up early returns an answer above the witness sum."""
    import os
    path = os.path.join(os.path.dirname(os.path.dirname(os.path.abspath(__file__))), "c02_hard_catalog.json")
    cat = json.load(open(path))
    if n_problems < len(cat):
        cat = rng.sample(cat, n_problems)
    out = []
    for c in cat:
        out.append([{"nr": c["nr"], "np": c["np"], "nk": c["nk"], "crow": 0, "scale": 1, "comp": c["comp"],
                     "mode": "None", "dupl": [], "witness": list(c["witness"]),
                     "unclassified": not hadamard_ok(c["comp"]), "form": dict(f), "timeout": 10}
                    for f in HARD_FORMS[:2]])
    return out


def _seeded(rng, n_problems):
    """matrices beyond the exhaustive bounds: sparse random ones and ones with a planted positive
    solution (so that ray+ and multi classes are frequent)"""
    out = []
    while len(out) < n_problems:
        nk, vmax = rng.choice([(3, 12), (4, 6), (5, 3), (3, 12), (4, 6)])
        n = rng.randint(3, min(6, nk + 2))     # null spaces of dimension <= 2 mostly (search cost)
        nr = rng.randint(1, n - 1)
        crow = nk if rng.random() < 0.3 else 0
        dens = rng.choice([0.35, 0.5, 0.7])

        def col():
            while True:
                c = [rng.randint(1, vmax) if rng.random() < dens else 0 for _ in range(nk)]
                if crow and rng.random() < 0.7:
                    c[crow - 1] = rng.choice([-2, -1, 1, 2, 3])
                if any(c):
                    return c
        cols = [col() for _ in range(n)]
        if rng.random() < 0.6:      # plant a positive solution through the last product
            x = [rng.randint(1, 4) for _ in range(n)]
            x[-1] = rng.choice([1, 1, 2])
            ok = True
            last = []
            for k in range(nk):
                s = sum((-1 if j < nr else 1) * x[j] * cols[j][k] for j in range(n - 1))
                if (-s) % x[-1] != 0:
                    ok = False
                    break
                v = (-s) // x[-1]
                if (k + 1) != crow and v < 0:
                    ok = False
                    break
                last.append(v)
            if not ok or not any(last) or max(abs(v) for v in last) > 60:
                continue
            cols[-1] = last
            witness = x
        else:
            witness = None
        comp = [[cols[j][k] for j in range(n)] for k in range(nk)]
        if not hadamard_ok(comp):
            continue
        mode = rng.choice(["True", "False", "None"])
        out.append({"nr": nr, "np": n - nr, "nk": nk, "crow": crow, "scale": 1, "comp": comp,
                    "mode": mode, "dupl": [], "witness": witness})
    return out


def _trees(rng, n_problems, nmin=11, nmax=14):
    """many-species single-ray problems with a positive solution known by construction: choose a
    positive vector x first, then a random tree on the species; every edge {u, v} is one element
    shared by exactly these two species, with amounts a (in u), b (in v) such that a*x_u = b*x_v;
    adjacent species sit on opposite sides (2-colouring of the tree).  n species, n-1 independent
    keys: rank n-1, generator x/gcd(x).  Every row has two non-zero entries, so every row the
    integer elimination ever forms is a primitive two-term relation p*x_u = q*x_v with p, q <= max(x):
    32-bit safe without the Hadamard guard.  One in five has a species moved to the wrong side
    (generator with mixed signs: a refusal is demanded).  All three modes."""
    out = []
    while len(out) < n_problems:
        n = rng.randint(nmin, nmax)
        x = [rng.randint(1, 4) for _ in range(n)]
        parent = [None] + [rng.randrange(0, i) if rng.random() < 0.5 else i - 1 for i in range(1, n)]
        side = [0] * n
        for i in range(1, n):
            side[i] = 1 - side[parent[i]]
        rows = []
        for i in range(1, n):
            u = parent[i]
            g = math.gcd(x[u], x[i])
            m = rng.choice([1, 1, 2])
            row = [0] * n
            row[u] = m * x[i] // g
            row[i] = m * x[u] // g
            rows.append(row)
        wrong = rng.random() < 0.2
        if wrong:
            side[rng.randrange(n)] ^= 1
        order = [i for i in range(n) if side[i] == 0] + [i for i in range(n) if side[i] == 1]
        nr = sum(1 for v in side if v == 0)
        if nr == 0 or nr == n:
            continue
        rng.shuffle(rows)
        comp = [[r[i] for i in order] for r in rows]
        g = 0
        for v in x:
            g = math.gcd(g, v)
        for mode in ("True", "False", "None"):
            out.append({"nr": nr, "np": n - nr, "nk": n - 1, "crow": 0, "scale": 1, "comp": comp,
                        "mode": mode, "dupl": [],
                        "witness": None if wrong else [x[i] // g for i in order]})
    return out[:n_problems]


def _observe_inp(inp):
    return observe(inp)


# ----------------------------------------------------------------------------- run
def _tlc_many(ctx, jobs, workers=3, parallel=6):
    """start several exhaustive configs concurrently (JVM start-up dominates the small slices) and yield
    the results in job order as they become available, so that replaying one slice overlaps with model
    checking the next; accounting and vacuity guards exactly as ctx.tlc"""
    from concurrent.futures import ThreadPoolExecutor
    import core
    import tlc as _tlc

    def one(job):
        try:
            return _tlc.run_tlc("Balance_MC", job["cfg"], workers=workers,
                                coverage=bool(job["require_actions"]), timeout=1500)
        except _tlc.TLCError as e:
            return e
    ex = ThreadPoolExecutor(max_workers=parallel)
    try:
        futures = [ex.submit(one, job) for job in jobs]
        for job, fut in zip(jobs, futures):
            res = fut.result()
            if isinstance(res, Exception):
                raise core.MachineryFailure(str(res))
            res.output = ""
            ctx.states += res.distinct
            ctx.transitions += res.generated
            ctx.tlc_runs.append(dict(module="Balance_MC", cfg=job["cfg"], **res.summary()))
            for a in job["require_actions"]:
                t = sum(res.coverage.get(n, (0, 0))[1] for n in {a, a[3:] if a.startswith("Gen") else a})
                ctx.coverage_actions["Balance_MC!%s" % a] = t
                if t == 0:
                    raise core.MachineryFailure("vacuity: action %s of Balance_MC never taken under %s" % (a, job["cfg"]))
            if len(res.cases) < 100:
                raise core.MachineryFailure("vacuity: %s produced %d cases (< 100)" % (job["cfg"], len(res.cases)))
            yield res
    finally:
        ex.shutdown(wait=True)


def run(ctx):
    import chempy  # noqa
    import core
    slices = QUICK if ctx.quick else THOROUGH
    sampled = False
    batch = []
    results = _tlc_many(ctx, [{"cfg": "Balance_MC_%s.cfg" % sl, "require_actions": ACTIONS.get(sl, ())}
                              for sl in slices])
    for sl, res in zip(slices, results):
        cfg = "Balance_MC_%s.cfg" % sl
        # TLC's workers print the cases in a run-dependent order: sort, so that the seed decides the sample
        cases = sorted(res.cases, key=lambda c: json.dumps(c["in"], sort_keys=True))
        classes = set(c["exp"]["c"] for c in cases)
        if sl == "tiny_q" and not {"ray_pos", "ray_neg", "ray_zero", "infeasible", "multi"} <= classes:
            raise core.MachineryFailure("vacuity: classes missing in %s: %s" % (sl, sorted(classes)))
        budget = QUICK_PER_SLICE_SPECIAL.get(sl, QUICK_PER_SLICE) if ctx.quick else THOROUGH_PER_SLICE.get(sl)
        sel = ctx.pick(cases, budget)
        sampled = sampled or len(sel) < len(cases)
        for c in sel:
            if c["exp"]["kind"] == "skip":
                ctx.skip("undecided")
        sel = [c for c in sel if c["exp"]["kind"] != "skip"]
        outs = ctx.pmap(observe_case, sel)
        ctx.cases_replayed += len(sel)
        agreeing = []
        for case, obs in zip(sel, outs):
            inp = case["in"]
            ctx.ran(matrix_id(inp), nontrivial=inp["nr"] + inp["np"] >= 3)
            if obs["k"] == "unencodable" or not rational_obs_ok(inp, obs):
                ctx.skip(obs.get("sig") if obs.get("sig") == "call-timeout" else "unencodable-observation")
                continue
            d = direct_agrees(case["exp"], obs)
            if d is True:
                agreeing.append((inp, obs, d, "spec->code", cfg))
            else:       # a disagreement, or an admissible set that is a predicate: TLC judges
                batch.append((inp, obs, d, "spec->code", cfg))
        ctx.counters["direct_agree"] += len(agreeing)
        ctx.rng.shuffle(agreeing)
        batch += agreeing[:30 if ctx.quick else 400]   # cross-check of the two formulations
        if sel:
            ctx.sample({"slice": sl, "problem": problem_text(sel[0]["in"]), "mode": sel[0]["in"]["mode"],
                        "exp": {k: sel[0]["exp"][k] for k in ("kind", "sols", "exc", "c")}}, cap=12)
    ctx.exhaustive = not sampled

    # ---- code -> spec: beyond the bounds, judged by TLC
    inps = _seeded(ctx.rng, 500 if ctx.quick else 5000)
    for inp in inps:
        inp["form"] = rand_form(ctx.rng, inp)
    outs = ctx.pmap(_observe_inp, inps)
    for inp, obs in zip(inps, outs):
        ctx.ran(matrix_id(inp))
        if obs["k"] == "unencodable":
            ctx.skip(obs.get("sig") if obs.get("sig") == "call-timeout" else "unencodable-observation")
            continue
        batch.append((inp, obs, None, "code->spec", "BalanceTrace.cfg"))

    # finely resolved fractional compositions (scale 10^4 / 10^5)
    fine = _fine(ctx.rng, 100 if ctx.quick else 1200)
    for inp in fine:
        inp["form"] = dict(rand_form(ctx.rng, inp), num="int")      # amounts are floats already
    outs = ctx.pmap(_observe_inp, fine)
    for inp, obs in zip(fine, outs):
        ctx.ran(matrix_id(inp))
        if obs["k"] == "unencodable" or not rational_obs_ok(inp, obs):
            ctx.skip(obs.get("sig") if obs.get("sig") == "call-timeout" else "unencodable-observation")
            continue
        batch.append((inp, obs, None, "code->spec", "BalanceTrace.cfg"))
    ctx.counters["fine_fraction_problems"] += len(fine)

    # heavily under-determined problems: minimal sum judged against the planted witness and the peers
    hard = _catalog(ctx.rng, 40) + _hard(ctx.rng, 4 if ctx.quick else 80)
    flat = [inp for group in hard for inp in group]
    outs = ctx.pmap(_observe_inp, flat)
    it = iter(outs)
    for group in hard:
        obs = [next(it) for _ in group]
        for i, (inp, o) in enumerate(zip(group, obs)):
            ctx.ran(matrix_id(inp))
            if o["k"] == "unencodable" or not rational_obs_ok(inp, o):
                ctx.skip(o.get("sig") if o.get("sig") == "call-timeout" else "unencodable-observation")
                continue
            others = [[v[0] for v in p["x"]] for j, p in enumerate(obs) if j != i
                      and p["k"] == "num" and all(p["present"]) and all(d == 1 for _, d in p["x"])
                      and sum(abs(v[0]) for v in p["x"]) <= INT_LIMIT]
            if others:
                inp["peer"] = min(others, key=lambda v: sum(abs(c) for c in v))
            batch.append((inp, o, None, "code->spec", "BalanceTrace.cfg"))
    ctx.counters["hard_minsum_problems"] += len(hard)

    # many-species problems (11..14) with a positive solution known by construction
    big = _trees(ctx.rng, 100 if ctx.quick else 800)
    for inp in big:
        inp["form"] = rand_form(ctx.rng, inp)
    outs = ctx.pmap(_observe_inp, big)
    for inp, obs in zip(big, outs):
        ctx.ran(matrix_id(inp))
        if obs["k"] == "unencodable":
            ctx.skip(obs.get("sig") if obs.get("sig") == "call-timeout" else "unencodable-observation")
            continue
        batch.append((inp, obs, None, "code->spec", "BalanceTrace.cfg"))
    ctx.counters["many_species_problems"] += len(big)

    tb = [(r, p, m) for (r, p) in TEXTBOOK for m in ("True", "False", "None")]
    tb += [(r, p, m, w) for (r, p, w) in TEXTBOOK_BIG for m in ("True", "False", "None")]
    tb += [(r, p, m, w) for (r, p, w) in TEXTBOOK_FINE for m in ("True", "False", "None")
           if not (m == "None" and "0.94737" in r)]       # five digits: modes True/False only
    outs = ctx.pmap(_formula_problem, tb)
    first = None
    for it, o in zip(tb, outs):
        if o is None:
            ctx.skip("textbook-not-encodable")
            continue
        inp, obs = o
        ctx.ran(matrix_id(inp))
        if obs["k"] == "unencodable" or not rational_obs_ok(inp, obs):
            ctx.skip("unencodable-observation")
            continue
        first = first or (inp, obs)
        batch.append((inp, obs, None, "code->spec", "BalanceTrace.cfg"))
    judge_batch(ctx, batch)
    ctx.counters["judged_by_tlc"] += len(batch)
    if first:
        ctx.sample({"textbook": first[0]["formulas"], "mode": first[0]["mode"], "observed": first[1]["x"]}, cap=12)


def replay(ctx, rec):
    inp = rec["case"]["in"]
    if "formulas" in inp:
        o = _formula_problem((" ".join(inp["formulas"][0]), " ".join(inp["formulas"][1]), inp["mode"],
                              inp.get("witness")))
        inp, obs = o
    else:
        obs = observe(inp)
    if obs["k"] == "unencodable":
        ctx.skip("unencodable-observation")
        return
    v, pos, clause = ctx.validate_traces("BalanceTrace", "BalanceTrace.cfg", [trace_of(inp, obs)])[0]
    if v != "accept":
        c, cls = _split(clause)
        ctx.violation(_key(inp, cls, c, obs),
                      {"observed": obs, "verdict": {"verdict": v, "pos": pos, "clause": clause}})
