"""C03 - mass-action rate of each substance = net stoichiometry x k x prod(c^nu).

spec/Kinetics.tla (+ Kinetics_MC slices, KineticsTrace).  Directions:
  spec -> code : every terminal state of each exhaustive slice is a case: a system of <= 3
                 catalog reactions with its substance order, a prime-valued state, optional
                 stirred-tank conditions, and - computed by TLC - the per-reaction contributions,
                 the per-substance rates and the per-substance rate POLYNOMIALS.  Replayed into
                 Reaction.rate, ReactionSystem.rates, law_of_mass_action_rates + dCdt_list with
                 int, float, Fraction and sympy-symbol variables; symbolic results are projected
                 to monomial tables and must equal the spec's polynomial (an identity).
  code -> spec : seeded systems beyond the bounds (<= 6 species, <= 6 reactions, coefficients
                 <= 3, integer and rational states, feeds) are run through the real code and TLC
                 judges the recorded numbers / monomial tables (KineticsTrace).
"""
import core
import kinetics_common as kc

LEVEL = "model_checking"
RULE = ("cases = terminal states of the sliced exhaustive Kinetics_MC configs (TLC) + seeded systems "
        "validated by KineticsTrace; distinct = distinct (system, order, state, feed) inputs; "
        "non-trivial = at least two reactions, or a reaction with inactive / both-sides / zero-order parts")
ASSUMPTIONS = [
    "a substance key absent from a returned rates dict denotes the rate 0 (Reaction.rate / "
    "ReactionSystem.rates called without substance_keys only report the keys of the reactions)",
    "floats are used only at integral points where every intermediate is an exactly representable integer",
    "symbolic results are compared after sympy.expand/Poly with symbols identified by name",
]

QUICK = ["sys3_q", "sys2_q", "orders_q", "hist_q", "zero_q", "half_q"]
THOROUGH = ["sys3_t", "sys2_t", "cstr_t", "orders_t", "frac_t", "phase_t", "feedmap_t", "hist_t", "zero_t", "half_t"]
# coverage (vacuity guard) is read on the small slice that takes all three generator actions
ACTIONS = {
    "half_q": ["GenAdd", "SetState", "Feed"],
    "frac_t": ["GenAdd", "SetState", "Feed"],
}

FN = {"contrib_keys": ("Reaction.rate", "explicit"), "contrib_default": ("Reaction.rate", "default"),
      "rates_keys": ("ReactionSystem.rates", "explicit"), "rates_default": ("ReactionSystem.rates", "default"),
      "rates_again": ("ReactionSystem.rates", "again"), "frame": ("ReactionSystem.rates", "frame"),
      "rates_backend_np": ("ReactionSystem.rates", "backend-numpy"),
      "rates_backend_sympy": ("ReactionSystem.rates", "backend-sympy"),
      "vec": ("ReactionSystem.rates", "arrays"), "vec_frame": ("ReactionSystem.rates", "arrays-frame"),
      "vec_distinct": ("ReactionSystem.rates", "arrays-distinct"),
      "rvals": ("law_of_mass_action_rates", "-"), "dcdt": ("dCdt_list", "-"), "build": ("ReactionSystem", "-"),
      "ovall_contrib": ("Reaction.rate", "ratex"), "ovmixed_contrib": ("Reaction.rate", "ratex-mixed"),
      "ovall_rates": ("ReactionSystem.rates", "ratexs"), "ovmixed_rates": ("ReactionSystem.rates", "ratexs-mixed"),
      "st_net": ("net_stoichs", "default"), "st_net_keys": ("net_stoichs", "explicit"),
      "st_areac": ("active_reac_stoichs", "-"), "st_allreac": ("all_reac_stoichs", "-"),
      "st_aprod": ("active_prod_stoichs", "-"), "st_allprod": ("all_prod_stoichs", "-"),
      "st_coeff": ("get_coeff_mtx", "-"), "st_order": ("Reaction.order", "-"), "st_rkeys": ("Reaction.keys", "-")}
PER_REACTION = ("contrib_keys", "contrib_default", "ovall_contrib", "ovmixed_contrib")


def _expected(case, field, mode):
    """Pick (structurally) the expected observation the spec emitted for an observation point."""
    exp = case["exp"]
    if mode in ("int", "float", "frac"):
        table = {"contrib_keys": exp["contrib"], "contrib_default": exp["contrib"],
                 "rates_keys": exp["fed"], "rates_default": exp["fed"], "rates_again": exp["fed"],
                 "rates_backend_np": exp["fed"], "rates_backend_sympy": exp["fed"],
                 "vec": exp.get("vec"), "vec_frame": exp["frame"], "vec_distinct": exp.get("distinct"),
                 "frame": exp["frame"], "rvals": exp["rvals"], "dcdt": exp["rates"],
                 "ovall_contrib": exp["ovall"]["contrib"], "ovall_rates": exp["ovall"]["fed"],
                 "ovmixed_contrib": exp["ovmixed"]["contrib"], "ovmixed_rates": exp["ovmixed"]["fed"],
                 "st_net": exp["net"], "st_net_keys": exp["net"], "st_areac": exp["areac"],
                 "st_allreac": exp["allreac"], "st_aprod": exp["aprod"], "st_allprod": exp["allprod"],
                 "st_coeff": exp["coeff"], "st_order": exp["order"],
                 "st_rkeys": [sorted(k) for k in exp["rkeys"]]}
        return table[field]
    if mode == "sym-num":
        if field == "contrib_keys":
            return [[kc.canon_poly(p) for p in per] for per in exp["rpoly"]]
        return [kc.canon_poly(p) for p in exp["polyin"]]
    if mode == "sym-sym":
        if field == "contrib_keys":
            return None
        return [kc.canon_poly(p) for p in exp["poly"]]
    raise ValueError(mode)


def _modes(cin):
    m = ["frac", "sym-num", "sym-sym"]
    if kc.integral(kc.all_inputs(cin)):
        m = ["int", "float"] + m
    return m


def _compare(bad, case, obs, mode, flags):
    for field, o in sorted(obs.items()):
        fn, keys = FN[field]
        if field == "build":
            bad.append((dict(fn=fn, keys=keys, mode=mode, error=o["raise"], **flags), o, "system builds"))
            continue
        want = _expected(case, field, mode)
        if want is None or (field == "st_coeff" and not case["exp"]["coeffint"]):
            continue
        if field == "st_rkeys" and isinstance(o, list):
            o = [sorted(k) for k in o]
        pairs = list(zip(o, want)) if field in PER_REACTION else [(o, want)]
        for oo, ww in pairs:
            if oo == ww:
                continue
            err = oo["raise"] if kc.is_raise(oo) else ("unencodable" if oo is None else "value")
            bad.append((dict(fn=fn, keys=keys, mode=mode, error=err, **flags), oo, ww))


def replay_case(case):
    """-> list of (key, observed, expected) disagreements.  Total: whatever the code under test
    returns or raises ends as an entry of this list, never as a crash of the worker."""
    try:
        return _replay_case(case)
    except Exception as e:   # an observation the projections did not anticipate
        return [(dict(fn="observation", keys="-", mode="-", error=type(e).__name__, cls=case.get("cls", ""),
                      feed=False, untouched=False, hist=0, phases=False, pform="-", container="-"),
                 {"raise": type(e).__name__, "msg": str(e)[:200]}, "an observable result")]


def _replay_case(case):
    cin = case["in"]
    bad = []
    base = {"feed": bool(cin["feed"]["on"]), "untouched": "-u" in case["cls"], "cls": case["cls"],
            "hist": len(cin.get("hist") or []), "phases": any(cin.get("sphase") or [])}
    pforms = list(cin.get("pforms") or ["plain"])
    if cin.get("hist"):
        pforms = [f for f in pforms if f != "str"]   # a key's value is not re-assigned through Reaction.param
    containers = list(cin.get("containers") or ["list"])
    first = True
    for mode in _modes(cin):
        if mode.startswith("sym"):
            _compare(bad, case, kc.observe_symbolic(cin, mode[4:]), mode, dict(base, pform="plain", container="list"))
            continue
        for pform in sorted(pforms, key=lambda f: f != "plain"):
            conts = containers if (pform == "plain" and mode in ("int", "float")) else ["list"]
            for cont in sorted(conts, key=lambda c: c != "list"):
                extras = first and pform == "plain" and cont == "list"
                obs = kc.observe_numeric(cin, mode, pform, cont, extras=extras)
                if extras:
                    first = False
                _compare(bad, case, obs, mode, dict(base, pform=pform, container=cont))
    mode0 = _modes(cin)[0]
    # the constructor's `substances` argument in its other forms (string, mappings, alias keys, sorted)
    for sform in cin.get("sforms") or []:
        if sform == "list" or (sform == "str" and len(cin["subst"]) < 2):
            continue
        obs = kc.observe_numeric(dict(cin, _sform=sform), mode0, "plain", "list", extras=True)
        _compare(bad, case, obs, mode0, dict(base, pform="plain", container=sform))
    # array-valued concentrations: both states of the case in one call
    if cin.get("c2"):
        _compare(bad, case, kc.observe_vector(cin), mode0, dict(base, pform="plain", container="ndarray-values"))
    if not cin["feed"]["on"] and not cin.get("hist"):
        mode = _modes(cin)[0]
        for sel in ("selrev", "selsub"):
            want = case["exp"][sel]
            obs = kc.observe_selection(cin, mode, want["keys"])
            flags = dict(base, pform="plain", container="list")
            if "build" in obs:
                continue
            for field, fn in (("contrib", "Reaction.rate"), ("rates", "ReactionSystem.rates"), ("net", "net_stoichs")):
                o, w = obs[field], want[field]
                pairs = list(zip(o, w)) if field == "contrib" else [(o, w)]
                for oo, ww in pairs:
                    if oo != ww:
                        err = oo["raise"] if kc.is_raise(oo) else ("unencodable" if oo is None else "value")
                        bad.append((dict(fn=fn, keys=sel, mode=mode, error=err, **flags), oo, ww))
    return bad


def _nontrivial(case):
    return len(case["in"]["rxns"]) >= 2 or any(t in case["cls"] for t in ("-ir", "-ip", "-z", "-b"))


# ------------------------------------------------------------------ code -> spec
def _run_trace(arg):
    sysd, variant = arg
    cin = kc.system_to_case_in(sysd)
    mode = "int" if kc.integral(kc.all_inputs(cin)) else "frac"
    obs = kc.observe_numeric(cin, mode)
    if "build" in obs:
        return None, obs, cin
    rates = obs["rates_keys" if variant == "explicit" else "rates_default"]
    contrib = obs["contrib_keys" if variant == "explicit" else "contrib_default"]
    poly = []
    dcdt = obs.get("dcdt", [])
    if variant == "explicit":
        so = kc.observe_symbolic(cin, "num")
        poly = so["rates_keys"]
    res = {"ev": "Result", "rates": rates, "dcdt": dcdt, "rvals": obs["rvals"], "contrib": contrib, "poly": poly}
    for k, v in res.items():
        if k == "ev":
            continue
        vs = v if k == "contrib" else [v]
        for x in vs:
            if x is None or isinstance(x, dict):
                return None, {"field": k, "observed": x}, cin
    return kc.system_events(sysd) + [res], obs, cin


def _untouched(sysd):
    used = set()
    for r in sysd["rxns"]:
        for part in ("reac", "prod", "ireac", "iprod"):
            used.update(k for k, v in r[part].items() if v)
    return any(s not in used for s in sysd["subst"])


def _trace_direction(ctx, n):
    items = []
    for i in range(n):
        sysd = kc.gen_system(ctx.rng, rational=(i % 3 == 2))
        items.append((sysd, "explicit" if i % 2 == 0 else "default"))
    outs = ctx.pmap(_run_trace, items)
    traces, meta = [], []
    for (sysd, variant), (tr, obs, cin) in zip(items, outs):
        flags = {"feed": bool(sysd["feed"]), "untouched": _untouched(sysd), "cls": "seeded"}
        if tr is None:
            o = obs.get("observed") if "field" in obs else obs.get("build")
            if kc.is_raise(o):
                # the call raised: there is no result to judge, which is itself a disagreement
                fn = {"rates": "ReactionSystem.rates", "contrib": "Reaction.rate", "dcdt": "dCdt_list",
                      "rvals": "law_of_mass_action_rates", "poly": "ReactionSystem.rates"}.get(obs.get("field"), "ReactionSystem")
                ctx.ran(cin, nontrivial=True)
                ctx.violation(dict(fn=fn, keys=variant, mode="trace", error=o["raise"], **flags),
                              {"direction": "code->spec", "trace": kc.system_events(sysd), "system": sysd,
                               "variant": variant, "observed": o, "verdict": "call raised"})
            else:
                ctx.skip("unencodable-observation")
            continue
        traces.append(tr)
        meta.append((sysd, variant, flags, cin))
    def judge(verdicts):
        for tr, (sysd, variant, flags, cin), (v, pos, clause) in zip(traces, meta, verdicts):
            ctx.ran(cin, nontrivial=True)
            if v == "accept":
                continue
            if clause.startswith("step:") or clause in ("notready", "no-result-event", "shape"):
                raise core.MachineryFailure("generated trace outside the model: %s at %d: %r" % (clause, pos, tr[pos - 1]))
            fn = {"rates": "ReactionSystem.rates", "contrib": "Reaction.rate", "dcdt": "dCdt_list",
                  "rvals": "law_of_mass_action_rates", "poly": "ReactionSystem.rates"}[clause]
            ctx.violation(dict(fn=fn, keys=variant, mode="trace", error="value", clause=clause, **flags),
                          {"direction": "code->spec", "trace": tr, "system": sysd, "variant": variant,
                           "observed": tr[-1], "verdict": {"verdict": v, "pos": pos, "clause": clause},
                           "tlc_cfg": "KineticsTrace.cfg"})
        if traces:
            ctx.sample({"trace": traces[0]}, cap=8)

    return traces, judge


def _suite_direction(ctx):
    """The repository's own tests, re-judged: every in-model ReactionSystem.rates call they make
    is validated by TLC against Kinetics (their own assertions only sample a few numbers)."""
    recs = [r for r in kc.record_suite(ctx.tmp, core.REPO) if r.get("fn") == "rates"]
    traces = [r for r in recs if "trace" in r]
    for r in recs:
        if "skip" in r:
            ctx.skip("suite-call-outside-model: " + r["skip"])
    ctx.counters["suite_rates_calls"] = len(recs)
    ctx.counters["suite_rates_calls_in_model"] = len(traces)
    def judge(verdicts):
        for r, (v, pos, clause) in zip(traces, verdicts):
            ctx.ran({"suite": r["test"], "trace": r["trace"]}, nontrivial=True)
            if v == "accept":
                continue
            if clause.startswith("step:") or clause in ("notready", "no-result-event", "shape"):
                ctx.skip("suite-call-outside-model: " + clause)
                continue
            ctx.violation(dict(fn="ReactionSystem.rates", keys="suite", mode="suite", error="value", clause=clause,
                               feed=any(e["ev"] == "Feed" for e in r["trace"]), untouched=False, cls="suite"),
                          {"direction": "code->spec", "trace": r["trace"], "test": r["test"], "observed": r["trace"][-1],
                           "verdict": {"verdict": v, "pos": pos, "clause": clause}, "tlc_cfg": "KineticsTrace.cfg"})

    return [r["trace"] for r in traces], judge


def run(ctx):
    slices = QUICK if ctx.quick else THOROUGH
    for sl in slices:
        res = ctx.tlc("Kinetics_MC", "Kinetics_MC_%s.cfg" % sl, require_actions=ACTIONS.get(sl, ()),
                      require_cases=50, timeout=1500, workers=6 if ctx.quick else 16)
        outs = ctx.pmap(replay_case, res.cases)
        ctx.cases_replayed += len(res.cases)
        for case, bad in zip(res.cases, outs):
            ctx.ran(case["in"], nontrivial=_nontrivial(case))
            for key, obs, want in bad:
                ctx.violation(key, {"direction": "spec->code", "case": case, "observed": obs,
                                    "expected": want, "tlc_cfg": "Kinetics_MC_%s.cfg" % sl})
        if res.cases:
            c0 = res.cases[len(res.cases) // 2]
            ctx.sample({"slice": sl, "in": c0["in"], "rates": c0["exp"]["fed"], "poly": c0["exp"]["poly"]}, cap=8)
        ctx.counters["cases_" + sl] = len(res.cases)
    # every terminal state of every slice is replayed (no sampling)
    ctx.exhaustive = True
    # code -> spec: seeded systems and the calls of the repository's own tests, validated in one batch
    t1, judge1 = _trace_direction(ctx, 300 if ctx.quick else 6000)
    t2, judge2 = _suite_direction(ctx)
    verdicts = ctx.validate_traces("KineticsTrace", "KineticsTrace.cfg", t1 + t2)
    judge1(verdicts[:len(t1)])
    judge2(verdicts[len(t1):])


def replay(ctx, rec):
    if rec.get("direction") == "spec->code":
        for key, obs, want in replay_case(rec["case"]):
            if all(str(key.get(k)) == str(v) for k, v in rec["key"].items()):
                ctx.violation(key, {"observed": obs, "expected": want})
    elif "system" not in rec:
        # a recorded suite call: re-validate the stored trace against the current spec
        v, pos, clause = ctx.validate_traces("KineticsTrace", "KineticsTrace.cfg", [rec["trace"]])[0]
        if v != "accept":
            ctx.violation(rec["key"], {"observed": rec["trace"][-1], "verdict": {"verdict": v, "pos": pos, "clause": clause}})
    else:
        tr, obs, cin = _run_trace((rec["system"], rec["variant"]))
        if tr is None:
            ctx.violation(rec["key"], {"observed": obs, "verdict": "call raised"})
            return
        v, pos, clause = ctx.validate_traces("KineticsTrace", "KineticsTrace.cfg", [tr])[0]
        if v != "accept":
            ctx.violation(rec["key"], {"observed": tr[-1], "verdict": {"verdict": v, "pos": pos, "clause": clause}})
