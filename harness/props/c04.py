"""C04 - the generated ODE system is exactly the kinetic model of the reaction system.

spec/OdeBuild.tla (EXTENDS Kinetics; + OdeBuild_MC slices, OdeBuildTrace).  Directions:
  spec -> code : every terminal state is a case: a catalog system, its substance order, a prime
                 state, a build configuration accepted by the builders (builder, include_params,
                 per-reaction parameter kind, substitutions, cstr, compositions) and - computed by
                 TLC - the expected names, the expected SET of parameter names, the expected
                 right-hand side per substance as a polynomial with every constant free or
                 inlined, its value at the state with the free symbols bound, the per-reaction
                 rates and the composition matrix.  Replayed into get_odesys / _create_odesys;
                 odesys.exprs are projected to monomial tables with symbols mapped BY NAME and
                 must equal the spec's polynomial (symbolic identity).
  code -> spec : seeded larger systems (<= 6 species, <= 5 reactions) with random configurations
                 are built by the real code; TLC decides whether the configuration is inside the
                 model (Accepted) and judges names / parameters / expressions / values.
"""
import core
import kinetics_common as kc

LEVEL = "model_checking"
RULE = ("cases = terminal states (system x accepted build configuration) of the sliced exhaustive "
        "OdeBuild_MC configs (TLC) + seeded (system, configuration) pairs validated by OdeBuildTrace; "
        "distinct = distinct (system, order, configuration) inputs; non-trivial = at least two reactions "
        "or a free / substituted parameter or stirred-tank terms")
ASSUMPTIONS = [
    "parameter ORDER is not part of the property (the code derives it from a set): param_names are "
    "compared as a set and expressions/values after mapping symbols by name",
    "f_cb / rate_exprs_cb are evaluated in float64 at integral points where all intermediates are "
    "exactly representable integers",
    "C04 quantifies over systems accepted by the builders: a system with a listed substance that occurs "
    "in no reaction, or with a substance whose right-hand side contains no symbol (only zero-order "
    "reactions with inlined constants), may be refused (the pinned builders do); if built it is judged",
    "_create_odesys parameter_expressions are modelled for string-named rate constants only",
]

QUICK = ["main_q", "feeds_q", "full_q", "zero_q"]
THOROUGH = ["cfg_t", "comp_t", "sys_t", "sys3_t", "full_t", "orders_t", "const_t", "constw_t", "sym_t", "uk2_t", "feedmap_t", "hist_t", "forms_t", "zero_t"]
# coverage (vacuity guard) is read on the smallest slice; it takes all four actions
ACTIONS = {"full_q": ["OAdd", "OState", "OFeed", "GenBuild"], "full_t": ["OAdd", "OState", "OFeed", "GenBuild"]}

FIELDS = ["names", "dep", "indep", "params", "paramseq", "poly", "f", "rvals", "f2", "f_again", "rvals2", "frame", "B"]


def _want(exp, field):
    if field == "params":
        return sorted(exp["params"])
    if field == "poly":
        return [kc.canon_poly(p) for p in exp["poly"]]
    if field == "f_again":
        return exp["f"]
    return exp[field]


def _key(cin, field, error, cls):
    cfg = cin["cfg"]
    return dict(fn=cfg["builder"], field=field, error=error, incl=cfg["incl"], cstr=cfg["cstr"],
                kinds=",".join(cfg["kinds"]), subs=",".join(cfg["subs"]), comp=cfg["comp"], cls=cls,
                gsub=cfg.get("gsub", "none"), fsub=cfg.get("fsub", "none"), alias=bool(cfg.get("alias")),
                feedorder=",".join(cin["feed"].get("order") or []), hist=len(cin.get("hist") or []),
                consts=",".join(cfg.get("consts", [])), symorder=",".join(cfg.get("symorder", [])))


def replay_case(case):
    """-> (status, list of (key, observed, expected)).  Total: whatever the code under test returns
    or raises ends as an entry of the list, never as a crash of the worker."""
    try:
        return _replay_case(case)
    except Exception as e:   # an observation the projections did not anticipate
        return "built", [(_key(case["in"], "observation", type(e).__name__, case.get("cls", "")),
                          {"raise": type(e).__name__, "msg": str(e)[:200]}, "an observable result")]


def _replay_case(case):
    cin, exp = case["in"], case["exp"]
    obs = kc.observe_odesys(cin)
    if kc.is_raise(obs["build"]):
        if exp["mayrefuse"]:
            return "refused", []
        return "raised", [(_key(cin, "build", obs["build"]["raise"], case["cls"]), obs["build"], "builds")]
    bad = []
    if not obs["params_unique"]:
        bad.append((_key(cin, "params", "duplicate", case["cls"]), obs["params"], _want(exp, "params")))
    for field in FIELDS:
        if field not in obs:
            continue
        o, w = obs[field], _want(exp, field)
        if o == w:
            continue
        err = o["raise"] if kc.is_raise(o) else ("unencodable" if o is None else "value")
        bad.append((_key(cin, field, err, case["cls"]), o, w))
    return "built", bad


def _nontrivial(case):
    cfg = case["in"]["cfg"]
    return len(case["in"]["rxns"]) >= 2 or cfg["cstr"] or any(s != "none" for s in cfg["subs"]) \
        or any(k in ("str", "ma_fk", "ma_uk") for k in cfg["kinds"])


# ------------------------------------------------------------------ code -> spec
def _run_trace(arg):
    sysd, cfg = arg
    cin = kc.system_to_case_in(sysd)
    cin["cfg"] = dict(cfg, cstr=bool(sysd["feed"]))
    cin["comp"] = []
    # parameters are bound BY NAME to the values the trace declares (events below)
    bind = {}
    for rx in cin["rxns"]:
        bind[kc.kname(rx["k"])] = rx["kv"]
        bind[kc.pname(rx["k"])] = rx["kv"]
        bind[kc.qname(rx["k"])] = cfg["qval"]
    for i, rx in enumerate(cin["rxns"]):
        bind["T%d" % rx["k"]] = cfg["tvals"][i]
        bind["a%d" % rx["k"]] = cfg["avals"][i]
    bind["Tg"] = cfg["tval"]
    bind["g"] = cfg["gval"]
    if sysd["feed"]:
        bind[kc.FEEDVAR] = sysd["feed"]["F"]
        for s in sysd["subst"]:
            bind[kc.fcvar(s)] = sysd["feed"]["cf"][s]
    cin["bind"] = sorted(bind.items())
    obs = kc.observe_odesys(cin)
    ev = kc.system_events(sysd)
    ev.append({"ev": "Build", "cfg": cin["cfg"]})
    if kc.is_raise(obs["build"]):
        res = {"ev": "Result", "built": False, "names": [], "dep": [], "params": [], "poly": [], "f": [], "rvals": [], "hasr": False}
    else:
        for k in ("poly", "f"):
            if obs[k] is None or isinstance(obs[k], dict):
                return None, obs, cin
        rv = obs.get("rvals")
        if rv is None or isinstance(rv, dict):
            if "rvals" in obs:
                return None, obs, cin
            rv = []
        res = {"ev": "Result", "built": True, "names": obs["names"], "dep": obs.get("dep", []), "params": obs["params"],
               "poly": obs["poly"], "f": obs["f"], "rvals": rv, "hasr": "rvals" in obs}
    return ev + [res], obs, cin


def _trace_direction(ctx, n):
    items = []
    for i in range(n):
        sysd = kc.gen_system(ctx.rng, rational=False)
        sysd["rxns"] = sysd["rxns"][:5]
        # C04 is about systems the builders accept: list exactly the substances that occur
        used = set()
        for r in sysd["rxns"]:
            for part in ("reac", "prod", "ireac", "iprod"):
                used.update(k for k, v in r[part].items() if v)
        sysd["subst"] = [s for s in sysd["subst"] if s in used]
        if sysd["feed"]:
            sysd["feed"]["cf"] = {s: sysd["feed"]["cf"][s] for s in sysd["subst"]}
            kept = [s for s in sysd["feed"]["order"] if s in sysd["subst"]]
            if not kept or not sysd["feed"]["usermap"]:
                sysd["feed"].update(order=list(sysd["subst"]), usermap=False)
            else:
                sysd["feed"]["order"] = kept
        sysd["hist"] = [h for h in sysd["hist"] if h[0] <= len(sysd["rxns"])]
        items.append((sysd, kc.gen_build_config(ctx.rng, len(sysd["rxns"]), substs=sysd["subst"],
                                                feed=bool(sysd["feed"]))))
    outs = ctx.pmap(_run_trace, items)
    traces, meta = [], []
    for (sysd, cfg), (tr, obs, cin) in zip(items, outs):
        if tr is None:
            ctx.skip("unencodable-observation")
            continue
        traces.append(tr)
        meta.append((sysd, cfg, cin, obs))
    def judge(verdicts):
        for tr, (sysd, cfg, cin, obs), (v, pos, clause) in zip(traces, meta, verdicts):
            if clause == "step:Build":
                ctx.skip("configuration-outside-Accepted")   # not judged: C04 covers accepted configurations
                continue
            ctx.ran(cin, nontrivial=True)
            if v == "accept":
                continue
            if clause.startswith("step:") or clause in ("notbuilt", "no-result-event"):
                raise core.MachineryFailure("generated trace outside the model: %s at %d: %r" % (clause, pos, tr[pos - 1]))
            err = obs["build"]["raise"] if kc.is_raise(obs["build"]) else "value"
            ctx.violation(_key(cin, clause, err, "seeded"),
                          {"direction": "code->spec", "trace": tr, "system": sysd, "cfg": cfg,
                           "observed": tr[-1], "verdict": {"verdict": v, "pos": pos, "clause": clause},
                           "tlc_cfg": "OdeBuildTrace.cfg"})
        if traces:
            ctx.sample({"trace": traces[0]}, cap=8)

    return traces, judge


def _suite_direction(ctx):
    """get_odesys calls made by the repository's own tests, re-judged by TLC (OdeBuildTrace)."""
    recs = [r for r in kc.record_suite(ctx.tmp, core.REPO) if r.get("fn") == "get_odesys"]
    traces = [r for r in recs if "trace" in r]
    for r in recs:
        if "skip" in r:
            ctx.skip("suite-call-outside-model: " + r["skip"])
    ctx.counters["suite_get_odesys_calls"] = len(recs)
    ctx.counters["suite_get_odesys_calls_in_model"] = len(traces)
    def judge(verdicts):
        for r, (v, pos, clause) in zip(traces, verdicts):
            if clause.startswith("step:") or clause in ("notbuilt", "no-result-event"):
                ctx.skip("suite-call-outside-model: " + clause)
                continue
            ctx.ran({"suite": r["test"], "trace": r["trace"]}, nontrivial=True)
            if v == "accept":
                continue
            cfg = r["trace"][-2]["cfg"]
            ctx.violation(dict(fn="get_odesys", field=clause, error="value", incl=cfg["incl"], cstr=cfg["cstr"],
                               kinds=",".join(cfg["kinds"]), subs=",".join(cfg["subs"]), comp=False, cls="suite"),
                          {"direction": "code->spec", "trace": r["trace"], "test": r["test"], "observed": r["trace"][-1],
                           "verdict": {"verdict": v, "pos": pos, "clause": clause}, "tlc_cfg": "OdeBuildTrace.cfg"})

    return [r["trace"] for r in traces], judge


def _warm_up():
    """Import the symbolic stack and build one system in the parent, so that forked workers do
    not each pay the first-build cost (~3 s)."""
    cin = {"subst": ["A", "B"], "rxns": [{"reac": [["A", 1]], "prod": [["B", 1]], "ireac": [], "iprod": [],
                                            "k": 1, "kv": [11, 1]}],
           "c": [[2, 1], [3, 1]], "feed": {"on": False, "F": [0, 1], "cf": [], "order": [], "usermap": False},
           "comp": [], "bind": [],
           "cfg": dict({"builder": "get_odesys", "incl": True, "kinds": ["num"], "subs": ["none"], "cstr": False,
                        "comp": False, "subvals": [[41, 1]], "aval": [53, 1], "tval": [59, 1]},
                       **kc.default_pk_fields())}
    kc.observe_odesys(cin)
    cin["cfg"] = dict(cin["cfg"], builder="create_odesys", incl=False, kinds=["str"])
    cin["bind"] = [["k1", [11, 1]]]
    kc.observe_odesys(cin)


def run(ctx):
    _warm_up()
    slices = QUICK if ctx.quick else THOROUGH
    for sl in slices:
        res = ctx.tlc("OdeBuild_MC", "OdeBuild_MC_%s.cfg" % sl, require_actions=ACTIONS.get(sl, ()),
                      require_cases=50, timeout=1500, workers=6 if ctx.quick else 16)
        outs = ctx.pmap(replay_case, res.cases)
        ctx.cases_replayed += len(res.cases)
        for case, (status, bad) in zip(res.cases, outs):
            ctx.counters["builds_" + status] += 1
            if status == "refused":
                ctx.skip("refused-degenerate-system (untouched substance / constant right-hand side)")
                continue
            ctx.ran(case["in"], nontrivial=_nontrivial(case))
            for key, obs, want in bad:
                ctx.violation(key, {"direction": "spec->code", "case": case, "observed": obs,
                                    "expected": want, "tlc_cfg": "OdeBuild_MC_%s.cfg" % sl})
        if res.cases:
            c0 = res.cases[len(res.cases) // 2]
            ctx.sample({"slice": sl, "cfg": c0["in"]["cfg"], "subst": c0["in"]["subst"], "rxns": c0["in"]["rxns"],
                        "params": c0["exp"]["params"], "poly": c0["exp"]["poly"]}, cap=8)
        ctx.counters["cases_" + sl] = len(res.cases)
    ctx.exhaustive = True
    # code -> spec: seeded systems and the calls of the repository's own tests, validated in one batch
    t1, judge1 = _trace_direction(ctx, 200 if ctx.quick else 4000)
    t2, judge2 = _suite_direction(ctx)
    verdicts = ctx.validate_traces("OdeBuildTrace", "OdeBuildTrace.cfg", t1 + t2)
    judge1(verdicts[:len(t1)])
    judge2(verdicts[len(t1):])


def replay(ctx, rec):
    if rec.get("direction") == "spec->code":
        status, bad = replay_case(rec["case"])
        for key, obs, want in bad:
            if key.get("field") == rec["key"].get("field"):
                ctx.violation(key, {"observed": obs, "expected": want})
    elif "system" not in rec:
        v, pos, clause = ctx.validate_traces("OdeBuildTrace", "OdeBuildTrace.cfg", [rec["trace"]])[0]
        if v != "accept":
            ctx.violation(rec["key"], {"observed": rec["trace"][-1], "verdict": {"verdict": v, "pos": pos, "clause": clause}})
    else:
        tr, obs, cin = _run_trace((rec["system"], rec["cfg"]))
        if tr is None:
            ctx.violation(rec["key"], {"observed": obs, "verdict": "unencodable"})
            return
        v, pos, clause = ctx.validate_traces("OdeBuildTrace", "OdeBuildTrace.cfg", [tr])[0]
        if v != "accept" and clause != "step:Build":
            ctx.violation(rec["key"], {"observed": tr[-1], "verdict": {"verdict": v, "pos": pos, "clause": clause}})
