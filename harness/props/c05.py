"""C05 - only balanced reactions are admitted; elements and charge are conserved.

spec/Conservation.tla (+ Conservation_MC slices, ConservationTrace).  Directions:
  spec -> code : TLC enumerates systems over a substance pool (keys 0 = charge, 1 = H, 8 = O):
                 every reaction with at most two molecules per side, alone and in ordered pairs
                 (balanced / unbalanced in one key incl. charge only, first / last), spectators
                 in parentheses.  Each terminal state carries Accept, the violated keys, B, its
                 key order.  Replayed into ReactionSystem(...) with explicitly composed
                 substances and into ReactionSystem.from_string (formula-defined substances).
  code -> spec : for accepted systems the observations composition_balance_vectors(),
                 odesys.linear_invariants, net_stoichs(), rates(c) on an integer grid, every
                 analytic elimination offered by extra['linear_dependencies'] (projected to linear
                 forms) and the drift of B @ yout over one integration are recorded as a trace
                 and judged by TLC (ConservationTrace); seeded formula-defined systems beyond the
                 pool bounds (real substances, up to 5 reactions) are judged the same way.
  histories    : on ONE system object, queries (composition vectors directly / through a freshly
                 built ODE system, with every single-substance elimination) are interleaved with
                 reorderings of its substances (sort_substances_inplace with the order chosen by TLC);
                 pools with stoichiometric coefficients 2 and 3 (NH3/N2/H2, H2O2/H2O/O2, ...).  Every
                 observation is judged by TLC against the substance order current at that point.
The dyn slices model-check the action property [][B.c' = B.c]_vars along Euler steps.
"""
import math
import random
from fractions import Fraction

import conservation_common as cc
import core

LEVEL = "model_checking"
RULE = ("cases = terminal states of the Conservation_MC build/inact slices (TLC), each replayed through "
        "two construction routes; traces = accepted systems' observations + seeded formula-defined systems, "
        "judged by ConservationTrace; distinct = distinct (substance order, reaction list) systems; "
        "non-trivial = at least one reaction touching two substances")
ASSUMPTIONS = [
    "all substances carry compositions (the statement's precondition); duplicate reactions and unknown keys are outside the model",
    "the ValueError text is projected to the first integer in '(<key>: ' - the key it names",
    "drift of an integration is encoded as ceil(|B.y - B.c0| * 1e12) per row; allowed drift per unit row weight is the trace constant DriftTolE12 (1e-8; observed drift on the pinned tree: 1e-12) at requested atol = rtol = 1e-9",
    "Reorder(p) is executed as rsys.sort_substances_inplace(key=rank given by p); seeded systems use the default key and log the observed permutation",
    "rates are observed with int concentrations and int/Fraction rate constants (exact arithmetic in the library)",
]

QUICK = [("build_q", ["GenSubstance", "GenReaction", "Build", "GenFinish"], 120, 12),
         ("inact_q", ["GenReaction", "GenReverse", "Build"], 120, 14),
         ("third_q", ["GenReaction", "Build"], 100, 9),
         ("frac_q", ["GenReaction", "Build"], 80, 4)]
THOROUGH = [("build_t", [], 20000, 256), ("inact_t", [], None, 200), ("build3_t", [], None, 100),
            ("third_t", [], None, 200), ("frac_t", [], None, 100)]
HIST_QUICK = [("hist_nh_q", ["GenQuery", "GenReorder"], 24)]
HIST_THOROUGH = [("hist_nh_t", [], 250), ("hist_per_t", [], 250), ("hist_w_t", [], 200), ("hist_nox_t", [], 300)]
DYN_QUICK = [("dyn_q", ["GenSetState", "GenEulerStep", "GenSafeStep"])]
DYN_THOROUGH = [("dyn_t", [])]

TRACE_CFG = "ConservationTrace.cfg"


def sys_ident(sysin):
    return core.stable_hash([cc.names_of(sysin), sysin["lines"]])


def nontrivial(sysin):
    for r in sysin["rxns"]:
        touched = {i for f in ("reac", "prod", "ireac", "iprod") for i, n in enumerate(r[f]) if n}
        if len(touched) >= 2:
            return True
    return False


# ----------------------------------------------------------------------------- spec -> code
def compare_build(case, obs, bv, route):
    """Direct comparison of the constructor outcome / B with the CASE expectation."""
    exp = case["exp"]
    bad = []
    if exp["accept"]:
        if obs["raised"]:
            bad.append(("accept", {"raised": True, "exc": obs["exc"], "msg": obs["msg"]}, {"accept": True}))
        elif bv is None or "bad" in bv:
            bad.append(("B", bv, {"keys": exp["keys"], "B": exp["Bq"]}))
        elif bv["keys"] != exp["keys"] or bv["B"] != exp["Bq"]:
            bad.append(("B", bv, {"keys": exp["keys"], "B": exp["Bq"]}))
    else:
        if not obs["raised"]:
            bad.append(("reject", {"raised": False}, {"accept": False, "violated": exp["anyviol"]}))
        elif obs["exc"] != "ValueError":
            bad.append(("exception-class", obs, {"exc": "ValueError"}))
        elif obs["key"] not in exp["anyviol"]:
            bad.append(("named-key", obs, {"violated": exp["anyviol"]}))
    return [dict(what=w, route=route, observed=o, expected=e) for w, o, e in bad]


def create_odesys_events(rsys, names, rng, skips):
    """The second builder, `_create_odesys`, hands the composition vectors over as well.  It takes symbolic rate
    constants only, so it is given a twin of the system (same stoichiometries incl. inactive parts, same substances,
    constants 'k1', 'k2', ...) and - the configuration dimension - the substance symbols as a plain dict in the
    system's order or in a rotated/reversed order.  The vectors are read against the names the built system reports:
    column j of the event is the column of the substance names[j]."""
    try:
        import sympy
        from chempy import Reaction, ReactionSystem
        from chempy.kinetics.ode import _create_odesys
        twin = ReactionSystem([Reaction(r.reac, r.prod, "k%d" % (i + 1), inact_reac=r.inact_reac, inact_prod=r.inact_prod,
                                        checks=()) for i, r in enumerate(rsys.rxns)], rsys.substances)
        order = list(names)
        how = rng.choice(["same", "reversed", "rotated"])
        if how == "reversed":
            order.reverse()
        elif how == "rotated":
            order = order[1:] + order[:1]
        symbols = {k: sympy.Symbol("y_%d" % names.index(k), real=True) for k in order}
        odesys, _ = _create_odesys(twin, substance_symbols=symbols)
    except Exception as e:   # the builder refused this system / configuration: nothing to judge
        skips.append("_create_odesys raised %s" % type(e).__name__)
        return []
    src = "_create_odesys:symbols-" + how
    ev = cc.observe_invariants(odesys)
    got = list(odesys.names or [])
    if ev.get("ev") != "BVectors" or "B" not in ev:
        ev["src"] = src
        return [ev]
    if sorted(map(str, got)) != sorted(map(str, names)) or any(len(row) != len(names) for row in ev["B"]):
        return [cc.bad_event("BVectors", "names=%r for substances %r, B=%r" % (got, names, ev["B"]), src=src)]
    perm = [got.index(n) for n in names]
    ev["B"] = [[row[j] for j in perm] for row in ev["B"]]
    ev["src"] = src
    return [ev]


def deep_events(rsys, sysin, exp, rng):
    """Observations on an accepted system (object route), as trace events."""
    from chempy.kinetics.ode import get_odesys
    import warnings
    names = cc.names_of(sysin)
    evs = []
    skips = []
    evs.append(cc.observe_net(rsys))
    # rates on an integer grid (before anything that may refuse the system)
    for _ in range(4):
        cvec = [rng.randint(0, 3) for _ in names]
        try:
            f = cc.observe_rates(rsys, names, cvec)
        except Exception as e:
            skips.append("rates raised %s" % type(e).__name__)
            continue
        if f is None:
            evs.append(cc.bad_event("RatesAt", "unencodable rate", c=cvec))
            continue
        evs.append({"ev": "RatesAt", "c": cvec, "f": f})
    # the same question with array-valued concentrations (several states in one call): the values
    # are mutable objects, every state must still give B.f = 0
    cvecs = [[rng.randint(0, 3) for _ in names] for _ in range(3)]
    try:
        fs = cc.observe_rates_batch(rsys, names, cvecs)
    except Exception as e:
        fs = None
        skips.append("batched rates raised %s" % type(e).__name__)
    for cvec, f in zip(cvecs, fs or []):
        evs.append({"ev": "RatesAt", "c": cvec, "f": f, "src": "array-valued"})
    try:
        with warnings.catch_warnings():
            warnings.simplefilter("ignore")
            # numeric rate constants are inlined under either setting of include_params
            odesys, extra = get_odesys(rsys, include_params=rng.random() < 0.5)
    except Exception as e:  # the ODE builder refused: not judged here, the observations so far are
        skips.append("deep observation raised %s" % type(e).__name__)
        return evs, skips
    if list(odesys.names) != names:
        raise core.MachineryFailure("odesys.names %r differ from the substances given %r" % (odesys.names, names))
    evs.append(cc.observe_invariants(odesys))
    evs += create_odesys_events(rsys, names, rng, skips)
    # analytic eliminations: all (preferred=None), each single substance, pairs
    if extra["linear_dependencies"] is not None:
        prefs = [None] + [[n] for n in names]
        pairs = [[a, b] for i, a in enumerate(names) for b in names[i + 1:]]
        rng.shuffle(pairs)
        prefs += pairs if len(names) <= 5 else pairs[:6]
        evs += lindep_events(odesys, extra, names, prefs, skips)
        # the same solver object asked twice (second answer judged), preferred given as a tuple,
        # and the elimination at a numeric initial state
        evs += lindep_events(odesys, extra, names, [None, (names[rng.randrange(len(names))],)], skips, repeat=True)
        y0 = [rng.randint(0, 5) for _ in names]
        evs += lindep_events(odesys, extra, names, [None, [names[rng.randrange(len(names))]]], skips, y0=y0)
    else:
        skips.append("no linear_dependencies offered")
    # one short integration; invariant matrix and totals are the spec's
    c0 = [rng.randint(0, 3) for _ in names]
    if not any(c0):
        c0[0] = 1
    tol = sysin["tol"]
    try:
        res = cc.integrate(odesys, names, c0, [0] + [cc.qfloat(t) for t in sysin["tout"]],
                           cc.qfloat(tol["atol"]), cc.qfloat(tol["rtol"]))
        ok = bool(res.info.get("success", False))
    except Exception as e:
        skips.append("integration raised %s" % type(e).__name__)
        return evs, skips
    if not ok:
        skips.append("integration failed")
    else:
        evs.append({"ev": "SetState", "c": c0})
        evs.append({"ev": "Integrated", "dev": cc.observe_drift(res.yout, odesys.names, names, exp["Bq"], c0),
                    "nfev": int(res.info.get("nfev", 0))})
    return evs, skips


def variant_trace(case, out):
    """One further constructor variant per case: a check configuration (balance check requested in
    another way / not requested) x a form of the substances argument, both rotating with the case.
    Without the balance check anything is constructed and check_balance / composition_violation /
    charge_neutrality_violation are asked instead."""
    sysin, exp = case["in"], case["exp"]
    h = int(sys_ident(sysin), 16)
    cfgs = sysin["cfgs"]
    cfg = cfgs[h % len(cfgs)]
    forms = [f for f in cc.FORMS if f not in cc.SORTING_FORMS or cc.seq(sysin["sortperm"])]
    form = forms[(h // 7) % len(forms)]
    rsys, obs = cc.build_variant(sysin, cfg["name"], form)
    route = "variant:%s:%s" % (cfg["name"], form)
    if form == "alias-odict":   # the trace describes the system under the keys the library was given
        alias = dict(zip(cc.names_of(sysin), sysin["aliases"]))
        sysin = dict(sysin, subs=[dict(x, name=alias[x["name"]], label=x["name"]) for x in sysin["subs"]])
    keys = exp["keys"]
    labels = cc.key_labels(sysin) if form == "string-keys" else None
    if cfg["checked"]:
        out["bad"] += compare_build(case, obs, cc.observe_bvectors(rsys, labels) if rsys is not None and form not in cc.SORTING_FORMS else
                                    ({"keys": exp["keys"], "B": exp.get("Bq")} if rsys is not None else None), route)
        tr = cc.system_events(sysin) + [cc.build_event(obs)]
    else:
        if obs["raised"]:
            out["bad"].append(dict(what="unchecked-construction", route=route, observed=obs,
                                   expected={"constructed": True}))
        tr = cc.system_events(sysin) + [{"ev": "BuildUnchecked", "raised": bool(obs["raised"]), "exc": obs["exc"]}]
    if rsys is not None:
        if form in cc.SORTING_FORMS:
            p = [int(x) for x in sysin["sortperm"]]
            if p != list(range(1, len(p) + 1)):
                tr.append({"ev": "Reorder", "p": p})
        tr.append({"ev": "Names", "names": list(rsys.substances.keys()), "src": "rsys.substances"})
        tr.append(cc.observe_bvectors(rsys, labels))
        for strict in (False, True):
            for throw in (False, True):
                e = cc.observe_check_balance(rsys, strict, throw, labels)
                tr.append(e)
                ok = (e["raised"] == (throw and not exp["accept"])) and (e["raised"] or e["result"] == exp["accept"]) \
                    and (not e["raised"] or e["exc"] == "ValueError")
                if not ok:
                    out["bad"].append(dict(what="check_balance(strict=%s, throw=%s)" % (strict, throw), route=route,
                                           observed=e, expected={"balanced": exp["accept"]}))
        for i in range(len(sysin["rxns"])):
            for karg in (True, None, list(reversed(keys))[:2]):
                e = cc.observe_violations(rsys, i, karg, known_keys=keys, labels=labels)
                if e is not None:
                    tr.append(e)
            if labels is None:     # with string keys there is no key 0 for the charge helper to read
                tr.append(cc.observe_charge_violation(rsys, i))
    tr.append({"ev": "End"})
    return (route, tr, obs)


@cc.guarded
def replay_case(item):
    case, deep, seed = item
    sysin = case["in"]
    out = {"bad": [], "traces": [], "skips": [], "error": None}
    try:
        for route, builder in (("objects", cc.build_obj), ("text", cc.build_text)):
            rsys, obs = builder(sysin)
            bv = cc.observe_bvectors(rsys) if rsys is not None else None
            out["bad"] += compare_build(case, obs, bv, route)
            tr = cc.system_events(sysin) + [cc.build_event(obs)]
            if rsys is not None and bv is not None:
                tr.append(bv)
            tr.append({"ev": "End"})
            out["traces"].append((route, tr, obs))
        out["traces"].append(variant_trace(case, out))
        if all(cc.seq(s["comp"]) for s in sysin["subs"]):
            # text without a substances argument: the used substances, formula-defined, sorted by name
            rsys, obs = cc.build_text_derived(sysin)
            if case["exp"]["accept"]:
                red = case["exp"]["red"]
                rin = dict(sysin, subs=red["subs"], rxns=red["rxns"])
                tr = cc.system_events(rin) + [cc.build_event(obs)]
                if rsys is not None:
                    p = [int(x) for x in cc.seq(red["sortperm"])]
                    if p and p != list(range(1, len(p) + 1)):
                        tr.append({"ev": "Reorder", "p": p})
                    if p:
                        tr.append({"ev": "Names", "names": list(rsys.substances.keys()), "src": "rsys.substances"})
                        bv = cc.observe_bvectors(rsys)
                        tr.append(bv)
                tr.append({"ev": "End"})
                out["traces"].append(("text-derived", tr, obs))
            else:
                out["bad"] += compare_build(case, obs, None, "text-derived")
        if deep and case["exp"]["accept"]:
            # the ODE builder needs every substance to take part in a reaction: the deeper
            # observations are made on the system restricted to its used substances (from TLC)
            red = case["exp"]["red"]
            rin = dict(sysin, subs=red["subs"], rxns=red["rxns"])
            rng = random.Random("%s-%d" % (sys_ident(sysin), seed))
            if rng.random() < 0.5:
                rsys, obs = cc.build_obj(rin)
            else:   # the same observations on the system held under alias keys, reactions written with
                    # explicit zero coefficients: rates, ODE system, eliminations, integration keyed by alias
                rsys, obs, rin = cc.build_obj_alias(rin, zeros=rng.random() < 0.5)
            tr = cc.system_events(rin) + [cc.build_event(obs)]
            if rsys is not None:
                try:
                    evs, skips = deep_events(rsys, rin, red, rng)
                except core.MachineryFailure:
                    raise
                except Exception as e:  # the ODE builder / integrator refused: not judged here
                    evs, skips = [], ["deep observation raised %s" % type(e).__name__]
                tr += evs
                out["skips"] += skips
            tr.append({"ev": "End"})
            out["traces"].append(("objects-used", tr, obs))
    except core.MachineryFailure as e:
        out["error"] = str(e)
    return out


def lindep_events(odesys, extra, names, prefs, skips, repeat=False, y0=None):
    evs = []
    for pref in prefs:
        kind, val = cc.observe_lindep(odesys, extra, pref, repeat=repeat, y0=y0)
        if kind != "forms":
            skips.append("elimination " + kind)
            continue
        for f in val:
            e = {"ev": "LinDep" if y0 is None else "LinDepAt", "pref": list(pref or [])}
            e.update(f)
            evs.append(e)
        if y0 is None:
            evs.append({"ev": "LinDepDone", "complete": pref is None})
    return evs


@cc.guarded
def replay_hist(item):
    """A history on ONE ReactionSystem object: queries (composition vectors directly, or through a
    freshly built ODE system with every single-substance elimination) interleaved with reorderings
    of its substances (sort_substances_inplace with the order chosen by TLC)."""
    case, text_route = item
    from chempy.kinetics.ode import get_odesys
    import warnings
    sysin = case["in"]
    out = {"trace": None, "skips": [], "obs": None}
    rsys, obs = (cc.build_text if text_route else cc.build_obj)(sysin)
    tr = cc.system_events(sysin) + [cc.build_event(obs)]
    out["obs"] = obs
    names = cc.names_of(sysin)
    if rsys is not None:
        for op in sysin["hist"]:
            if op["op"] == "reorder":
                p = [int(x) for x in cc.seq(op["p"])]
                new = [names[i - 1] for i in p]
                rank = {n: i for i, n in enumerate(new)}
                rsys.sort_substances_inplace(key=lambda kv: rank[kv[0]])
                names = new
                tr.append({"ev": "Reorder", "p": p})
                continue
            tr.append({"ev": "Query", "kind": op["kind"]})
            if op["kind"] == "B":
                tr.append({"ev": "Names", "names": list(rsys.substances.keys()), "src": "rsys.substances"})
                bv = cc.observe_bvectors(rsys)
                tr.append(bv)
                tr.append(cc.observe_net(rsys))
            else:
                try:
                    with warnings.catch_warnings():
                        warnings.simplefilter("ignore")
                        odesys, extra = get_odesys(rsys)
                except Exception as e:
                    out["skips"].append("deep observation raised %s" % type(e).__name__)
                    continue
                tr.append({"ev": "Names", "names": list(odesys.names), "src": "odesys.names"})
                tr.append(cc.observe_invariants(odesys))
                if extra["linear_dependencies"] is not None:
                    tr += lindep_events(odesys, extra, list(odesys.names), [None] + [[n] for n in odesys.names],
                                        out["skips"])
    tr.append({"ev": "End"})
    out["trace"] = tr
    return out


def run_hist_slice(ctx, sl, res, n_cases, titems):
    cases = [c for c in res.cases if c["exp"]["accept"]
             and len(c["exp"]["red"]["subs"]) == len(c["in"]["subs"])]   # get_odesys needs every substance used
    ctx.skip("history system with an unused substance", len(res.cases) - len(cases))
    if len(cases) < 8:
        raise core.MachineryFailure("vacuity: history slice %s has %d usable cases" % (sl, len(cases)))
    for c in cases:
        c["cls"] = "hist-%d-%s" % (len(c["in"]["hist"]), "".join(o["op"][0] + o["kind"][:1] for o in c["in"]["hist"]))
    sel = ctx.pick(cases, n_cases)
    outs = cc.pmap(replay_hist, [(c, i % 3 == 2) for i, c in enumerate(sel)])
    ctx.cases_replayed += len(sel)
    for case, out in zip(sel, outs):
        sysin = case["in"]
        if "unobservable" in out:
            unobservable(ctx, "ReactionSystem/history", sysin, out, sl)
            continue
        ctx.ran(core.stable_hash([cc.names_of(sysin), sysin["lines"], sysin["hist"]]), nontrivial=True)
        for why in out["skips"]:
            ctx.skip(why)
        titems.append(({"fn": "ReactionSystem/history", "cls": case["cls"], "lines": sysin["lines"],
                        "substances": cc.names_of(sysin), "hist": sysin["hist"], "slice": sl}, out["trace"], out["obs"]))
    if sel:
        ctx.sample({"slice": sl, "substances": cc.names_of(sel[-1]["in"]), "lines": sel[-1]["in"]["lines"],
                    "hist": sel[-1]["in"]["hist"]}, cap=8)


def unobservable(ctx, fn, sysin, out, sl, case=None):
    """TOTAL OBSERVATION: the library returned or raised something the binding layer could not even
    project - an observation that equals no expectation."""
    ctx.violation({"fn": fn, "what": "unobservable", "lines": sysin.get("lines"), "slice": sl},
                  {"direction": "spec->code", "case": case, "observed": out["unobservable"], "expected": "an observable result"})


def judge_traces(ctx, items, source):
    """items: list of (key-dict, trace, observed); TLC decides."""
    if not items:
        return
    verdicts = ctx.validate_traces("ConservationTrace", TRACE_CFG, [t for _, t, _ in items], chunk=4000)
    for (key, tr, obs), (v, pos, clause) in zip(items, verdicts):
        if v == "accept":
            continue
        ev = tr[pos - 1] if 0 < pos <= len(tr) else {}
        if clause.startswith("step:") or clause == "no-end-event":
            raise core.MachineryFailure("%s trace outside the model: %s at %d: %r" % (source, clause, pos, ev))
        k = dict(key)
        k.update({"clause": clause, "ev": ev.get("ev"), "src": ev.get("src", "")})
        ctx.violation(k, {"direction": "code->spec", "trace": tr, "observed": ev,
                          "verdict": {"verdict": v, "pos": pos, "clause": clause}, "tlc_cfg": TRACE_CFG})


def run_slice(ctx, sl, res, n_cases, n_deep, titems, n_rej_traces=None):
    cases = res.cases
    acc = [c for c in cases if c["exp"]["accept"]]
    if not acc or len(acc) == len(cases):
        raise core.MachineryFailure("vacuity: slice %s has %d accepted of %d systems" % (sl, len(acc), len(cases)))
    sel = ctx.pick(cases, n_cases, always=lambda c: c["exp"]["accept"])
    acc_sel = [c for c in sel if c["exp"]["accept"]]
    deep_ids = set(id(c) for c in ctx.pick(acc_sel, n_deep))
    outs = ctx.pmap(replay_case, [(c, id(c) in deep_ids, ctx.seed) for c in sel])
    ctx.cases_replayed += len(sel)
    rej_budget = [n_rej_traces]
    for case, out in zip(sel, outs):
        if "unobservable" in out:
            unobservable(ctx, "ReactionSystem", case["in"], out, sl, case)
            continue
        if out["error"]:
            raise core.MachineryFailure(out["error"])
        sysin = case["in"]
        ctx.ran(sys_ident(sysin), nontrivial=nontrivial(sysin))
        for why in out["skips"]:
            ctx.skip(why)
        for b in out["bad"]:
            ctx.violation({"fn": "ReactionSystem.from_string" if b["route"] == "text" else
                           ("ReactionSystem" if b["route"] == "objects" else "ReactionSystem/" + b["route"]),
                           "what": b["what"], "cls": case["cls"], "lines": sysin["lines"]},
                          {"direction": "spec->code", "case": case, "observed": b["observed"],
                           "expected": b["expected"], "tlc_cfg": "Conservation_MC_%s.cfg" % sl})
        for route, tr, obs in out["traces"]:
            if not case["exp"]["accept"] and rej_budget[0] is not None:
                if rej_budget[0] <= 0:
                    continue   # rejected systems beyond the budget are judged by the direct comparison only
                rej_budget[0] -= 1
            titems.append(({"fn": "ReactionSystem/" + route, "cls": case["cls"], "lines": sysin["lines"], "slice": sl}, tr, obs))
    ctx.counters["deep_systems"] += len(deep_ids)
    if acc_sel:
        c = acc_sel[0]
        ctx.sample({"slice": sl, "lines": c["in"]["lines"], "substances": cc.names_of(c["in"]),
                    "exp": {"accept": True, "keys": c["exp"]["keys"], "B": c["exp"]["Bq"]}}, cap=8)
    rej = [c for c in sel if not c["exp"]["accept"]]
    if rej:
        c = rej[0]
        ctx.sample({"slice": sl, "lines": c["in"]["lines"], "exp": c["exp"]}, cap=8)


# ----------------------------------------------------------------------------- seeded systems
SEED_LINES = [
    "H2O -> H+ + OH-", "2 H2 + O2 -> 2 H2O", "NH3 + H+ -> NH4+", "CO2 + H2O -> H2CO3",
    "H2CO3 -> H+ + HCO3-", "HCO3- -> H+ + CO3-2", "Fe+3 + e- -> Fe+2", "2 NO2 -> N2O4",
    "2 HNO2 -> H2O + NO + NO2", "CH4 + 2 O2 -> CO2 + 2 H2O", "2 H2O2 -> 2 H2O + O2",
    "Cl2 + 2 e- -> 2 Cl-", "H2 + Cl2 -> 2 HCl", "HCl -> H+ + Cl-", "Fe+3 + Cl- -> FeCl+2",
    "N2 + O2 -> 2 NO", "2 NO + O2 -> 2 NO2", "HNO3 -> H+ + NO3-", "2 CO + O2 -> 2 CO2",
    "NaCl -> Na+ + Cl-", "N2 + 3 H2 -> 2 NH3", "Fe+2 + H2O2 -> Fe+3 + OH + OH-",
    "O2 + e- -> O2-", "HO2 -> H+ + O2-", "Cu+2 + NH3 -> CuNH3+2", "Ag+ + Cl- -> AgCl",
    "Fe+3 + SCN- -> FeSCN+2", "2 OH -> H2O2", "H + O2 -> HO2", "H+ + e- -> H",
    "2 FeO1.5 -> Fe2O3", "4 FeO1.5 -> 4 FeO + O2", "2 Fe0.5O + O2 -> Fe + 2 O2", "CaSO4(H2O)0.5 + H2O -> CaSO4 + H3O1.5",
]
SPECTATORS = ["Ar", "K+", "SO4-2", "He", "Mg+2"]
SWAPS = {"Fe+3": "Fe+2", "Fe+2": "Fe+3", "H+": "H", "H": "H+", "O2": "O2-", "O2-": "O2", "OH-": "OH", "OH": "OH-",
         "H2O": "H2O2", "Cl-": "Cl2", "NO2": "NO", "CO2": "CO", "e-": "H+", "NH4+": "NH3", "HCO3-": "CO3-2"}


def _parse_line(line):
    lhs, rhs = line.split(" -> ")
    def side(s):
        d = {}
        for term in s.split(" + "):
            parts = term.split(" ")
            n, name = (int(parts[0]), parts[1]) if len(parts) == 2 else (1, parts[0])
            d[name] = d.get(name, 0) + n
        return d
    return side(lhs), side(rhs)


def seeded_system(rng):
    """A system of 1..5 textbook reactions, possibly reversed / scaled / perturbed in one place.
    Pure input construction: whether the result is balanced is for TLC to say."""
    nr = rng.randint(1, 5)
    lines = rng.sample(SEED_LINES, nr)
    rx = []
    for ln in lines:
        re_, pr = _parse_line(ln)
        if rng.random() < 0.3:
            re_, pr = pr, re_
        if rng.random() < 0.2:
            re_ = {k: 2 * v for k, v in re_.items()}
            pr = {k: 2 * v for k, v in pr.items()}
        rx.append([re_, pr])
    roll = rng.random()
    if roll < 0.55:  # perturb one reaction in one place
        i = rng.choice([0, len(rx) - 1, rng.randrange(len(rx))])
        sidx = rng.randrange(2)
        d = rx[i][sidx]
        name = rng.choice(sorted(d))
        mode = rng.random()
        if mode < 0.4 and name in SWAPS:
            n = d.pop(name)
            d[SWAPS[name]] = d.get(SWAPS[name], 0) + n
        elif mode < 0.8:
            d[name] += 1
        else:
            sp = rng.choice(SPECTATORS)
            d[sp] = 1
            if rng.random() < 0.5:  # spectator on both sides: still balanced
                rx[i][1 - sidx][sp] = rx[i][1 - sidx].get(sp, 0) + 1
    names = sorted({k for re_, pr in rx for k in list(re_) + list(pr)})
    for sp in SPECTATORS:
        if rng.random() < 0.15 and sp not in names:
            names.append(sp)
    rng.shuffle(names)
    return names, rx


@cc.guarded
def run_seeded(item):
    """Build a seeded system from formulas; the trace carries the compositions the library parsed."""
    names, rx, seed = item
    from chempy import Substance, Reaction, ReactionSystem
    import warnings
    with warnings.catch_warnings():
        warnings.simplefilter("ignore")
        substs = [Substance.from_formula(n) for n in names]
    subs_in = []
    for s in substs:
        fr = {}
        for k in sorted(s.composition):
            e = cc.enc_q(s.composition[k])
            if not isinstance(k, int) or e is None or e[1] > 1000:
                return None
            fr[k] = Fraction(e[0], e[1])
        den = 1
        for v in fr.values():
            den = den * v.denominator // math.gcd(den, v.denominator)
        subs_in.append({"name": s.name, "comp": [[k, int(v * den)] for k, v in fr.items() if v != 0], "den": den})
    prim = [2, 3, 5, 7, 11]
    rxns_in, rxns = [], []
    for j, (re_, pr) in enumerate(rx):
        k = prim[j]
        rxns_in.append({"reac": [re_.get(n, 0) for n in names], "prod": [pr.get(n, 0) for n in names],
                        "ireac": [0] * len(names), "iprod": [0] * len(names), "k": [k, 1]})
        rxns.append(Reaction(dict(re_), dict(pr), k))
    sysin = {"subs": subs_in, "rxns": rxns_in}
    rsys, obs = cc.observe_build(lambda: ReactionSystem(rxns, substs))
    tr = cc.system_events(sysin) + [cc.build_event(obs)]
    if rsys is not None:
        bv = cc.observe_bvectors(rsys)
        tr.append(bv)
        tr.append(cc.observe_net(rsys))
        rng = random.Random(seed)
        for _ in range(3):
            cvec = [rng.randint(0, 2) for _ in names]
            f = cc.observe_rates(rsys, names, cvec)
            if f is not None:
                tr.append({"ev": "RatesAt", "c": cvec, "f": f})
        cvecs = [[rng.randint(0, 2) for _ in names] for _ in range(3)]
        try:
            fs = cc.observe_rates_batch(rsys, names, cvecs)
        except Exception:
            fs = None
        for cvec, f in zip(cvecs, fs or []):
            tr.append({"ev": "RatesAt", "c": cvec, "f": f, "src": "array-valued"})
        # history: the substances are put in sorted order in place, then asked again
        old = list(rsys.substances.keys())
        rsys.sort_substances_inplace()
        new = list(rsys.substances.keys())
        if new != old:
            tr.append({"ev": "Reorder", "p": [old.index(n) + 1 for n in new]})
            tr.append({"ev": "Names", "names": new, "src": "rsys.substances"})
            bv = cc.observe_bvectors(rsys)
            tr.append(bv)
            tr.append(cc.observe_net(rsys))
    tr.append({"ev": "End"})
    lines = ["%s -> %s" % (sorted(a.items()), sorted(b.items())) for a, b in rx]
    return names, lines, tr, obs


def run(ctx):
    import chempy  # noqa
    titems = []
    slices = QUICK if ctx.quick else THOROUGH
    dyn = DYN_QUICK if ctx.quick else DYN_THOROUGH
    hists = HIST_QUICK if ctx.quick else HIST_THOROUGH
    jobs = [("Conservation_MC", "Conservation_MC_%s.cfg" % sl, dict(require_actions=a, require_cases=20, timeout=1500))
            for sl, a, _, _ in slices]
    jobs += [("Conservation_MC", "Conservation_MC_%s.cfg" % sl, dict(require_actions=a, require_cases=20, timeout=1500))
             for sl, a, _ in hists]
    jobs += [("Conservation_MC", "Conservation_MC_%s.cfg" % sl, dict(require_actions=a, timeout=1500)) for sl, a in dyn]
    results = cc.tlc_many(ctx, jobs, workers=6 if ctx.quick else 8)
    for (sl, actions, n_cases, n_deep), res in zip(slices, results):
        run_slice(ctx, sl, res, n_cases, n_deep, titems, n_rej_traces=None if ctx.quick else 2500)
    for (sl, actions, n_cases), res in zip(hists, results[len(slices):]):
        run_hist_slice(ctx, sl, res, n_cases, titems)
    ctx.exhaustive = not ctx.quick

    # code -> spec: seeded formula-defined systems beyond the pool
    n = 100 if ctx.quick else 2500
    items = []
    for i in range(n):
        names, rx = seeded_system(ctx.rng)
        items.append((names, rx, ctx.rng.randrange(10 ** 9)))
    outs = ctx.pmap(run_seeded, items)
    n_before = len(titems)
    raised = 0
    for o, it in zip(outs, items):
        if isinstance(o, dict) and "unobservable" in o:
            unobservable(ctx, "ReactionSystem/seeded", {"lines": [str(x) for x in it[1]], "subs": [{"name": n} for n in it[0]]},
                         o, "seeded")
            continue
        if o is None:
            ctx.skip("composition not a small rational")
            continue
        names, lines, tr, obs = o
        raised += bool(obs["raised"])
        ctx.ran(core.stable_hash([names, lines]), nontrivial=True)
        titems.append(({"fn": "ReactionSystem/seeded", "substances": names, "lines": lines, "slice": "seeded"}, tr, obs))
    if len(titems) > n_before and not (0 < raised < len(titems) - n_before) and ctx.violations:
        ctx.notes.append("seeded systems all accepted or all rejected by the library (violations already reported)")
    elif len(titems) > n_before and not (0 < raised < len(titems) - n_before):
        raise core.MachineryFailure("vacuity: seeded systems all %s" % ("rejected" if raised else "accepted"))
    ctx.counters["seeded_rejected_by_library"] = raised
    ctx.counters["seeded_accepted_by_library"] = len(titems) - n_before - raised
    if len(titems) > n_before:
        ctx.sample({"seeded_trace": titems[n_before][1]}, cap=8)
    judge_traces(ctx, titems, "C05")


def replay(ctx, rec):
    if rec.get("direction") == "spec->code":
        out = replay_case((rec["case"], False, rec.get("seed", 0)))
        for b in out["bad"]:
            ctx.violation(rec["key"], {"observed": b["observed"], "expected": b["expected"]})
    else:
        tr = rec["trace"]
        # re-observe: rebuild the system from the input events and repeat the recorded observation kinds
        subs = [{"name": e["name"], "comp": e["comp"]} for e in tr if e["ev"] == "Subst"]
        rxns = [{f: e[f] for f in ("reac", "prod", "ireac", "iprod", "k")} for e in tr if e["ev"] == "Rxn"]
        names = [s["name"] for s in subs]

        def line(r):
            def side(v, iv):
                ts = [("%d " % n if n != 1 else "") + names[i] for i, n in enumerate(v) if n]
                ts += ["(" + ("%d " % n if n != 1 else "") + names[i] + ")" for i, n in enumerate(iv) if n]
                return " + ".join(ts)
            k = cc.frac(r["k"])
            return "%s -> %s; %s" % (side(r["reac"], r["ireac"]), side(r["prod"], r["iprod"]), k)
        sysin = {"subs": subs, "rxns": rxns, "lines": [line(r) for r in rxns],
                 "tout": [[1, 100], [1, 10], [1, 1], [5, 1]],
                 "tol": {"atol": [1, 10 ** 9], "rtol": [1, 10 ** 9], "guard": 200}}
        fn = str(rec["key"].get("fn", ""))
        if fn in ("ReactionSystem/history", "ReactionSystem/seeded"):
            if fn.endswith("history"):
                sysin["hist"] = [{"op": "query", "kind": e["kind"], "p": []} if e["ev"] == "Query"
                                 else {"op": "reorder", "kind": "", "p": e["p"]}
                                 for e in tr if e["ev"] in ("Query", "Reorder")]
                new = replay_hist(({"in": sysin}, False))["trace"]
            else:
                rx = [[{names[i]: n for i, n in enumerate(r["reac"]) if n}, {names[i]: n for i, n in enumerate(r["prod"]) if n}]
                      for r in rxns]
                new = run_seeded((names, rx, 0))[2]
            v, pos, clause = ctx.validate_traces("ConservationTrace", TRACE_CFG, [new])[0]
            if v != "accept":
                ctx.violation(rec["key"], {"observed": new[pos - 1] if 0 < pos <= len(new) else {},
                                           "verdict": {"verdict": v, "pos": pos, "clause": clause}})
            return
        text_route = fn.endswith("/text")
        rsys, obs = (cc.build_text if text_route else cc.build_obj)(sysin)
        new = cc.system_events(sysin) + [cc.build_event(obs)]
        if rsys is not None:
            bv = cc.observe_bvectors(rsys)
            new.append(bv)
            if any(e["ev"] in ("LinDep", "Integrated", "NetStoich", "RatesAt") for e in tr) and not text_route:
                evs, _ = deep_events(rsys, sysin, {"Bq": bv.get("B", []) if bv else []}, random.Random(0))
                # keep the states of the recorded trace where possible
                new += evs
        new.append({"ev": "End"})
        v, pos, clause = ctx.validate_traces("ConservationTrace", TRACE_CFG, [new])[0]
        if v != "accept":
            ctx.violation(rec["key"], {"observed": new[pos - 1] if 0 < pos <= len(new) else {},
                                       "verdict": {"verdict": v, "pos": pos, "clause": clause}})


# ---- extra stage (maintainer): integration sessions (spec/Session.tla) replayed through the text
# pipeline: from_string -> admitted iff balanced -> rates -> Euler step -> totals conserved -> split.
_run_conservation = run


def run(ctx):  # noqa: F811
    _run_conservation(ctx)
    import session_stage
    session_stage.run_stage(ctx)


_replay_conservation = replay


def replay(ctx, rec):  # noqa: F811
    if rec.get("kind") == "session":
        import session_stage
        for i, what, obs, exp in session_stage.replay_session(rec["case"]):
            ctx.violation({"fn": "session:" + what}, {"step": i, "observed": obs, "expected": exp})
    else:
        _replay_conservation(ctx, rec)
