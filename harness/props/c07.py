"""C07 - equilibrium residual formulations vanish exactly at, and only at, true equilibria.

spec/Equilibria.tla (+ EqPool, Equilibria_MC slices, EquilibriaTrace).  Directions:
  spec -> code : every terminal state of each exhaustive slice is a case, constructed backwards
                 by TLC with exact rationals (ceq on a grid, K := Q(ceq), cinit = ceq - xi*nu, an
                 optional perturbation, a formulation); the real NumSys*.f is evaluated symbolically
                 at the internal variables denoting the state and classified zero / non-zero with
                 the thresholds carried by the case; len(f), equilibrium_quotients and
                 composition_conservation are compared exactly with TLC's values.
  code -> spec : seeded systems beyond the bounds (up to 4 reactions of the pool, quarter grid,
                 signed extents) are evaluated the same way and TLC (EquilibriaTrace) replays the
                 construction, defines K itself and judges the observation.
"""
import collections
from fractions import Fraction

import core
import eq_common as ec

LEVEL = "model_checking"
RULE = ("cases = terminal states of the sliced exhaustive Equilibria_MC configs (TLC) + seeded "
        "constructions validated by EquilibriaTrace; one evaluation = one residual formulation "
        "(NumSys x rref_equil x rref_preserv) at one (system, state, initial state); distinct = "
        "distinct (system, constants, state, initial state, formulation); non-trivial = at least two "
        "species and K not all 1")
ASSUMPTIONS = [
    "species carry the explicit abstract compositions of spec/EqPool.tla (names are labels)",
    "zero-ness of a symbolic residual is decided by 50 digit evaluation: zero <=> all |f_i| < 1e-10, "
    "non-zero <=> some |f_i| > 1e-6; TLC invariant PerturbationIsLarge shows every perturbed case misses "
    "a quotient by >= 1e-2 (relative) or a total by >= 1e-2",
    "internal variables: c, ln c, sqrt c for Lin/Log/Square; the formulation's own pre_processor for "
    "LinRel/LinTanh; in every case its own post_processor must map them back to the state (1e-9)",
    "floats returned by composition_conservation are encoded as rationals p/q (q <= 10^6, residual <= 1e-12)",
]

QUICK = ["single_q", "sys_q", "hist_q", "opts_q", "trace_q"]   # cfgs: thorough only (traces draw all 20 formulations)
THOROUGH = ["single_t", "cfgs_t", "sys_t", "hist_t", "opts_t", "trace_t"]
ACTIONS = ["GenSystem", "SetExtent", "GenNoPerturb", "GenBreakQuotient", "GenScale",
           "GenBreakConservation", "GenResidual"]
ROUNDTRIP_TOL = 1e-9


# ------------------------------------------------------------------ observation
def evaluations_of(inp):
    """the evaluations made on one residual object: earlier ones (history) and the current one"""
    n, r = len(inp["species"]), len(inp["nu"])
    evs = [dict(K=h["K"], c=h["c"], c0=h["c0"], pert=h["pert"], ceq=h.get("ceq", h["c"]),
                dexp=h.get("dexp") or [0] * n, Kexp=h.get("Kexp") or [0] * r) for h in inp.get("hist", [])]
    evs.append(dict(K=inp["K"], c=inp["c"], c0=inp["c0"], pert=inp["pert"], ceq=inp.get("ceq", inp["c"]),
                    dexp=inp.get("dexp") or [0] * n, Kexp=inp.get("Kexp") or [0] * r))
    return evs


DEFAULT_OPT = ["sympy", True, "asc", "comp", "net"]


def _backend(name):
    import math
    import numpy
    import sympy
    return {"sympy": sympy, "numpy": numpy, "math": math}[name]


def _blank_obs():
    return {"raised": False, "exc": "", "unrepresentable": False, "len": -1, "cls": "", "max": None,
            "roundtrip": None, "q": [], "keys": [], "totc": [], "tot0": [], "totcT": [], "tot0T": [],
            "qarr": [], "totd": [], "scA": [], "scK": [], "eqc": [], "eqcs": [], "eqcp": [], "mut": []}


def _mant(x, e):
    """projection of an exact number x onto the mantissa of x = m * 10^e -> [n, d] or None"""
    try:
        return ec.rat_pair(Fraction(x) / Fraction(10) ** e) if isinstance(x, (int, Fraction)) else \
            ec.rat_pair(x / (10 ** __import__("sympy").Integer(e)))
    except Exception:
        return None


def _fmant(x, e):
    """projection of a float x onto the mantissa of x = m * 10^e -> [n, d] or None"""
    try:
        return ec.float_rat_pair(float(x) / 10.0 ** e)
    except Exception:
        return None


def _split_total(x, texp, has_trace):
    """a float total -> (macro part, trace mantissa): x = M + T * 10^texp with small rationals M, T"""
    try:
        x = float(x)
        if not has_trace:
            return ec.float_rat_pair(x), [0, 1]
        import math
        if not math.isfinite(x):
            return None, None
        m = Fraction(x).limit_denominator(10000)
        t = (Fraction(x) - m) / Fraction(10) ** texp
        tf = Fraction(t).limit_denominator(10000)
        if abs(float(t) - float(tf)) > 1e-3 or abs(tf) > 10 ** 6:
            return ec.rat_pair(m), None
        return ec.rat_pair(m), ec.rat_pair(tf)
    except Exception:
        return None, None


def observe_all(inp, tolz, tolnz):
    """Evaluate the real code on one constructed input: ONE EqSystem (built with the constants of the
    first evaluation), ONE NumSys object, evaluated once per entry of evaluations_of(inp) with that
    entry's parameters.  Options (inp['opt']): backend sympy (exact rationals) / numpy / math (floats);
    constants passed in params or taken from the system; species order; species by composition or
    by formula; written form.  Concentrations are mantissa * 10^dexp_j, constants mantissa * 10^Kexp_i.
    Returns one observation per evaluation (per-species vectors in the order of the case).  Whatever
    the code under test does (exception of any class, odd return types) ends in an observation."""
    import numpy as np
    import sympy
    bk, nep, order, spf, wf = inp.get("opt", DEFAULT_OPT)
    exact = bk == "sympy"
    evs = evaluations_of(inp)
    rev = (lambda v: v[::-1]) if order == "rev" else (lambda v: list(v))
    n_sp = len(inp["species"])
    texp = int(inp.get("texp", -9))

    def values(pairs, exps):   # exact sympy numbers mantissa * 10^e, case order
        return [ec.srat(p) * sympy.Integer(10) ** int(e) for p, e in zip(pairs, exps)]

    def num(v):
        return v if exact else float(v)

    es = ns = None
    build_exc = None
    try:
        species = rev(inp["species"])
        nu = [rev(row) for row in inp["nu"]]
        written = None
        if wf != "net":
            wi, wj, wm = inp["written"]          # 1-based reaction, species position in case order, amount
            written = {"kind": wf, "i": wi - 1, "j": (n_sp - wj) if order == "rev" else wj - 1, "m": wm}
        k0 = values(evs[0]["K"], evs[0]["Kexp"])
        es, names = ec.build_system(species, nu, [num(k) for k in k0], spform=spf, written=written)
        ns = ec.numsys_class(inp["ns"])(es, backend=_backend(bk), rref_equil=bool(inp["re"]),
                                        rref_preserv=bool(inp["rp"]), new_eq_params=bool(nep))
        # history: ANOTHER residual object of the same system (other formulation, other flags) lives and is
        # used in the same process before the object under test is evaluated
        try:
            c_first = [float(v) for v in values(evs[0]["c"], evs[0]["dexp"])]
            other = ec.numsys_class("Log" if inp["ns"] != "Log" else "Lin")(
                es, backend=sympy, rref_equil=not bool(inp["re"]), rref_preserv=not bool(inp["rp"]))
            other.f([sympy.Float(1.0)] * n_sp, [sympy.Float(v) for v in rev(c_first)] + [sympy.Float(float(k)) for k in k0])
        except Exception:
            pass
    except Exception as ex:
        build_exc = ex
    out = []
    for ev in evs:
        obs = _blank_obs()
        dexp, kexp = ev["dexp"], ev["Kexp"]
        has_trace = any(int(e) != 0 for e in dexp)
        try:
            if build_exc is not None:
                raise build_exc
            xc, xc0, xk = values(ev["c"], dexp), values(ev["c0"], dexp), values(ev["K"], kexp)
            consts = [num(k) for k in xk]
            if not nep:      # own constants: reassign them on the system's equilibria, then call
                for rxn, k in zip(es.rxns, consts):
                    rxn.param = k
            c = rev([num(v) for v in xc])
            c0 = rev([num(v) for v in xc0])
            params = c0 + (consts if nep else [])
            fparams = [float(p) for p in c0] + [float(k) for k in consts]
            y = ec.internal_state(ns, inp["ns"], rev(xc), fparams)
            if y is None:
                obs["unrepresentable"] = True
            else:
                if not exact:
                    y = [float(sympy.N(v, 17)) for v in y]
                obs["roundtrip"] = ec.roundtrip_error(ns, y, c, fparams)
                if ns.pre_processor is not None:   # the formulation's own pre_processor must denote the state too
                    y2, _ = ns.pre_processor(np.array([float(v) for v in c]), np.array(fparams))
                    if all(np.isfinite(y2)):
                        obs["roundtrip"] = max(obs["roundtrip"], ec.roundtrip_error(ns, list(y2), c, fparams))
                if bk == "numpy":          # array arguments
                    y, params = np.array(y, dtype=float), np.array(params, dtype=float)
                y_before, p_before = [v for v in y], [v for v in params]
                f = ns.f(y, params)
                # frame: a call modifies none of its arguments
                if len(y) != len(y_before) or any(a != b for a, b in zip(y, y_before)):
                    obs["mut"].append("y")
                if len(params) != len(p_before) or any(a != b for a, b in zip(params, p_before)):
                    obs["mut"].append("params")
                obs["len"] = len(f)
                obs["cls"], obs["max"] = ec.classify_residual(f, tolz, tolnz)
        except Exception as ex:  # projected: exception -> class name
            obs["raised"] = True
            obs["exc"] = type(ex).__name__
            obs["msg"] = str(ex)[:160]
        try:
            if build_exc is not None:
                raise build_exc
            P10 = [Fraction(10) ** int(e) for e in dexp]
            fc = rev([Fraction(int(v[0]), int(v[1])) * p for v, p in zip(ev["c"], P10)])
            f0 = rev([Fraction(int(v[0]), int(v[1])) * p for v, p in zip(ev["c0"], P10)])
            feq = rev([Fraction(int(v[0]), int(v[1])) * p for v, p in zip(ev.get("ceq", ev["c"]), P10)])
            obs["q"] = [_mant(q, int(e)) for q, e in zip(es.equilibrium_quotients(fc), kexp)]
            keys, totc, tot0 = es.composition_conservation(fc, f0)
            obs["keys"] = [int(k) for k in keys]
            sc = [_split_total(v, texp, has_trace) for v in totc]
            s0 = [_split_total(v, texp, has_trace) for v in tot0]
            obs["totc"], obs["totcT"] = [a for a, _ in sc], [b for _, b in sc]
            obs["tot0"], obs["tot0T"] = [a for a, _ in s0], [b for _, b in s0]
            # argument forms: two float states stacked in a 2-d array; dicts keyed by substance name
            q2 = es.equilibrium_quotients(np.array([[float(v) for v in fc], [float(v) for v in feq]]))
            obs["qarr"] = [[_fmant(q[0], int(e)) for q, e in zip(q2, kexp)],
                           [_fmant(q[1], int(e)) for q, e in zip(q2, kexp)]]
            _, td, t0d = es.composition_conservation(dict(zip(names, [float(v) for v in fc])),
                                                     dict(zip(names, [float(v) for v in f0])))
            obs["totd"] = [[_split_total(v, texp, has_trace)[0] for v in td],
                           [_split_total(v, texp, has_trace)[0] for v in t0d]]
            # the un-reduced (A, ks) and the system's own constants
            A, ks = es.stoichs_constants(eq_params=values(ev["K"], kexp), rref=False, backend=sympy)
            obs["scA"] = [rev([int(v) for v in row]) for row in np.asarray(A).tolist()]
            obs["scK"] = [_mant(k, int(e)) for k, e in zip(ks, kexp)]
            kx = kexp if not nep else evs[0]["Kexp"]
            proj = _mant if exact else _fmant
            obs["eqc"] = [proj(k, int(e)) for k, e in zip(es.eq_constants(), kx)]
            obs["eqcs"] = [proj(k, int(e)) for k, e in zip(es.eq_constants(small=1e-30), kx)]
            obs["eqcp"] = [_mant(k, int(e)) for k, e in zip(es.eq_constants(eq_params=values(ev["K"], kexp)), kexp)]
            a2 = np.array([[float(v) for v in fc], [float(v) for v in feq]])
            a2_before = a2.copy()
            es.equilibrium_quotients(a2)
            if not np.array_equal(a2, a2_before):
                obs["mut"].append("concs")
        except Exception as ex:
            obs["helpers_raised"] = type(ex).__name__ + ": " + str(ex)[:120]
        out.append(obs)
    return out


def observe(inp, tolz, tolnz):
    return observe_all(inp, tolz, tolnz)[-1]


def disagreements(inp, exp, obs, nth=0, pert=None):
    """spec -> code comparison of evaluation number nth of one object; every expected value is TLC's."""
    fn = "NumSys%s.f" % inp["ns"]
    cfg = {"re": bool(inp["re"]), "rp": bool(inp["rp"])}
    opt = inp.get("opt", DEFAULT_OPT)
    if list(opt) != DEFAULT_OPT:
        cfg["backend"] = opt[0]
        cfg["consts"] = "params" if opt[1] else "ownK"
        cfg["opt"] = "%s/%s/%s/%s/%s" % (opt[0], "params" if opt[1] else "ownK", opt[2], opt[3], opt[4])
    evs_ = evaluations_of(inp)
    if any(int(e) != 0 for e in evs_[min(nth, len(evs_) - 1)]["dexp"]):
        cfg["scale"] = "trace"
    if nth > 0:
        cfg["reused"] = True   # the object had been evaluated before with other parameters
    pert = pert or inp["pert"]
    bad = []
    if obs["unrepresentable"]:
        return bad
    if obs["raised"]:
        bad.append(dict(fn=fn, what="raises", exc=obs["exc"], **cfg))
    else:
        if obs["roundtrip"] is not None and obs["roundtrip"] > ROUNDTRIP_TOL:
            bad.append(dict(fn=fn, what="transform-roundtrip", **cfg))
        if obs["len"] != exp["neq"]:
            bad.append(dict(fn=fn, what="len", **cfg))
        want = "zero" if exp["zero"] else "nonzero"
        if obs["cls"] != want:
            bad.append(dict(fn=fn, what=want + "-expected", pert=pert["kind"], **cfg))
    if "helpers_raised" in obs:
        bad.append(dict(fn="equilibrium_quotients/composition_conservation", what="raises"))
    else:
        if obs["q"] != exp["q"]:
            bad.append(dict(fn="equilibrium_quotients", what="value"))
        if obs["keys"] != exp["keys"] or obs["totc"] != exp["totc"] or obs["tot0"] != exp["tot0"]:
            bad.append(dict(fn="composition_conservation", what="value"))
        elif "totcT" in exp and (obs["totcT"] != exp["totcT"] or obs["tot0T"] != exp["tot0T"]):
            bad.append(dict(fn="composition_conservation", what="value-trace-scale"))
        if "qceq" in exp:   # argument forms (judged for the current evaluation)
            if obs["qarr"] != [exp["q"], exp["qceq"]]:
                bad.append(dict(fn="equilibrium_quotients", what="value-2d-array"))
            if obs["totd"] != [exp["totc"], exp["tot0"]]:
                bad.append(dict(fn="composition_conservation", what="value-dict"))
            if obs["scA"] != inp["nu"] or obs["scK"] != inp["K"]:
                bad.append(dict(fn="stoichs_constants", what="value"))
            if obs["eqc"] != exp["sysK"]:
                bad.append(dict(fn="eq_constants", what="value"))
            if obs["eqcs"] != exp["sysK"]:
                bad.append(dict(fn="eq_constants", what="value-with-small"))
            if obs["eqcp"] != inp["K"]:
                bad.append(dict(fn="eq_constants", what="value-eq_params"))
            if obs["mut"]:
                bad.append(dict(fn=fn, what="argument-modified", **cfg))
    return bad


def replay_case(case):
    inp, exp = case["in"], case["exp"]
    inp = dict(inp, texp=exp.get("texp", TRACE_EXP))
    allobs = observe_all(inp, exp["tolz"], exp["tolnz"])
    bad = []
    for nth, (h, o) in enumerate(zip(inp.get("hist", []), allobs)):
        hexp = dict(zero=h["zero"], neq=exp["neq"], q=h["q"], keys=exp["keys"], totc=h["totc"], tot0=h["tot0"],
                    totcT=h["totcT"], tot0T=h["tot0T"])
        bad += disagreements(inp, hexp, o, nth=nth, pert=h["pert"])
    bad += disagreements(inp, exp, allobs[-1], nth=len(allobs) - 1)
    obs = allobs[-1]
    if len(allobs) > 1:
        obs = dict(obs)
        obs["earlier"] = [{k: o[k] for k in ("cls", "len", "max", "raised")} for o in allobs[:-1]]
    return obs, bad


def _expected_view(exp):
    return {k: exp[k] for k in ("zero", "ateq", "keeps", "neq", "q", "keys", "totc", "tot0", "qceq", "sysK") if k in exp}


def _nontrivial(inp):
    return len(inp["species"]) >= 2 and any(list(k) != [1, 1] for k in inp["K"])


def _ident(inp):
    return [inp["nu"], inp["K"], inp["c"], inp["c0"], inp["ns"], inp["re"], inp["rp"], inp.get("opt"),
            [s["name"] for s in inp["species"]], [[h["K"], h["c"], h["c0"]] for h in inp.get("hist", [])]]


# ------------------------------------------------------------------ code -> spec generator
QUARTERS = [Fraction(n, 4) for n in range(1, 13)]
EXTENTS = [Fraction(n, 4) for n in range(-4, 5)]
DELTAS = [Fraction(1, 8), Fraction(-1, 8), Fraction(1, 4), Fraction(-1, 4)]
FACTORS = [Fraction(2), Fraction(1, 2), Fraction(3, 2), Fraction(3)]
SHIFTS = [Fraction(1, 8), Fraction(-1, 8), Fraction(1, 4), Fraction(-1, 4), Fraction(1, 2)]
FLAGS = [(False, False), (False, True), (True, False), (True, True)]


def _pair(fr):
    return [fr.numerator, fr.denominator]


class Pool(object):
    """reactions of the pool as the specification emitted them (single-reaction cases)"""

    def __init__(self, cases):
        self.rx = {}
        for cs in cases:
            i = cs["in"]
            if len(i["rids"]) == 1 and i["rids"][0] not in self.rx:
                self.rx[i["rids"][0]] = (i["sidx"], i["species"], i["nu"][0])
        self.species = {}
        for sidx, sps, _ in self.rx.values():
            for k, sp in zip(sidx, sps):
                self.species[k] = sp

    def system(self, rids):
        rids = sorted(rids)
        sidx = sorted({k for r in rids for k in self.rx[r][0]})
        nu = []
        for r in rids:
            row = [0] * len(sidx)
            for k, v in zip(self.rx[r][0], self.rx[r][2]):
                row[sidx.index(k)] = v
            nu.append(row)
        return rids, [self.species[k] for k in sidx], nu


TRACE_EXP = -9


def _gen_eval(rng, nu, n):
    """one (ceq, xi, c0, c, pert) construction for a system, or None when inadmissible; now and then
    with some species on the trace scale (then no extents, shifts only of macro species)"""
    ceq = [rng.choice(QUARTERS) for _ in range(n)]
    trace = sorted(rng.sample(range(n), rng.randint(1, min(2, n)))) if rng.random() < 0.25 else []
    if trace:
        c, c0 = list(ceq), list(ceq)
        kind = rng.choice(["none", "none", "scale", "shift0"])
        pert = {"kind": "none", "i": 0, "a": [0, 1]}
        if kind == "scale":
            j, f = rng.randrange(n), rng.choice(FACTORS)
            c[j] = ceq[j] * f
            pert = {"kind": kind, "i": j + 1, "a": _pair(f)}
        elif kind == "shift0":
            macro = [j for j in range(n) if j not in trace]
            if not macro:
                return None
            j, d = rng.choice(macro), rng.choice(SHIFTS)
            if c0[j] + d < 0:
                return None
            c0[j] = c0[j] + d
            pert = {"kind": kind, "i": j + 1, "a": _pair(d)}
        return dict(ceq=ceq, xi=[Fraction(0)] * len(nu), c0=c0, c=c, pert=pert, trace=[j + 1 for j in trace])
    xi = [rng.choice(EXTENTS) if rng.random() < 0.7 else Fraction(0) for _ in nu]
    c0 = [ceq[j] - sum(x * row[j] for x, row in zip(xi, nu)) for j in range(n)]
    if min(c0) < 0:
        return None
    kind = rng.choice(["none", "none", "extent", "scale", "shift0"])
    c, pert = list(ceq), {"kind": "none", "i": 0, "a": [0, 1]}
    if kind == "extent":
        i, d = rng.randrange(len(nu)), rng.choice(DELTAS)
        c = [ceq[j] + d * nu[i][j] for j in range(n)]
        if min(c) <= 0:
            return None
        pert = {"kind": kind, "i": i + 1, "a": _pair(d)}
    elif kind == "scale":
        j, f = rng.randrange(n), rng.choice(FACTORS)
        c[j] = ceq[j] * f
        pert = {"kind": kind, "i": j + 1, "a": _pair(f)}
    elif kind == "shift0":
        j, d = rng.randrange(n), rng.choice(SHIFTS)
        if c0[j] + d < 0:
            return None
        c0[j] = c0[j] + d
        pert = {"kind": kind, "i": j + 1, "a": _pair(d)}
    return dict(ceq=ceq, xi=xi, c0=c0, c=c, pert=pert, trace=[])


def gen_trace(pool, rng, max_rxns):
    """One seeded construction (inputs only; K and every expectation are left to TLC): a system, a
    formulation and one to three evaluations of the same residual object."""
    for _ in range(200):
        rids = rng.sample(sorted(pool.rx), rng.randint(1, max_rxns))
        rids, species, nu = pool.system(rids)
        opt = rng.choice(OPTIONS) if rng.random() < 0.6 else list(DEFAULT_OPT)
        # other constants can only be handed to a re-used object when they travel in params
        evs = [_gen_eval(rng, nu, len(species)) for _ in range(rng.choice([1, 1, 2, 2, 3]))]
        if any(e is None for e in evs):
            continue
        re_, rp = rng.choice(FLAGS)
        wr = [0, 0, 0]
        if opt[4] != "net":   # any reaction, any species of the system, amount 1..3 on both sides
            wr = [rng.randint(1, len(rids)), rng.randint(1, len(species)), rng.randint(1, 3)]
        # the tanh variable cannot resolve a 1e-9 concentration in double precision: not on the trace scale
        pool_ns = [n for n in ec.NUMSYS if n != "LinTanh"] if any(e["trace"] for e in evs) else list(ec.NUMSYS)
        return dict(rids=rids, species=species, nu=nu, evals=evs, ns=rng.choice(pool_ns), re=re_, rp=rp, opt=opt,
                    written=wr)
    raise core.MachineryFailure("C07 generator: no admissible construction found")


def _k_of(nu, ceq):
    """K := Q(ceq) - needed only to hand the constants to the code as parameters; TLC recomputes it and
    judges with its own value (the trace does not contain K)."""
    ks = []
    for row in nu:
        q = Fraction(1)
        for v, cj in zip(row, ceq):
            if v:
                q *= cj ** v
        ks.append(_pair(q))
    return ks


def _enc(v):
    """un-encodable observation (None) -> [0, 0], which is no rational and equals nothing TLC expects"""
    if v is None:
        return [0, 0]
    if isinstance(v, list):
        return [_enc(t) for t in v]
    return v


OBS_FIELDS = ("raised", "len", "cls", "q", "keys", "totc", "tot0", "totcT", "tot0T", "qarr", "totd", "scA", "scK", "eqc",
              "eqcs", "eqcp", "mut")
OPTIONS = [[b, n, o, f, w] for b in ("sympy", "numpy", "math") for n in (True, False) for o in ("asc", "rev")
           for f in ("comp", "formula", "alias") for w in ("net", "net", "self", "other", "inact")]


def run_trace(g):
    n_sp = len(g["species"])
    recs = []
    for e in g["evals"]:
        dexp = [TRACE_EXP if (j + 1) in e["trace"] else 0 for j in range(n_sp)]
        recs.append(dict(K=_k_of(g["nu"], e["ceq"]), c=[_pair(v) for v in e["c"]], c0=[_pair(v) for v in e["c0"]],
                         pert=e["pert"], ceq=[_pair(v) for v in e["ceq"]], dexp=dexp,
                         Kexp=[sum(v * d for v, d in zip(row, dexp)) for row in g["nu"]]))
    inp = dict(species=g["species"], nu=g["nu"], ns=g["ns"], re=g["re"], rp=g["rp"], opt=g["opt"], hist=recs[:-1],
               written=g["written"], texp=TRACE_EXP, **recs[-1])
    allobs = observe_all(inp, 10, 6)
    tr = [{"ev": "sys", "rs": g["rids"]}]
    for n, (e, obs) in enumerate(zip(g["evals"], allobs)):
        if n:
            tr.append({"ev": "again"})
        tr += [{"ev": "conc", "v": _pair(v)} for v in e["ceq"]]
        if e["trace"]:
            tr.append({"ev": "trace", "T": e["trace"]})
        tr += [{"ev": "extent", "x": _pair(x)} for x in e["xi"]]
        p = dict(e["pert"])
        p["ev"] = "pert"
        tr.append(p)
        tr.append({"ev": "result", "ns": g["ns"], "re": g["re"], "rp": g["rp"], "opt": g["opt"], "wr": g["written"],
                   "obs": {k: _enc(obs[k]) for k in OBS_FIELDS}})
    obs = dict(allobs[-1])
    obs["unrepresentable"] = any(o["unrepresentable"] for o in allobs)
    obs["all"] = [{k: o[k] for k in ("cls", "len", "max", "raised", "exc")} for o in allobs]
    return tr, obs, inp


CLAUSE_WHAT = {"raises": "raises", "len": "len", "zero-expected": "zero-expected",
               "nonzero-expected": "nonzero-expected"}


def _trace_key(inp, obs, clause, nth=0):
    if clause in CLAUSE_WHAT:
        key = dict(fn="NumSys%s.f" % inp["ns"], what=CLAUSE_WHAT[clause], re=bool(inp["re"]), rp=bool(inp["rp"]))
        opt = inp.get("opt", DEFAULT_OPT)
        if list(opt) != DEFAULT_OPT:
            key["backend"] = opt[0]
            key["consts"] = "params" if opt[1] else "ownK"
            key["opt"] = "%s/%s/%s/%s/%s" % (opt[0], "params" if opt[1] else "ownK", opt[2], opt[3], opt[4])
        evs_ = evaluations_of(inp)
        if any(int(e) != 0 for e in evs_[min(nth, len(evs_) - 1)]["dexp"]):
            key["scale"] = "trace"
        if nth > 0:
            key["reused"] = True
        if clause == "raises":
            key["exc"] = obs["all"][nth]["exc"] if "all" in obs else obs["exc"]
        if clause.endswith("expected"):
            key["pert"] = evaluations_of(inp)[min(nth, len(evaluations_of(inp)) - 1)]["pert"]["kind"]
        return key
    fn = {"quotients": "equilibrium_quotients", "quotients-2d": "equilibrium_quotients", "totals": "composition_conservation",
          "totals-dict": "composition_conservation", "stoichs-constants": "stoichs_constants/eq_constants"}.get(clause, clause)
    return dict(fn=fn, what="value" if clause in ("quotients", "totals") else clause)


# ------------------------------------------------------------------ run
def run(ctx):
    slices = QUICK if ctx.quick else THOROUGH
    per_slice = 800 if ctx.quick else 25000
    pool_cases = None
    for sl in slices:
        history = sl.startswith("hist")
        few_kinds = history or sl.startswith("opts") or sl == "sys_q"

        acts = [a for a in ACTIONS if not few_kinds or a in ("GenSystem", "GenNoPerturb", "GenBreakQuotient", "Residual")]
        if sl == "hist_q":
            acts = ["GenSystem", "GenNoPerturb"]
        res = ctx.tlc("Equilibria_MC", "Equilibria_MC_%s.cfg" % sl,
                      require_actions=(acts + (["Again"] if history else [])) if sl == "hist_q" else (),
                      require_cases=800, timeout=1500)
        # TLC prints cases in worker order: sort, so that the seed alone determines the sample
        cases = sorted(res.cases, key=lambda c: core.stable_hash(c["in"]))
        if pool_cases is None:
            pool_cases = cases
        kinds = collections.Counter(c["in"]["pert"]["kind"] for c in cases)
        if sl == "sys_q" and len({c["in"]["opt"][4] for c in cases}) < 4:
            raise core.MachineryFailure("vacuity: written forms missing in slice %s" % sl)
        if sl.startswith("single"):
            zeros = sum(1 for c in cases if any(int(v[0]) == 0 for v in c["in"]["c0"]))
            ctx.counters["cases_with_a_zero_initial_concentration"] += zeros
            if zeros < 100:
                raise core.MachineryFailure("vacuity: %d cases with an exactly zero initial concentration in %s" % (zeros, sl))
        if sl.startswith("trace"):
            tiny = sum(1 for c in cases if min(c["in"]["Kexp"]) <= -18 and not c["in"]["opt"][1])
            ctx.counters["trace_scale_cases_ownK_K_below_1e-17"] += tiny
            if tiny < 100:
                raise core.MachineryFailure("vacuity: %d trace-scale cases with tiny own constants in %s" % (tiny, sl))
        if sl.startswith("opts"):
            seen_opts = {tuple(c["in"]["opt"]) for c in cases}
            if len(seen_opts) < 20 or len({o[4] for o in seen_opts}) < 4 or len({o[3] for o in seen_opts}) < 3:
                raise core.MachineryFailure("vacuity: only %d option bundles in slice %s" % (len(seen_opts), sl))
        for k in (("none", "scale", "shift0") if sl.startswith("trace") else ("none",) if sl == "hist_q" else ("none", "extent") if few_kinds
                  else ("none", "extent", "scale", "shift0")):
            if not kinds[k]:
                raise core.MachineryFailure("vacuity: no %s case in slice %s" % (k, sl))
        if history:
            # a history case is only informative when the object is re-used with OTHER constants
            differ = sum(1 for c in cases if c["in"]["hist"] and c["in"]["hist"][0]["K"] != c["in"]["K"])
            ctx.counters["history_cases_with_changed_K"] += differ
            if differ < 100:
                raise core.MachineryFailure("vacuity: %d history cases with changed constants in %s" % (differ, sl))
        sel = ctx.pick(cases, per_slice)
        outs = ctx.pmap(replay_case, sel)
        ctx.cases_replayed += len(sel)
        ctx.counters["cases_generated"] += len(cases)
        for case, (obs, bad) in zip(sel, outs):
            if obs["unrepresentable"]:
                ctx.skip("state-outside-variable-range-of-" + case["in"]["ns"])
                continue
            ctx.ran(_ident(case["in"]), nontrivial=_nontrivial(case["in"]))
            ctx.counters["expected_" + ("zero" if case["exp"]["zero"] else "nonzero")] += 1
            for key in bad:
                ctx.violation(key, {"direction": "spec->code", "case": case, "observed": obs,
                                    "expected": _expected_view(case["exp"]),
                                    "tlc_cfg": "Equilibria_MC_%s.cfg" % sl})
        if sel:
            c0 = sel[0]
            ctx.sample({"slice": sl, "cls": c0["cls"], "species": [s["name"] for s in c0["in"]["species"]],
                        "K": c0["in"]["K"], "c": c0["in"]["c"], "c0": c0["in"]["c0"],
                        "exp": {"zero": c0["exp"]["zero"], "neq": c0["exp"]["neq"]}}, cap=8)
    ctx.exhaustive = False  # TLC enumerates every slice completely; replay is a stratified sample of it

    # ---- code -> spec: seeded constructions beyond the bounds, judged by TLC
    pool = Pool(pool_cases)
    if len(pool.rx) < 8:
        raise core.MachineryFailure("pool reconstruction from single-reaction cases found %d reactions" % len(pool.rx))
    n = 800 if ctx.quick else 7000
    gens = [gen_trace(pool, ctx.rng, 4) for _ in range(n)]
    outs = ctx.pmap(run_trace, gens)
    for o in outs:
        if o[1]["unrepresentable"]:
            ctx.skip("state-outside-variable-range-of-" + o[2]["ns"])
    outs = [o for o in outs if not o[1]["unrepresentable"]]
    traces = [o[0] for o in outs]
    verdicts = ctx.validate_traces("EquilibriaTrace", "EquilibriaTrace.cfg", traces, chunk=3000)
    outside = 0
    for (tr, obs, inp), (v, pos, clause) in zip(outs, verdicts):
        if v == "accept":
            ctx.ran(_ident(inp), nontrivial=_nontrivial(inp))
            continue
        if clause == "step:sys":
            # a linearly dependent subset of the pool: outside the model (guard of ChooseSystem)
            ctx.skip("dependent-reaction-subset")
            outside += 1
            continue
        if clause.startswith("step:") or clause in ("notready", "no-result-event"):
            raise core.MachineryFailure("generated trace outside the model: %s at %d: %r" % (clause, pos, tr[:3]))
        ctx.ran(_ident(inp), nontrivial=_nontrivial(inp))
        nth = sum(1 for e in tr[:pos] if e["ev"] == "again")
        ctx.violation(_trace_key(inp, obs, clause, nth),
                      {"direction": "code->spec", "trace": tr, "observed": obs, "input": inp,
                       "verdict": {"verdict": v, "pos": pos, "clause": clause}, "tlc_cfg": "EquilibriaTrace.cfg"})
    if outside > 0.5 * len(traces):
        raise core.MachineryFailure("more than half of the generated systems were outside the model")
    if traces:
        ctx.sample({"trace": traces[0]}, cap=8)


def replay(ctx, rec):
    if rec.get("direction") == "spec->code":
        obs, bad = replay_case(rec["case"])
        if obs["unrepresentable"]:
            ctx.skip("state-outside-variable-range-of-" + rec["case"]["in"]["ns"])
            return
        for key in bad:
            if key == rec["key"] or len(bad) == 1:
                ctx.violation(rec["key"], {"observed": obs, "expected": _expected_view(rec["case"]["exp"])})
                break
    else:
        inp = rec["input"]
        allobs = observe_all(inp, 10, 6)
        if any(o["unrepresentable"] for o in allobs):
            ctx.skip("state-outside-variable-range-of-" + inp["ns"])
            return
        tr, k = [], 0
        for e in rec["trace"]:
            e = dict(e)
            if e["ev"] == "result":
                e["obs"] = {f: _enc(allobs[k][f]) for f in OBS_FIELDS}
                k += 1
            tr.append(e)
        v, pos, clause = ctx.validate_traces("EquilibriaTrace", "EquilibriaTrace.cfg", [tr])[0]
        if v != "accept":
            ctx.violation(rec["key"], {"observed": allobs[-1], "verdict": {"verdict": v, "pos": pos, "clause": clause}})
