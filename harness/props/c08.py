"""C08 - reported equilibrium compositions are genuine whenever the solver claims success.

spec/EqSolve.tla (+ EqPool, EqSolve_MC, EqSolveTrace).  Level: exploration (conditional soundness
by trace validation).
  * TLC enumerates the problem pool (EqSolve_MC_pool_*.cfg: acid/base/complexation subsets x
    constants over decades x initial compositions; single-salt precipitation systems) and
    model-checks the switching machine with an ideal solver on a coarse grid
    (EqSolve_MC_switch.cfg: NoOscillation, TerminalIsGenuine).
  * Every selected problem is run through the real code under several solver chains with an
    external recorder (harness/eqsolve_rec.py); each run is a trace that TLC (EqSolveTrace) replays
    through the same machine and judges: switching verdicts against FwOK/BwOK, the sane flag against
    SaneOK, and - whenever success and sane are reported - the returned numbers against Genuine.
  * The ">= 19 of 20" clause is a tally over the problems the spec classifies well-conditioned,
    judged by RateOK; single-equilibrium problems are also solved with
    chempy._equilibrium.solve_equilibrium and compared by Bracket/Close.
"""
import collections
import math
import warnings

import core
import eq_common as ec
import eqsolve_rec as rec

LEVEL = "exploration"
RULE = ("one evaluation = one equilibrium calculation of the real code (EqSystem.root / solve / roots row, "
        "or solve_equilibrium) on a TLC-enumerated problem under one solver chain, recorded and judged by TLC "
        "(EqSolveTrace); distinct = distinct (problem, chain); non-trivial = the call reported success and sane, "
        "so that Genuine was actually decided")
ASSUMPTIONS = [
    "floats enter TLC through the fixed encoder eq_common.enc_vec: 10^-12 of a power-of-ten scale >= total "
    "initial concentration (two limbs) and micro-ln; values beyond 10x the scale are clipped and flagged",
    "tolerances live in spec/EqSolve.tla: Q = K within 2e-4 (ln), totals within 1e-6 of the key's absolute "
    "total, zero = 2e-12 of the scale, sane bound 1e-9; a verdict inside a guard band is accepted either way",
    "the sane flag is checked in the direction the property needs (sane reported => in range); "
    "sane = False on an in-range result is counted, not judged",
    "success rate is a tally over spec-classified well-conditioned problems with fixed seeds (statistical)",
    "pyneqsys / scipy as installed in /venv; hooks are external wrappers, a missing hook target is a machinery failure",
]



# ------------------------------------------------------------------ running the real code
def _stub_class():
    """A deliberately wrong formulation (conservation against 2.5 x the initial totals): forces the
    solver to a root that is out of range, to observe how the sane flag reports it."""
    from chempy._eqsys import NumSysLog

    class StubWrongTotals(NumSysLog):
        def f(self, yvec, params):
            n = self.eqsys.ns
            scaled = [2.5 * p for p in params[:n]] + list(params[n:])
            return NumSysLog.f(self, yvec, scaled)
    return StubWrongTotals


def _success(info):
    try:
        return bool(info["success"])
    except Exception:
        return bool(info[-1]["success"])


BASE_CHAINS = ["root-default", "solve-default", "root-lin", "root-loglin-cc"]
HOMOG_CHAINS = ["root-log-rref", "roots", "stub", "root-x0", "root-x0-loglin", "roots-x0",
                "root-square", "root-linrel", "root-lintanh", "root-static", "root-log-rp", "root-lin-rp",
                "root-tol", "root-array", "root-ddict", "root-reuse", "solve-varied", "solve-varied2", "roots-index",
                "root-log-re", "root-loglin-re", "root-rekey", "roots-loglin-cc", "root-solver", "roots-one"]
SALT_CHAINS = ["root-x0", "root-log-rp", "root-tol", "root-array", "root-reuse", "root-ddict",
               "root-log-rref", "root-log-re", "root-loglin-re", "root-static-salt", "root-rekey", "root-solver"]


def _varied(names, c0, rng_val):
    j = rng_val % len(names)
    base = c0[j] if c0[j] > 0 else 1e-3
    return j, [base / 2, base / 4]


def row_inits(names, c0, guess, chain, rng_val, varied=None):
    """the initial state each result row belongs to - known from what the harness itself passes in
    (never read back from the code under test)"""
    def with_(base, subst):
        return [subst.get(t, c) for t, c in enumerate(base)]
    if chain in ("roots", "roots-x0", "roots-index", "roots-loglin-cc"):
        j, vals = _varied(names, c0, rng_val)
        return [with_(c0, {j: v}) for v in vals]
    if chain == "roots-one":
        j, vals = _varied(names, c0, rng_val)
        return [with_(c0, {j: vals[0]})]
    if chain == "root-rekey":
        return [list(c0), list(c0)]
    if chain == "solve-varied":
        j, vals = _varied(names, c0, rng_val)
        return [with_(c0, {j: v}) for v in (vals[0], vals[0] * 4)]
    if chain == "solve-varied2":    # the grid the specification rebuilt from keys and levels
        return [[ec.dec_float(v) for v in cell["init"]] for cell in varied["grid"]]
    if chain == "root-reuse":
        return [list(c0), list(guess)]
    return [list(c0)]


REKEY_FACTOR = 10.0


def row_consts(ks, chain):
    """the constants each result row belongs to (root-rekey reassigns the first constant between two calls)"""
    if chain == "root-rekey":
        return [list(ks), [ks[0] * REKEY_FACTOR] + list(ks[1:])]
    return None


def _call(es, names, c0, guess, chain, rng_val, varied=None, saturation=None, ks=None):
    """returns list of rows: dict(x, ok, sane[, intact]) in call order.  intact = the arguments handed in and
    earlier results of the same object are unchanged after the call (a projection: element-wise equality)"""
    import collections
    import numpy as np
    from chempy import _eqsys
    from chempy._eqsys import NumSysLin, NumSysLog
    init = dict(zip(names, c0))
    x0 = np.array(guess, dtype=float)

    def one(ret):
        x, info, sane = ret
        return [dict(x=list(x), ok=_success(info), sane=bool(sane))]
    if chain == "root-default":
        return one(es.root(init))
    if chain == "solve-default":
        r = es.solve(init)
        return [dict(x=list(np.atleast_1d(r.conc)), ok=bool(r.success), sane=bool(r.sane))]
    if chain == "root-lin":
        return one(es.root(init, NumSys=(NumSysLin,)))
    if chain == "root-loglin-cc":
        return one(es.root(init, NumSys=(NumSysLog, NumSysLin), neqsys_type="conditional_chained"))
    if chain == "root-log-rref":
        return one(es.root(init, NumSys=(NumSysLog,), rref_equil=True, rref_preserv=True))
    if chain == "root-log-re":        # row-reduced equilibrium block only
        return one(es.root(init, NumSys=(NumSysLog,), rref_equil=True))
    if chain == "root-loglin-re":
        return one(es.root(init, NumSys=(NumSysLog, NumSysLin), rref_equil=True))
    if chain == "root-log-rp":
        return one(es.root(init, NumSys=(NumSysLog,), rref_preserv=True))
    if chain == "root-lin-rp":
        return one(es.root(init, NumSys=(NumSysLin,), rref_preserv=True))
    if chain == "root-tol":
        return one(es.root(init, tol=1e-12))
    if chain in ("root-square", "root-linrel", "root-lintanh"):
        NS = getattr(_eqsys, {"root-square": "NumSysSquare", "root-linrel": "NumSysLinRel",
                              "root-lintanh": "NumSysLinTanh"}[chain])
        return one(es.root(init, NumSys=(NS,)))
    if chain == "root-static":
        return one(es.root(init, neqsys_type="static_conditions"))
    if chain == "root-array":         # initial concentrations as a plain array in substance order
        arr = np.array(c0, dtype=float)
        rows = one(es.root(arr))
        rows[0]["intact"] = bool(np.array_equal(arr, np.array(c0, dtype=float)))
        return rows
    if chain == "root-static-salt":   # the caller fixes the conditions (as the specification classified the salt)
        return one(es.root(init, neqsys_type="static_conditions", precipitates=(saturation == "sat",)))
    if chain == "root-solver":
        return one(es.root(init, solver="scipy"))
    if chain == "root-rekey":         # reassign a constant of the system between two calls
        r1 = one(es.root(init))
        x1 = list(r1[0]["x"])
        es.rxns[0].param = ks[0] * REKEY_FACTOR
        r2 = one(es.root(init))
        r2[0]["intact"] = [float(a) for a in r1[0]["x"]] == [float(a) for a in x1] and \
            all(float(init[k]) == float(v) for k, v in zip(names, c0))
        return r1 + r2
    if chain == "root-ddict":         # a defaultdict that omits the zero entries
        return one(es.root(collections.defaultdict(float, {k: v for k, v in init.items() if v != 0})))
    if chain == "root-x0":            # explicit starting guess: another mixture of the same system
        rows = one(es.root(init, x0))
        rows[0]["intact"] = bool(np.array_equal(x0, np.array(guess, dtype=float)))
        return rows
    if chain == "root-x0-loglin":
        return one(es.root(init, x0, NumSys=(NumSysLog, NumSysLin)))
    if chain == "root-reuse":         # one prebuilt solver object used for two different problems
        neqsys = es.get_neqsys("chained_conditional", NumSys=(NumSysLog,))
        r1 = one(es.root(init, neqsys=neqsys))
        x1 = [float(a) for a in r1[0]["x"]]
        r2 = one(es.root(dict(zip(names, guess)), neqsys=neqsys))
        r2[0]["intact"] = [float(a) for a in r1[0]["x"]] == x1     # the earlier result is not overwritten
        return r1 + r2
    if chain == "roots-one":          # a single level
        j, vals = _varied(names, c0, rng_val)
        xs, infos, sanity = es.roots(init, [vals[0]], names[j])
        return [dict(x=list(x), ok=_success(i), sane=bool(s)) for x, i, s in zip(xs, infos, sanity)]
    if chain in ("roots", "roots-x0", "roots-index", "roots-loglin-cc"):
        j, vals = _varied(names, c0, rng_val)
        kw = {"x0": x0} if chain == "roots-x0" else {}
        if chain == "roots-loglin-cc":
            kw = {"NumSys": (NumSysLog, NumSysLin), "neqsys_type": "conditional_chained"}
        if chain == "roots-index":    # varied substance by index, values as an array
            xs, infos, sanity = es.roots(init, np.array(vals), j)
        else:
            xs, infos, sanity = es.roots(init, vals, names[j], **kw)
        return [dict(x=list(x), ok=_success(i), sane=bool(s)) for x, i, s in zip(xs, infos, sanity)]
    if chain == "solve-varied":
        j, vals = _varied(names, c0, rng_val)
        r = es.solve(init, {names[j]: [vals[0], vals[0] * 4]})
        return [dict(x=list(r.conc[i]), ok=bool(r.success[i]), sane=bool(r.sane[i])) for i in range(2)]
    if chain == "solve-varied2":
        import collections as _c
        mapping = _c.OrderedDict((names[int(k) - 1], [ec.dec_float(v) for v in lv])
                                 for k, lv in zip(varied["keys"], varied["levels"]))   # listing order of the case
        r = es.solve(init, mapping)
        rows = []
        for cell in varied["grid"]:
            a, b = int(cell["idx"][0]) - 1, int(cell["idx"][1]) - 1
            rows.append(dict(x=list(r.conc[a, b]), ok=bool(r.success[a, b]), sane=bool(r.sane[a, b])))
        return rows
    if chain == "stub":
        return one(es.root(init, NumSys=(_stub_class(),)))
    raise ValueError(chain)


def _as_vector(x, n):
    """total projection of a returned concentration vector: n floats, nan where there is no real number"""
    try:
        vals = list(x)
    except Exception:
        vals = []
    out = []
    for t in range(n):
        try:
            v = float(vals[t])
        except Exception:
            v = float("nan")
        out.append(v)
    if len(vals) != n:
        out = [float("nan")] * n
    return out


def _enc_events(events, s_exp):
    """encode the float vectors of recorded events; returns (events, flags)"""
    out, clipped, nan = [], False, False
    for e in events:
        e = dict(e)
        for k in ("x", "xd"):
            if k in e:
                if e[k] is None:
                    e[k] = e["x"] if k == "xd" and isinstance(e.get("x"), dict) else None
                    continue
                if any(v != v for v in e[k]):
                    nan = True
                e[k], c = ec.enc_vec(e[k], s_exp)
                clipped = clipped or c
        out.append(e)
    return out, clipped, nan


def run_problem(job):
    """job = (case, chain, rng_val).  Returns a list of (trace, meta) - one per result row."""
    case, chain, rng_val = job
    inp = case["in"]
    ks = [ec.dec_float(k) for k in inp["K"]]
    c0 = [ec.dec_float(v) for v in inp["c0"]]
    guess = [ec.dec_float(v) for v in inp.get("guess", inp["c0"])]
    # species by explicit composition or by formula (the names are formulae of the same composition)
    spform = ("comp", "formula", "alias")[(rng_val // 3) % 3]    # alias: mapping keys differ from Substance.name
    names = [sp["name"] for sp in inp["species"]]
    ns = len(names)
    rec.install()
    rec.start()
    rows, exc = None, None
    with warnings.catch_warnings():
        warnings.simplefilter("ignore")
        try:
            es, names = ec.build_system(inp["species"], inp["nu"], ks, spform=spform)
            rows = _call(es, names, c0, guess, chain, rng_val, inp.get("varied"), case["exp"].get("saturation"), ks)
        except Exception as ex:  # projected: exception -> class name + text
            exc = "%s: %s" % (type(ex).__name__, str(ex)[:120])
    events = rec.stop()
    # split into rows at the top-level markers
    segs = []
    for e in events:
        if e["ev"] == "row":
            segs.append([e])
        elif segs:
            segs[-1].append(e)
    out = []
    inits = row_inits(names, c0, guess, chain, rng_val, inp.get("varied"))
    if exc is not None and not segs:
        segs = [[{"ev": "row"}]]
    if len(segs) > len(inits):
        raise core.MachineryFailure("recorder saw %d top-level solves for %d rows (%s)" % (len(segs), len(inits), chain))
    for idx, seg in enumerate(segs):
        c0row = inits[idx]      # the problem is what was asked for, not what the code made of it
        total = sum(abs(v) for v in c0row)
        s_exp = ec.scale_for(total)
        body, clipped, nan = _enc_events(seg[1:], s_exp)
        for e in body:
            if e["ev"] == "cond" and e.get("xd") is None:
                e["xd"] = e["x"]
        c0enc, _ = ec.enc_vec(c0row, s_exp)
        rks = (row_consts(ks, chain) or [ks] * len(inits))[idx]
        lnk = [int(round(math.log(k) * 1e6)) for k in rks]
        tr = [{"ev": "problem", "rs": inp["rids"], "lnK": lnk, "c0": c0enc, "sexp": s_exp}] + body
        meta = dict(chain=chain, rids=inp["rids"], cls=case["cls"], saturation=case["exp"].get("saturation"), K=inp["K"], c0=[float("%.6g" % v) for v in c0row],
                    wellcond=bool(case["exp"]["wellcond"]), clipped=clipped, row=idx, spform=spform)
        failed = exc is not None and (rows is None or idx >= len(rows))
        if failed:
            meta.update(exc=exc, ok=False, sane=False)
            zero, _ = ec.enc_vec([0.0] * ns, s_exp)
            tr.append({"ev": "result", "x": zero, "ok": False, "sane": False, "exc": True, "nan": False,
                       "judged": chain != "stub", "intact": True})
        else:
            r = rows[idx]
            xs = _as_vector(r["x"], ns)      # whatever came back travels as a vector of ns numbers (nan = not one)
            r = dict(r, x=xs)
            xenc, c2 = ec.enc_vec(xs, s_exp)
            xnan = any(v != v for v in xs)
            meta.update(ok=r["ok"], sane=r["sane"], x=[float("%.9g" % float(v)) for v in r["x"]],
                        clipped=clipped or c2)
            tr.append({"ev": "result", "x": xenc, "ok": r["ok"], "sane": r["sane"], "exc": False, "nan": xnan,
                       "judged": chain != "stub", "intact": bool(r.get("intact", True))})
            if chain == "root-default" and case["exp"]["single"]:
                br = _bracket(inp, c0row, ks, s_exp)
                if br is not None:
                    tr.append(br[0])
                    meta["bracket"] = br[1]
                br2 = _bracket(inp, c0row, ks, s_exp, activity=2.0)   # option away from its default
                if br2 is not None:
                    tr.append(br2[0])
                    meta["bracket_activity"] = br2[1]
        out.append((tr, meta))
    return out


def _bracket(inp, c0row, ks, s_exp, activity=None):
    """chempy._equilibrium.solve_equilibrium on a single-equilibrium problem -> bracket event; activity: a
    constant activity product g (law Q g = K; dl = micro-ln of g by the fixed encoder)"""
    from chempy._equilibrium import solve_equilibrium
    dl = 0 if activity is None else int(round(math.log(activity) * 1e6))
    with warnings.catch_warnings():
        warnings.simplefilter("ignore")
        try:
            if activity is None:
                x2 = solve_equilibrium(c0row, inp["nu"][0], ks[0])
            else:
                x2 = solve_equilibrium(c0row, inp["nu"][0], ks[0], activity_product=lambda c: activity)
        except Exception as ex:
            return {"ev": "bracket", "raised": True, "dl": dl, "x": ec.enc_vec([0.0] * len(c0row), s_exp)[0]}, \
                "%s: %s" % (type(ex).__name__, str(ex)[:100])
    return {"ev": "bracket", "raised": False, "dl": dl, "x": ec.enc_vec(_as_vector(x2, len(c0row)), s_exp)[0]}, \
        [float("%.9g" % v) for v in _as_vector(x2, len(c0row))]


# ------------------------------------------------------------------ judging
def _key(meta, clause):
    if clause in ("fw-verdict", "bw-verdict", "dissolved"):
        fn = {"fw-verdict": "EqSystem._fw_cond_factory", "bw-verdict": "EqSystem._bw_cond_factory",
              "dissolved": "EqSystem.dissolved"}[clause]
        return dict(fn=fn, clause=clause, cls=meta["cls"])
    if clause.startswith("bracket"):
        return dict(fn="solve_equilibrium", clause=clause, cls=meta["cls"])
    if clause == "sane-flag":
        return dict(fn="EqSystem._result_is_sane", clause=clause, chain=meta["chain"])
    return dict(fn="EqSystem." + meta["chain"].split("-")[0], clause=clause, chain=meta["chain"], cls=meta["cls"],
                rids=meta["rids"])


def _judge(ctx, items, cfg="EqSolveTrace.cfg"):
    traces = [t for t, _ in items]
    verdicts = ctx.validate_traces("EqSolveTrace", cfg, traces, chunk=4000)
    for (tr, meta), (v, pos, clause) in zip(items, verdicts):
        claimed = bool(meta.get("ok") and meta.get("sane")) and meta["chain"] != "stub"
        ctx.ran([meta["rids"], meta["K"], meta["c0"], meta["chain"], meta["row"]], nontrivial=claimed)
        ctx.counters["runs_" + meta["chain"]] += 1
        if claimed:
            ctx.counters["claimed_success_and_sane"] += 1
        if meta.get("exc"):
            ctx.counters["raised"] += 1
        if v == "accept":
            continue
        if clause.startswith("step:") or clause == "no-result-event":
            raise core.MachineryFailure("recorded trace outside the machine: %s at %d (%s, %s)\n%r" % (
                clause, pos, meta["chain"], meta["rids"], tr[max(0, pos - 2):pos + 1]))
        ctx.violation(_key(meta, clause),
                      {"direction": "code->spec", "trace": tr, "observed": meta,
                       "verdict": {"verdict": v, "pos": pos, "clause": clause}, "tlc_cfg": cfg,
                       "case": meta.get("case")})
    return verdicts


def _plan(ctx, cases):
    """stratified choice of problems and the chains each is run under"""
    n = 140 if ctx.quick else 1500
    # stratify by class and, for salts, by the saturation the spec decided
    wrapped = [{"cls": c["cls"] + "-" + c["exp"].get("saturation", "none"), "case": c} for c in cases]
    sel = [w["case"] for w in ctx.pick(wrapped, n)]
    jobs = []
    for c in sel:
        homog = c["exp"]["homog"]
        chains = list(BASE_CHAINS)
        extra = list(HOMOG_CHAINS if homog else SALT_CHAINS)
        ctx.rng.shuffle(extra)
        chains += extra[:4] if ctx.quick else extra[:10]
        if c["exp"].get("saturation") not in ("sat", "unsat"):
            chains = [ch for ch in chains if ch != "root-static-salt"]
        if not c["in"].get("varied", {}).get("grid"):
            chains = [ch for ch in chains if ch != "solve-varied2"]
        for ch in chains:
            jobs.append((c, ch, ctx.rng.randrange(1 << 30)))
    # more well-conditioned problems for the success-rate tally (default chains only)
    chosen = {core.stable_hash(c["in"]) for c in sel}
    well = [c for c in cases if c["exp"]["wellcond"] and core.stable_hash(c["in"]) not in chosen]
    ctx.rng.shuffle(well)
    for c in well[:(120 if ctx.quick else 800)]:
        for ch in ("root-default", "solve-default"):
            jobs.append((c, ch, 0))
    return sel, jobs


def run(ctx):
    import chempy  # noqa
    hooks = rec.install()
    if not all(hooks.values()):
        raise core.MachineryFailure("recorder hooks not installed: %r" % hooks)

    # ---- TLC: the switching machine with an ideal solver (model checking)
    res = ctx.tlc("EqSolve_MC", "EqSolve_MC_switch.cfg",
                  require_actions=() if ctx.quick else ["GenPose", "GenBegin", "GenEvalFw", "GenEvalBw", "Adopt",
                                                        "GenSolve", "Terminate", "GenReport"],
                  require_cases=100, timeout=900)
    kinds = collections.Counter(c["cls"] for c in res.cases)
    if not kinds["model-precipitate"] or not kinds["model-dissolved"]:
        raise core.MachineryFailure("switching model: a terminal class is missing: %r" % dict(kinds))
    ctx.counters["model_terminal_runs"] = len(res.cases)

    # ---- TLC: the problem pool
    pool_cases = []
    for tag in (("q",) if ctx.quick else ("q", "t")):
        pool = ctx.tlc("EqSolve_MC", "EqSolve_MC_pool_%s.cfg" % tag,
                       require_actions=["GenPickHomog", "GenPickSalt", "GenShiftK", "GenPickInit"] if tag == "q" else (),
                       require_cases=500, timeout=900)
        pool_cases += pool.cases
    # TLC prints cases in worker order: sort, so that the seed alone determines the sample
    pool_cases.sort(key=lambda c: core.stable_hash(c["in"]))
    seen, cases = set(), []
    for c in pool_cases:
        h = core.stable_hash(c["in"])
        if h not in seen:
            seen.add(h)
            cases.append(c)
    classes = collections.Counter(c["cls"].rsplit("-", 1)[0] if c["cls"].startswith("homog") else c["cls"] for c in cases)
    for k in ("homog-well", "salt-reac", "salt-prod"):
        if not classes[k]:
            raise core.MachineryFailure("problem pool: class %s is empty" % k)
    sats = collections.Counter((c["cls"], c["exp"]["saturation"]) for c in cases if c["cls"].startswith("salt"))
    for k in (("salt-reac", "unsat"), ("salt-reac", "sat"), ("salt-prod", "unsat"), ("salt-prod", "sat")):
        if not sats[k]:
            raise core.MachineryFailure("problem pool: no %s %s salt problem" % k)
    ctx.counters["salt_unsaturated_problems"] = sats[("salt-reac", "unsat")] + sats[("salt-prod", "unsat")]
    ctx.counters["pool_problems"] = len(cases)

    sel, jobs = _plan(ctx, cases)

    # ---- TLC: single-equilibrium problems of every stoichiometric shape (coefficients 2 and 3 on either
    # side, three products, species on both sides), strictly positive: root vs the bracketing solver
    singles = []
    for tag in (("q",) if ctx.quick else ("q", "t")):
        r1 = ctx.tlc("EqSolve_MC", "EqSolve_MC_single_%s.cfg" % tag, require_cases=300, timeout=600)
        singles += [c for c in r1.cases if c["exp"]["single"]]
    singles.sort(key=lambda c: core.stable_hash(c["in"]))
    shapes = {tuple(sorted(c["in"]["nu"][0])) for c in singles}
    if len(shapes) < 8:
        raise core.MachineryFailure("single-equilibrium pool has only %d stoichiometric shapes" % len(shapes))
    ctx.counters["single_problems"] = len(singles)
    ctx.counters["single_shapes"] = len(shapes)
    done = {core.stable_hash(j[0]["in"]) for j in jobs if j[1] == "root-default"}
    for c in singles:
        if core.stable_hash(c["in"]) not in done:
            jobs.append((c, "root-default", 0))
    outs = ctx.pmap(run_problem, jobs)
    items = []
    for job, rows in zip(jobs, outs):
        for tr, meta in rows:
            meta["case"] = {"in": job[0]["in"], "cls": job[0]["cls"], "exp": job[0]["exp"]}
            meta["rng"] = job[2]
            items.append((tr, meta))
    _judge(ctx, items)

    # ---- success rate of the default chains on well-conditioned problems (judged by RateOK)
    tallies = []
    for chain in ("root-default", "solve-default"):
        runs = [m for _, m in items if m["chain"] == chain and m["wellcond"]]
        nok = sum(1 for m in runs if m.get("ok") and m.get("sane"))
        ctx.counters["wellcond_%s" % chain] = len(runs)
        ctx.counters["wellcond_%s_ok" % chain] = nok
        if len(runs) < 20:
            raise core.MachineryFailure("too few well-conditioned runs for %s: %d" % (chain, len(runs)))
        tallies.append((chain, runs, nok))
    rate_verdicts = ctx.validate_traces("EqSolveTrace", "EqSolveTrace.cfg",
                                        [[{"ev": "rate", "ok": nok, "n": len(runs)}] for _, runs, nok in tallies],
                                        count=False)
    for (chain, runs, nok), (v, pos, clause) in zip(tallies, rate_verdicts):
        if v != "accept":
            fails = [dict(rids=m["rids"], K=m["K"], c0=m["c0"], ok=m.get("ok"), sane=m.get("sane"), exc=m.get("exc"))
                     for m in runs if not (m.get("ok") and m.get("sane"))][:10]
            ctx.violation(dict(fn="EqSystem." + chain.split("-")[0], clause="success-rate", chain=chain),
                          {"direction": "code->spec", "rate": {"ok": nok, "n": len(runs)}, "observed": fails,
                           "verdict": {"verdict": v, "pos": pos, "clause": clause}})
    nb = sum(1 for _, m in items if "bracket" in m)
    ctx.counters["bracket_comparisons"] = nb
    if nb < 5:
        raise core.MachineryFailure("too few single-equilibrium problems compared with solve_equilibrium: %d" % nb)
    insane_ok = sum(1 for _, m in items if m.get("ok") and not m.get("sane") and m["chain"] != "stub")
    ctx.counters["success_but_not_sane"] = insane_ok
    ctx.exhaustive = False
    for tr, m in items[:3]:
        ctx.sample({"chain": m["chain"], "rids": m["rids"], "K": m["K"], "c0": m["c0"], "x": m.get("x"),
                    "ok": m.get("ok"), "sane": m.get("sane"), "events": [e["ev"] for e in tr]}, cap=8)
    salt = [(tr, m) for tr, m in items if m["cls"].startswith("salt")][:2]
    for tr, m in salt:
        ctx.sample({"chain": m["chain"], "rids": m["rids"], "K": m["K"], "c0": m["c0"], "x": m.get("x"),
                    "ok": m.get("ok"), "sane": m.get("sane"), "events": [e["ev"] for e in tr]}, cap=8)


def replay(ctx, recd):
    if "rate" in recd:
        print("success-rate violations are tallies; re-run the check to reproduce")
        return
    case = recd["case"]
    meta0 = recd["observed"]
    rows = run_problem((case, meta0["chain"], meta0.get("rng", 0)))
    row = meta0.get("row", 0)
    tr, meta = rows[min(row, len(rows) - 1)]
    v, pos, clause = ctx.validate_traces("EqSolveTrace", "EqSolveTrace.cfg", [tr])[0]
    if v != "accept":
        ctx.violation(recd["key"], {"observed": meta, "verdict": {"verdict": v, "pos": pos, "clause": clause}})
