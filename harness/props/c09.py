"""C09 - unit conversion is exact, reversible, linear, composes and refuses incompatible dimensions;
registry helpers and array helpers are consistent with the same ratios.

spec/Units.tla (+ Units_MC slices, UnitsTrace, FloatEnc).  Directions:
  spec -> code : every finished history of each generation slice is a case: the quantity as
                 written (magnitude, unit expression), the operations, and for every operation
                 the observation the property demands (exact NUMBERS = rational mantissa x
                 exponent vector).  The history is executed on chempy.units and each observed
                 float is compared with the decoded number at the tolerance the case carries.
                 Array helpers: the case states the magnitudes of the arguments in one common
                 unit and the SI size of the unit of every output; numpy ("the plain numerical
                 routine") is applied to these magnitudes.
  code -> spec : seeded deeper products (<= 5 factors, powers -3..3, the whole catalog) and longer
                 histories are executed; the observed doubles are encoded exactly and TLC
                 (UnitsTrace + FloatEnc big-rational arithmetic) judges every step.
"""
import math
from fractions import Fraction

import units_common as uc

LEVEL = "model_checking"
RULE = ("cases = finished histories of the Units_MC generation slices (TLC) + seeded histories judged by "
        "UnitsTrace; distinct = distinct (quantity as written, operation list); every case carries at least one "
        "operation on a unit-carrying quantity (conversion to a different unit expression, refusal, registry or "
        "helper question), so every distinct case counts as non-trivial")
ASSUMPTIONS = [
    "the catalog in spec/Units.tla (dimension and size of each named unit relative to SI) is the reference; "
    "it was written from the SI definitions, not read from quantities",
    "eV and N_A are opaque generators whose CODATA values (as shipped with quantities 0.16) are stated in the spec",
    "observed doubles are compared at relative 1e-12 (conversions) / 1e-9 (numpy helpers); both tolerances come from the case",
    "numpy is 'the plain numerical routine' for the array helpers (np.geomspace for logarithmic spacing)",
    "luminous intensity is fixed to candela in every registry and never appears in a quantity",
]

QUICK = ["single_q", "pair_q", "hist_q", "reg_q", "reg2_q", "derived_q", "help_q", "bexp", "plain"]
THOROUGH = ["single_t", "pair_t", "triple_t", "hist_q", "hist_t", "reg_q", "reg2_q", "reg_t", "derived_t", "own_t", "help_q", "help_t", "bexp", "plain"]
INV = {"quick": "inv_q", "thorough": "inv_t"}
ACTIONS = {"inv": ["GenAddFactor", "GenSeal", "GenConvert", "GenBack", "GenVia", "GenScale", "GenContainer",
                   "GenIncompatible", "GenDimensionality", "GenDefaultUnit", "GenUnitlessIn", "GenDerived",
                   "GenRoundTrip", "GenHelper", "GenUnitOf", "GenStrip"]}
NUM = 4


# --------------------------------------------------------------------------- executing a history
_GV = [uc.gen_values({})]      # generator values of the case being executed (set by run_history)


def _helper(name, a, qs):
    import numpy as np
    import chempy.units as cu
    ns = cu.patched_numpy if a.get("ns") == "patched_numpy" else cu
    v = a.get("v", "default")
    qi, qj = qs[a["i"] - 1], qs[a["j"] - 1]
    arr = np.array([float(Fraction(*r)) for r in a["arr"]])
    yarr = np.array([float(Fraction(*r)) for r in a["yarr"]])
    coef = [float(Fraction(*r)) for r in a["coef"]]
    deg = 1 if v == "deg1" else len(coef) - 1
    other = arr * qj * cu.default_units.second if v == "incompat" else arr * qj    # "incompat": one more dimension
    if name == "allclose":
        kw = {"rtol": 1e-2} if v == "rtol2" else {"rtol": 1e-8}
        tol = a.get("tol") or {}
        if "bw" in tol:     # second argument and tolerances as the case writes them: quantities in the unit of qs[j]
            other = np.array([float(uc.num(m, _GV[0])) for m in tol["bw"]["mags"]]) * uc.unit_expr(tol["bw"]["ux"])
            if "mag" in tol["atolw"]:
                kw["atol"] = float(uc.num(tol["atolw"]["mag"], _GV[0])) * uc.unit_expr(tol["atolw"]["ux"])
            if "mag" in tol["rtolw"]:
                kw["rtol"] = float(uc.num(tol["rtolw"]["mag"], _GV[0])) * uc.unit_expr(tol["rtolw"]["ux"])
        return {"bool": bool(ns.allclose(arr * qi, other, **kw))}
    if name == "compare_equality":
        return {"bool": bool(np.all(cu.compare_equality(arr * qi, other)))}
    if name == "linspace":
        out = ns.linspace(qi, qj) if v == "num50" else ns.linspace(qi, qj, NUM)
        return {"outs": [uc.project_unitful(out)["si"]]}
    if name == "logspace_from_lin":
        out = cu.logspace_from_lin(qi, qj) if v == "num50" else cu.logspace_from_lin(qi, qj, NUM)
        return {"outs": [uc.project_unitful(out)["si"]]}
    arr2 = arr.reshape(2, 2)
    if name == "concatenate" and v != "default":
        kw = {} if v == "axis0" else {"axis": {"axis1": 1, "axism1": -1, "axisnone": None}[v]}
        out = ns.concatenate((arr2 * qi, arr2 * qj), **kw)
        return {"outs": [uc.project_unitful(out)["si"]], "shape": list(out.shape)}
    if name == "concatenate":
        return {"outs": [uc.project_unitful(ns.concatenate((arr * qi, arr * qj)))["si"]]}
    if name == "tile" and v == "reps21":
        out = ns.tile(arr2 * qi, (2, 1))
        return {"outs": [uc.project_unitful(out)["si"]], "shape": list(out.shape)}
    if name == "tile":
        return {"outs": [uc.project_unitful(ns.tile(arr * qi, 3 if v == "reps3" else 2))["si"]]}
    if name == "polyfit" and v == "weights":
        p = ns.polyfit(arr * qi, yarr * qj, deg, w=np.array([float(Fraction(*r)) for r in a["w"]]))
        return {"outs": [[uc.project_unitful(c)["si"]] for c in p]}
    if name == "polyfit":
        p = ns.polyfit(arr * qi, yarr * qj, deg)
        return {"outs": [[uc.project_unitful(c)["si"]] for c in p]}
    if name == "polyval":
        uj = qj.units
        p = [c * uj ** (k + 1 - deg) for k, c in enumerate(coef)]
        r = uc.project_unitful(ns.polyval(p, qi if v == "scalar" else arr * qi))["si"]
        return {"outs": [r if isinstance(r, list) else [r]]}
    if name == "uniform":
        return {"outs": [uc.project_unitful(cu.uniform((qi, qj) if v == "tuple" else [qi, qj]))["si"]]}
    if name == "uniform_dict":
        r = cu.uniform({"a": qi, "b": qj})
        return {"outs": [[uc.project_unitful(r["a"])["si"], uc.project_unitful(r["b"])["si"]]]}
    raise ValueError(name)


def _held(q, form, mults):
    """the current quantity held as the case says: itself, or mults * q as a list / Quantity array / dict"""
    import numpy as np
    if form == "scalar":
        return q
    m = [float(Fraction(*x)) for x in mults]
    if form == "list":
        return [k * q for k in m]
    if form == "array":
        return np.array(m) * q
    if form == "dict":
        return {"k%d" % i: k * q for i, k in enumerate(m)}
    raise ValueError(form)


def _step(a, q, qs, q0ux):
    """one operation on the real objects -> (observation, new current quantity or None)"""
    import numpy as np
    import chempy.units as cu
    op = a["op"]
    if op == "convert":
        import quantities as pq
        T = uc.unit_expr(a["t"])
        x = cu.to_unitless(q, T)
        nq = x * T
        r = cu.rescale(q, T)
        uq = pq.UncertainQuantity(float(q.magnitude), q.units, abs(float(q.magnitude)) * 0.01)
        return {"x": float(x), "si": uc.project_unitful(nq)["si"], "rs_x": float(r.magnitude), "rs_si": uc.project_unitful(r)["si"],
                "uq_x": float(cu.to_unitless(uq, T))}, nq
    if op == "back":
        T = uc.unit_expr(q0ux)
        x = cu.to_unitless(q, T)
        nq = x * T
        return {"x": float(x), "si": uc.project_unitful(nq)["si"]}, nq
    if op == "via":
        U1, U2 = uc.unit_expr(a["u1"]), uc.unit_expr(a["u2"])
        x = cu.to_unitless(q, U2)
        y = cu.to_unitless(cu.to_unitless(q, U1) * U1, U2)
        return {"x": float(x), "y": float(y)}, y * U2
    if op == "scale":
        nq = float(Fraction(*a["k"])) * q
        return {"x": float(getattr(nq, "magnitude", nq))}, nq
    if op == "container":
        T = uc.unit_expr(a["t"])
        kind = a["kind"]
        if kind == "empty_list":
            return {"xs": uc.floats(cu.to_unitless([], T))}, None
        if kind == "empty_dict":
            r = cu.to_unitless({}, T)
            return {"xs": [uc._tofloat(v) for v in r.values()], "keys": isinstance(r, dict)}, None
        if kind == "list":
            return {"xs": uc.floats(cu.to_unitless(list(qs), T))}, None
        if kind == "tuple":
            return {"xs": uc.floats(cu.to_unitless(tuple(qs), T))}, None
        if kind == "objarray":
            arr = np.empty(len(qs), dtype=object)
            for i, e in enumerate(qs):
                arr[i] = e
            return {"xs": uc.floats(cu.to_unitless(arr, T))}, None
        if kind == "dict":
            r = cu.to_unitless({"k%d" % i: e for i, e in enumerate(qs)}, T)
            return {"xs": [float(r["k%d" % i]) for i in range(len(qs))], "keys": sorted(r) == sorted("k%d" % i for i in range(len(qs)))}, None
        if kind == "nested":
            r = cu.to_unitless({"a": list(qs), "b": tuple(qs)}, T)
            return {"xs": uc.floats(r["a"]), "alt": uc.floats(r["b"])}, None
        if kind == "array":
            mult = np.array([float(Fraction(*m)) for m in a["mults"]])
            return {"xs": uc.floats(cu.to_unitless(mult * q, T))}, None
        if kind == "array2d":
            m = [float(Fraction(*x)) for x in a["mults"]]
            return {"xs": uc.floats(cu.to_unitless(np.array([[m[0], m[1]], [m[2], m[0]]]) * q, T))}, None
        raise ValueError(kind)
    if op == "plain":
        # q is a plain float here (unit-less value); the target is written as the case says
        k = float(Fraction(*a["k"]))
        unit = uc.unit_expr(a["t"])
        if unit is None:
            unit = cu.default_units.dimensionless
        T = k if a["tw"] == "number" else (k * unit if a["tw"] == "scaled" else unit)
        mult = [float(Fraction(*m)) for m in a["mults"]]
        v = float(q)
        form = a["form"]
        if form == "scalar":
            return {"xs": [float(cu.to_unitless(v, T))]}, None
        if form == "qscalar":
            return {"xs": [float(cu.to_unitless(v * cu.default_units.dimensionless, T))]}, None
        if form == "list":
            return {"xs": uc.floats(cu.to_unitless([m * v for m in mult], T))}, None
        if form == "tuple":
            return {"xs": uc.floats(cu.to_unitless(tuple(m * v for m in mult), T))}, None
        if form == "ndarray":
            return {"xs": uc.floats(cu.to_unitless(np.array(mult) * v, T))}, None
        if form == "objarray":
            return {"xs": uc.floats(cu.to_unitless(np.array([m * v for m in mult], dtype=object), T))}, None
        if form == "qarray":
            return {"xs": uc.floats(cu.to_unitless(np.array(mult) * v * cu.default_units.dimensionless, T))}, None
        if form == "dict":
            r = cu.to_unitless({"k%d" % i: m * v for i, m in enumerate(mult)}, T)
            return {"xs": [float(r["k%d" % i]) for i in range(len(mult))]}, None
        raise ValueError(form)
    if op == "incompatible":
        T = uc.unit_expr(a["t"])
        o = uc.observe(cu.to_unitless, q, T)
        o2 = uc.observe(cu.rescale, q, cu.default_units.dimensionless if T is None else T)
        if "raised" in o:
            return {"raised": True, "exc": o["raised"], "rs_raised": "raised" in o2}, None
        return {"raised": False, "value": repr(o["v"])[:80], "rs_raised": "raised" in o2}, None
    if op == "dimensionality":
        v = _held(q, a.get("form", "scalar"), a.get("mults"))
        return {"dim": uc.project_dimdict(cu.get_physical_dimensionality(v if a.get("form") != "dict" else q)),
                "unitless": bool(cu.is_unitless(v))}, None
    if op == "unitof":
        form = a["form"]
        v = {"scalar": q, "list": list(qs), "tuple": tuple(qs), "dict": {"k%d" % i: e for i, e in enumerate(qs)},
             "array": np.array([float(Fraction(*m)) for m in a["mults"]]) * q}[form]
        r = cu.unit_of(v, simplified=True) if a["simp"] else cu.unit_of(v)
        out = uc.project_unitful(r)
        out["mag"] = float(getattr(r, "magnitude", r))
        return out, None
    if op == "strip":
        o = uc.observe(cu.to_unitless, q)
        if "raised" in o:
            return {"raised": True, "exc": o["raised"]}, None
        return {"raised": False, "x": float(o["v"])}, None
    if op == "mixnum":
        n = float(Fraction(*a["n"]))
        n = int(n) if n == int(n) else n
        lst = [n, q] if a["numfirst"] else [q, n]
        fn = a["fn"]
        call = {"uniform": lambda: cu.uniform(lst), "uniform_tuple": lambda: cu.uniform(tuple(lst)),
                "unit_of": lambda: cu.unit_of(lst), "dimensionality": lambda: cu.get_physical_dimensionality(lst),
                "to_unitless": lambda: cu.to_unitless(lst)}[fn]
        o = uc.observe(call)
        if "raised" in o:
            return {"raised": True, "exc": o["raised"]}, None
        r = o["v"]
        if fn in ("uniform", "uniform_tuple"):
            pr = uc.project_unitful(r)
            return {"raised": False, "si": pr["si"] if isinstance(pr["si"], list) else [pr["si"]], "dim": pr["dim"],
                    "mags": uc.floats(getattr(r, "magnitude", r))}, None
        if fn == "to_unitless":
            return {"raised": False, "si": uc.floats(r), "dim": {k: 0 for k in uc.DIMS}, "mags": []}, None
        if fn == "unit_of":
            pr = uc.project_unitful(r)
            return {"raised": False, "usi": pr["si"], "dim": pr["dim"], "si": [], "mags": []}, None
        return {"raised": False, "dim": uc.project_dimdict(r), "si": [], "mags": []}, None
    if op == "defunit":
        return uc.project_unitful(cu.default_unit_in_registry(q, uc.registry(a["reg"]))), None
    if op == "unitless":
        form = a.get("form", "scalar")
        r = cu.unitless_in_registry(_held(q, form, a.get("mults")), uc.registry(a["reg"]))
        return ({"x": float(r)} if form == "scalar" else {"xs": uc.floats(r)}), None
    if op == "derived":
        return uc.project_unitful(cu.get_derived_unit(uc.registry(a["reg"]), a["key"])), None
    if op == "roundtrip":
        reg = uc.registry(a["reg"])
        hr = cu.unit_registry_to_human_readable(reg)
        back = cu.unit_registry_from_human_readable(hr)
        return {"units": {k: uc.project_unitful(back[k]) for k in uc.DIMS},
                "factors": {k: float(hr[k][0]) for k in uc.DIMS},
                "symbols": {k: str(hr[k][1]) for k in uc.DIMS}}, None
    if op == "bexp":
        import quantities as pq
        mult = [float(Fraction(*m)) for m in a["mults"]]
        form = a["form"]
        if form == "quantity":
            arg = q
        elif form == "unit":
            arg = q.units
        elif form == "uncertain":
            arg = pq.UncertainQuantity(float(q.magnitude), q.units, abs(float(q.magnitude)) * 0.01)
        elif form == "list":
            arg = [m * q for m in mult]
        elif form == "array":
            arg = np.array(mult) * q
        elif form == "objarray":
            arg = np.empty(len(mult), dtype=object)
            for i, m in enumerate(mult):
                arg[i] = m * q
        elif form == "mixed":
            arg = [[q, 1], [3, 4]]
        else:
            raise ValueError(form)
        be = {"math": lambda: cu.Backend("math"), "mathfirst": lambda: cu.Backend(("math", "numpy")),
              "numpy": lambda: cu.Backend(np), "default": lambda: cu.Backend(),
              "patched_numpy": lambda: cu.patched_numpy}[a["be"]]()
        kw = {"axis": 1} if form == "mixed" else {}
        args = (arg, 2 * arg) if a["fn"] in ("logaddexp", "logaddexp2") else (arg,)
        with np.errstate(all="ignore"):
            o = uc.observe(getattr(be, a["fn"]), *args, **kw)
        if "raised" in o:
            return {"raised": True, "exc": o["raised"]}, None
        return {"raised": False, "value": uc.floats(o["v"])}, None
    if op == "helper":
        return _helper(a["name"], a, qs), None
    raise ValueError(op)


def _snapshot(qs):
    """what the quantities of a history look like right now: magnitudes (bit for bit) and units"""
    out = []
    for x in qs:
        try:
            m = getattr(x, "magnitude", x)
            out.append((repr(getattr(x, "dimensionality", "")), tuple(float(v).hex() for v in __import__("numpy").ravel(m))))
        except Exception:  # noqa
            out.append(("unreadable", repr(x)[:60]))
    return out


def run_history(cin, gens):
    """execute the history of a case on chempy.units; one observation per operation.
    An exception where the spec expects a value is itself the observation."""
    gv = uc.gen_values(gens)
    _GV[0] = gv
    q = float(uc.num(cin["mag"], gv))
    if cin["ux"]:
        q = q * uc.unit_expr(cin["ux"])
    qs = [q]
    out = []
    for a in cin["ops"]:
        snap = _snapshot(qs)
        try:
            obs, nq = _step(a, q, qs, cin["ux"])
        except Exception as e:  # noqa
            out.append({"error": type(e).__name__, "msg": str(e)[:160]})
            break
        obs["frame"] = _snapshot(qs) == snap      # an operation changes nothing it was given
        out.append(obs)
        if nq is not None:
            q = nq
            qs.append(nq)
    return out


# --------------------------------------------------------------------------- judging (spec -> code)
def _plain(name, e, A, B, C, outs):
    """the plain numerical routine on magnitudes expressed in the common unit, times the SI size of
    the unit of each output (all numbers and keyword values come from the case)"""
    import numpy as np
    if name == "allclose":
        return {"bool": bool(np.allclose(A, B, rtol=e["rtol_f"], atol=C[0] if C else 0))}
    if name == "compare_equality":
        return {"bool": bool(np.array_equal(A, B))}
    if name == "linspace":
        return {"outs": [np.linspace(A[0], B[0], e["num"]) * outs[0]]}
    if name == "logspace_from_lin":
        return {"outs": [np.geomspace(A[0], B[0], e["num"]) * outs[0]]}
    if name == "concatenate" and e["twod"]:
        r = np.concatenate([np.reshape(A, (2, 2)), np.reshape(B, (2, 2))], axis=None if e["axis"] == "none" else int(e["axis"])) * outs[0]
        return {"outs": [r.ravel()], "shape": list(r.shape)}
    if name == "concatenate":
        return {"outs": [np.concatenate([A, B]) * outs[0]]}
    if name == "tile" and e["twod"]:
        r = np.tile(np.reshape(A, (2, 2)), (2, 1)) * outs[0]
        return {"outs": [r.ravel()], "shape": list(r.shape)}
    if name == "tile":
        return {"outs": [np.tile(A, e["reps"]) * outs[0]]}
    if name == "polyfit":
        kw = {"w": np.array([float(Fraction(*r)) for r in e["weights"]])} if e["weights"] else {}
        p = np.polyfit(A, B, e["deg"], **kw)
        return {"outs": [[p[k] * outs[k]] for k in range(len(outs))]}
    if name == "polyval":
        return {"outs": [np.atleast_1d(np.polyval(B, A)) * outs[0]]}
    if name in ("uniform", "uniform_dict"):
        return {"outs": [np.array(A) * outs[0]]}
    raise ValueError(name)


def judge(a, obs, e, gv, tol10, htol10):
    """None if the observation is what the case demands, else the name of the failing clause"""
    if "error" in obs:
        return "unexpected-" + obs["error"]
    if obs.get("frame") is False:
        return "argument-changed"
    op = a["op"]
    if op in ("convert", "back"):
        if not uc.close(obs["x"], uc.num(e["x"], gv), tol10):
            return "magnitude"
        if not uc.close(obs["si"], uc.num(e["si"], gv), tol10):
            return "multiply-back"
        if "rs_x" in obs and not (uc.close(obs["rs_x"], uc.num(e["x"], gv), tol10) and uc.close(obs["rs_si"], uc.num(e["si"], gv), tol10)):
            return "rescale"
        if "uq_x" in obs and not uc.close(obs["uq_x"], uc.num(e["x"], gv), tol10):
            return "uncertain-magnitude"
        return None
    if op == "via":
        if not uc.close(obs["x"], uc.num(e["x"], gv), tol10):
            return "direct"
        if not uc.close(obs["y"], uc.num(e["y"], gv), tol10):
            return "composed"
        return None
    if op == "unitless" and "xs" in e:
        if len(obs["xs"]) != len(e["xs"]):
            return "length"
        return None if all(uc.close(x, uc.num(ex, gv), tol10) for x, ex in zip(obs["xs"], e["xs"])) else "element"
    if op in ("scale", "unitless"):
        return None if uc.close(obs["x"], uc.num(e["x"], gv), tol10) else "magnitude"
    if op == "unitof":
        if obs["dim"] != e["unit"]["dim"]:
            return "unit-dimension"
        if not uc.close(obs["si"], uc.scale_num(e["unit"]["scale"], gv), tol10):
            return "unit-size"
        return None if uc.close(obs["mag"], uc.num(e["mag"], gv), tol10) else "simplified"
    if op == "strip":
        if e["raise"]:
            return None if obs["raised"] else "missing-raise"
        if obs["raised"]:
            return "unexpected-raise"
        return None if uc.close(obs["x"], uc.num(e["x"], gv), tol10) else "magnitude"
    if op == "mixnum":
        if e["raise"]:
            return None if obs["raised"] else "missing-raise"
        if obs["raised"]:
            return "unexpected-raise"
        fn = a["fn"]
        if fn in ("uniform", "uniform_tuple", "to_unitless"):
            if len(obs["si"]) != len(e["pure"]):
                return "length"
            if not all(uc.close(x, uc.num(ex, gv), tol10) for x, ex in zip(obs["si"], e["pure"])):
                return "element"
            if fn != "to_unitless":
                if len(obs["mags"]) != len(e["mags"]) or not all(uc.close(x, uc.num(ex, gv), tol10) for x, ex in zip(obs["mags"], e["mags"])):
                    return "common-unit"
            return None
        if fn == "unit_of":
            if obs["dim"] != e["unit"]["dim"]:
                return "unit-dimension"
            return None if uc.close(obs["usi"], uc.scale_num(e["unit"]["scale"], gv), tol10) else "unit-size"
        return None if all(v == 0 for v in obs["dim"].values()) else "dimensionality"
    if op == "plain":
        if len(obs["xs"]) != len(e["xs"]):
            return "length"
        for x, ex in zip(obs["xs"], e["xs"]):
            if not uc.close(x, uc.num(ex, gv), tol10):
                return "element"
        return None
    if op == "container":
        for key in ("xs", "alt"):
            if key in obs:
                if len(obs[key]) != len(e["xs"]):
                    return "length"
                for x, ex in zip(obs[key], e["xs"]):
                    if not uc.close(x, uc.num(ex, gv), tol10):
                        return "element"
        if obs.get("keys") is False:
            return "keys"
        return None
    if op == "incompatible":
        if not obs["raised"]:
            return "missing-raise"
        return None if obs["rs_raised"] else "rescale-missing-raise"
    if op == "dimensionality":
        if obs["dim"] != e["dim"]:
            return "dimensionality"
        return None if obs["unitless"] == e["unitless"] else "is_unitless"
    if op in ("defunit", "derived"):
        if obs["dim"] != e["unit"]["dim"]:
            return "unit-dimension"
        return None if uc.close(obs["si"], uc.scale_num(e["unit"]["scale"], gv), tol10) else "unit-size"
    if op == "roundtrip":
        for k in uc.DIMS:
            if obs["units"][k]["dim"] != e["units"][k]["dim"]:
                return "unit-dimension"
            if not uc.close(obs["units"][k]["si"], uc.scale_num(e["units"][k]["scale"], gv), tol10):
                return "unit-size"
            if not uc.close(obs["factors"][k], uc.num(e["factor"][k], gv), tol10):
                return "factor"
        return None
    if op == "bexp":
        if e["raise"]:
            return None if obs["raised"] else "missing-raise"
        import numpy as np
        vals = np.array([float(uc.num(v, gv)) for v in e["vals"]])
        vals2 = np.array([float(uc.num(v, gv)) for v in e["vals2"]])
        try:   # the plain routine on the pure values
            with np.errstate(all="ignore"):
                if a["fn"] == "sum":
                    want = list(np.atleast_1d(np.sum(vals.reshape(e["rows"], -1), axis=1 if e["rows"] > 1 else None)))
                elif a["be"] in ("math", "mathfirst"):
                    want = [getattr(math, a["fn"])(v) for v in vals]
                elif len(vals2):
                    want = list(getattr(np, a["fn"])(vals, vals2))
                else:
                    want = list(getattr(np, a["fn"])(vals))
        except (OverflowError, ValueError):     # the plain routine itself refuses the number
            return None if obs["raised"] else "missing-raise"
        if obs["raised"]:
            return "unexpected-raise"
        if len(want) != len(obs["value"]):
            return "shape"
        for w, o in zip(want, obs["value"]):
            if not math.isfinite(w):
                if math.isfinite(o) or (math.isnan(w) != math.isnan(o)):
                    return "value"
            elif not uc.close(o, Fraction(float(w)), htol10):
                return "value"
        return None
    if op == "helper":
        name = a["name"]
        if e["incompat"]:     # values of different dimensions are never close / equal
            return None if obs.get("bool") is False else "truth-value"
        if name == "compare_equality" and e["same"]:
            return None  # equality of independently rounded doubles is not decided (see skip count)
        A = [float(uc.num(v, gv)) for v in e["A"]]
        B = [float(uc.num(v, gv)) for v in e["B"]]
        C = [float(uc.num(v, gv)) for v in e["C"]]
        e = dict(e, rtol_f=float(uc.num(e["rtol"], gv)))
        outs = [float(uc.num(v, gv)) for v in e["outs"]]
        want = _plain(name, e, A, B, C, outs)
        if "bool" in want:
            return None if obs.get("bool") == want["bool"] else "truth-value"
        if len(want["outs"]) != len(obs["outs"]) or want.get("shape") != obs.get("shape"):
            return "shape"
        for w, o in zip(want["outs"], obs["outs"]):
            w = [float(v) for v in w]
            o = o if isinstance(o, list) else [o]
            if len(w) != len(o):
                return "shape"
            for wv, ov in zip(w, o):
                if not uc.close(ov, Fraction(wv), htol10):
                    return "helper-value"
        return None
    raise ValueError(op)


def expected_view(e):
    return e


def replay_case(case):
    gens = case["exp"]["gens"]
    gv = uc.gen_values(gens)
    obs = run_history(case["in"], gens)
    bad = []
    ops = case["in"]["ops"]
    for i, a in enumerate(ops):
        if i >= len(obs):
            break
        try:
            clause = judge(a, obs[i], case["exp"]["obs"][i], gv, case["exp"]["tol10"], case["exp"]["htol10"])
        except Exception as ex:  # noqa - an observation of an unforeseen shape/type is a disagreement, not a crash
            clause = "unjudgeable-observation:" + type(ex).__name__
        if clause is not None:
            bad.append((i, a, clause, obs[i]))
            break
    return bad, obs


def _fn_of(a):
    return {"convert": "to_unitless", "back": "to_unitless", "via": "to_unitless", "scale": "to_unitless",
            "container": "to_unitless", "incompatible": "to_unitless", "plain": "to_unitless", "dimensionality": "get_physical_dimensionality",
            "unitof": "unit_of", "strip": "to_unitless", "mixnum": "mixed-container", "defunit": "default_unit_in_registry", "unitless": "unitless_in_registry", "derived": "get_derived_unit",
            "roundtrip": "unit_registry_from_human_readable", "bexp": "Backend.exp"}.get(a["op"], a.get("name", a["op"]))


def _plain_key(a):
    """what is asked: the container form, how the target is written and whether a number factor is written out"""
    return {"form": a["form"], "tw": a["tw"], "factor": "1" if list(a["k"]) == [1, 1] else "k",
            "target": "*".join("%s^%d" % (f["n"], f["p"]) for f in a["t"]) or "dimensionless"}


def _key(case, i, a, clause):
    key = {"fn": _fn_of(a), "op": a["op"], "clause": clause, "cls": case.get("cls", "")}
    if a["op"] == "container":
        key["kind"] = a["kind"]
    if a["op"] == "plain":
        key.update(_plain_key(a))
    if a["op"] == "bexp":
        key.update(be=a["be"], call=a["fn"], form=a["form"])
    if a["op"] == "helper":
        key.update(variant=a.get("v", "default"), ns=a.get("ns", "units"))
    if a["op"] == "mixnum":
        key.update(call=a["fn"], numfirst=bool(a["numfirst"]))
    if a["op"] in ("dimensionality", "unitless", "unitof") and "form" in a:
        key["form"] = a["form"]
    if a["op"] == "incompatible":
        key["value"] = "plain-number" if not case["in"]["ux"] else "quantity"
    if a["op"] == "derived":
        key["key"] = a["key"]
    if a["op"] == "roundtrip":
        key["amount"] = a["reg"]["amount"]
        key["length"] = a["reg"]["length"]
    if "reg" in a:
        key["registry"] = "scaled-entries" if a["reg"].get("factors") else "unit-objects"
    return key


# --------------------------------------------------------------------------- code -> spec traces
def _enc(v):
    f = uc.enc_float(v)
    return f if f is not None else {"s": 2, "m": [], "e": 0}   # 2 = not a finite double: never accepted


def trace_of(cin, obs):
    """events for UnitsTrace: the quantity as written, then one event per executed operation with the
    observed doubles encoded exactly"""
    ev = [{"ev": "factor", "n": f["n"], "p": f["p"]} for f in cin["ux"]]
    ev.append({"ev": "seal", "mag": cin["magq"]})
    for a, o in zip(cin["ops"], obs):
        op = a["op"]
        e = {"ev": op}
        if "error" in o:
            e = {"ev": "error", "op": op, "exc": o["error"]}
            if "reg" in a:
                e["reg"] = a["reg"]
            if op == "plain":
                e.update(form=a["form"], tw=a["tw"], k=a["k"], t=a["t"])
            ev.append(e)
            break
        if op in ("convert", "back"):
            e.update(x=_enc(o["x"]), si=_enc(o["si"]))
            if op == "convert":
                e.update(t=a["t"], rs_x=_enc(o["rs_x"]), rs_si=_enc(o["rs_si"]), uq_x=_enc(o["uq_x"]))
        elif op == "via":
            e.update(u1=a["u1"], u2=a["u2"], x=_enc(o["x"]), y=_enc(o["y"]))
        elif op == "scale":
            e.update(k=a["k"], x=_enc(o["x"]))
        elif op == "container":
            e.update(kind=a["kind"], t=a["t"], xs=[_enc(v) for v in o["xs"]])
        elif op == "plain":
            e.update(form=a["form"], tw=a["tw"], k=a["k"], t=a["t"], xs=[_enc(v) for v in o["xs"]])
        elif op == "incompatible":
            e.update(t=a["t"], raised=bool(o["raised"]), rs_raised=bool(o["rs_raised"]))
        elif op == "dimensionality":
            e.update(form=a.get("form", "scalar"), dim={k: uc.clean_int(o["dim"].get(k, 0)) for k in uc.DIMS},
                     extra=sorted(set(o["dim"]) - set(uc.DIMS)), unitless=bool(o["unitless"]))
        elif op == "unitof":
            e.update(form=a["form"], simp=bool(a["simp"]), dim={k: uc.clean_int(o["dim"].get(k, 0)) for k in uc.DIMS}, si=_enc(o["si"]), mag=_enc(o["mag"]))
        elif op == "strip":
            e.update(raised=bool(o["raised"]), x=_enc(o.get("x", 0.0)))
        elif op == "mixnum":
            e.update(fn=a["fn"], numfirst=bool(a["numfirst"]), raised=bool(o["raised"]), si=[_enc(v) for v in o.get("si", [])],
                     mags=[_enc(v) for v in o.get("mags", [])], usi=_enc(o.get("usi", 0.0)),
                     dim={k: uc.clean_int(o.get("dim", {}).get(k, 0)) for k in uc.DIMS})
        elif op in ("defunit", "derived"):
            e.update(reg=uc.reg_event(a["reg"]), dim={k: uc.clean_int(o["dim"].get(k, 0)) for k in uc.DIMS}, si=_enc(o["si"]))
            if op == "derived":
                e["key"] = a["key"]
        elif op == "unitless":
            e.update(reg=uc.reg_event(a["reg"]), form=a.get("form", "scalar"), x=_enc(o.get("x", 0.0)), xs=[_enc(v) for v in o.get("xs", [])])
        elif op == "roundtrip":
            e.update(reg=uc.reg_event(a["reg"]),
                     units=[{"d": k, "dim": {kk: uc.clean_int(o["units"][k]["dim"].get(kk, 0)) for kk in uc.DIMS},
                             "si": _enc(o["units"][k]["si"]), "factor": _enc(o["factors"][k])} for k in uc.DIMS])
        elif op == "bexp":
            e.update(be=a["be"], fn=a["fn"], form=a["form"], raised=bool(o["raised"]), exc=o.get("exc", ""))
        else:
            continue
        e["frame"] = bool(o.get("frame", True))
        ev.append(e)
    ev.append({"ev": "end"})
    return ev


class Gen(object):
    """seeded histories beyond the exhaustive bounds; names come from the spec's catalog (passed in)"""

    def __init__(self, rng, catalog, regs, keys, max_factors=5, max_ops=6):
        self.r = rng
        self.cat = catalog            # name -> dim tuple (from the spec, only used to find compatible targets)
        self.names = sorted(catalog)
        self.regs = regs
        self.keys = keys
        self.max_factors = max_factors
        self.max_ops = max_ops

    def uexpr(self, nmax):
        n = self.r.randint(1, nmax)
        names = self.r.sample(self.names, n)
        return [{"n": nm, "p": self.r.choice([-3, -2, -1, 1, 2, 3])} for nm in names]

    def dim(self, ux):
        d = [0] * 6
        for f in ux:
            for i, v in enumerate(self.cat[f["n"]]):
                d[i] += v * f["p"]
        return tuple(d)

    def compatible(self, ux):
        """another way of writing the same dimension: every factor replaced by a unit of the same dimension"""
        by = {}
        for nm, d in self.cat.items():
            by.setdefault(tuple(d), []).append(nm)
        out = []
        for f in ux:
            out.append({"n": self.r.choice(sorted(by[tuple(self.cat[f["n"]])])), "p": f["p"]})
        self.r.shuffle(out)
        return out

    def rational(self):
        n = self.r.choice([1, 2, 3, 7, 11, 13, 250, 999, 1024, 12345])
        d = self.r.choice([1, 1, 2, 3, 7, 8, 10, 125, 1000])
        return [self.r.choice([-1, 1]) * n, d]

    def scale_k(self, ops):
        """a scalar for Scale(k): after two scalings only factors made of 2, 3, 5, so that the exact mantissa the
        spec carries (the part of the magnitude coprime to 2, 3, 5) stays far below TLC's 32-bit integers"""
        if sum(1 for o in ops if o["op"] == "scale") >= 2:
            return self.r.choice([[2, 1], [1, 2], [-10, 1], [5, 3], [1, 1000], [-3, 8]])
        if self.r.random() < 0.08:
            return [0, 1]          # zero is a scalar too
        return self.rational()

    PLAIN_UNITS = [[], [{"n": "percent", "p": 1}], [{"n": "m", "p": 1}, {"n": "mm", "p": -1}], [{"n": "mm", "p": 1}, {"n": "m", "p": -1}],
                   [{"n": "min", "p": 1}, {"n": "s", "p": -1}], [{"n": "mol", "p": 1}, {"n": "umol", "p": -1}],
                   [{"n": "g", "p": 2}, {"n": "kg", "p": -1}, {"n": "mg", "p": -1}], [{"n": "h", "p": -1}, {"n": "ms", "p": 1}],
                   [{"n": "percent", "p": -1}], [{"n": "km", "p": 1}, {"n": "dm", "p": -1}]]

    def plain_history(self):
        """a plain number, scaled now and then, stripped with respect to dimensionless targets of size != 1"""
        ops = []
        for _ in range(self.r.randint(1, self.max_ops)):
            if self.r.random() < 0.25:
                ops.append({"op": "scale", "k": self.scale_k(ops)})
                continue
            tw = self.r.choice(["number", "scaled", "unit", "unit"])
            k = [1, 1] if tw == "unit" else self.r.choice([[1, 1000000000], [1000, 1], [1, 100], [2, 1], [5, 3], [1, 1], [7, 1000]])
            t = [] if tw == "number" else self.r.choice(self.PLAIN_UNITS)
            ops.append({"op": "plain", "form": self.r.choice(["scalar", "qscalar", "list", "tuple", "ndarray", "ndarray", "objarray", "qarray", "dict"]),
                        "tw": tw, "k": k, "t": t, "mults": [[1, 1], [2, 1], [-3, 2]]})
        return {"magq": self.rational(), "ux": [], "ops": ops}

    def history(self):
        x = self.r.random()
        if x < 0.12:
            return self.plain_history()
        if x < 0.2:   # a dimensionless ratio of two units of one dimension (the Backend then has a value to pass on)
            by = {}
            for nm, d in self.cat.items():
                if any(d):
                    by.setdefault(tuple(d), []).append(nm)
            names = self.r.choice(sorted(v for v in by.values() if len(v) >= 2))
            n1, n2 = self.r.sample(sorted(names), 2)
            ux = [{"n": n1, "p": 1}, {"n": n2, "p": -1}]
        else:
            ux = self.uexpr(self.max_factors)
        mag = self.rational()
        ops = []
        cur = ux
        for _ in range(self.r.randint(1, self.max_ops)):
            k = self.r.choice(["convert", "convert", "via", "scale", "back", "container", "incompatible",
                               "dimensionality", "defunit", "unitless", "derived", "roundtrip", "bexp", "unitof", "strip", "mixnum"])
            if k == "convert":
                cur = self.compatible(cur)
                ops.append({"op": "convert", "t": cur})
            elif k == "via":
                u1, u2 = self.compatible(cur), self.compatible(cur)
                ops.append({"op": "via", "u1": u1, "u2": u2})
                cur = u2
            elif k == "scale":
                ops.append({"op": "scale", "k": self.scale_k(ops)})
            elif k == "back":
                ops.append({"op": "back"})
                cur = ux
            elif k == "container":
                ops.append({"op": "container", "kind": self.r.choice(["list", "tuple", "objarray", "dict", "array", "array2d", "empty_list", "empty_dict"]),
                            "t": self.compatible(cur), "mults": [[1, 1], [2, 1], [-3, 2]]})
            elif k == "incompatible":
                t = list(self.compatible(cur)) + [{"n": self.r.choice(["m", "kg", "s", "A", "K", "mol", "km", "min", "mmol"]),
                                                   "p": self.r.choice([-1, 1])}]
                ops.append({"op": "incompatible", "t": t})
            elif k == "unitless":
                ops.append({"op": k, "reg": self.r.choice(self.regs), "form": self.r.choice(["scalar", "list", "array"]),
                            "mults": [[1, 1], [2, 1], [-3, 2]]})
            elif k == "dimensionality":
                ops.append({"op": k, "form": self.r.choice(["scalar", "list", "array", "dict"]), "mults": [[1, 1], [2, 1], [-3, 2]]})
            elif k == "mixnum":
                ops.append({"op": k, "fn": self.r.choice(["uniform", "uniform_tuple", "unit_of", "dimensionality", "to_unitless"]),
                            "numfirst": self.r.random() < 0.4, "n": [3, 1]})
            elif k == "unitof":
                ops.append({"op": k, "form": self.r.choice(["scalar", "list", "tuple", "dict", "array"]), "simp": self.r.random() < 0.5,
                            "mults": [[1, 1], [2, 1], [-3, 2]]})
            elif k in ("defunit", "roundtrip"):
                ops.append({"op": k, "reg": self.r.choice(self.regs)})
            elif k == "derived":
                ops.append({"op": k, "reg": self.r.choice(self.regs), "key": self.r.choice(self.keys)})
            elif k == "bexp":
                be, fn, form = self.r.choice([("default", "log", "quantity"), ("patched_numpy", "exp", "quantity"), ("patched_numpy", "log10", "array"),
                                              ("patched_numpy", "logaddexp", "quantity"), ("numpy", "logaddexp2", "array"), ("math", "log1p", "quantity"),
                                              ("patched_numpy", "expm1", "list"), ("default", "log2", "unit"),
                                              ("math", "exp", "quantity"), ("math", "exp", "unit"), ("math", "exp", "uncertain"), ("mathfirst", "exp", "quantity"),
                                              ("numpy", "exp", "quantity"), ("numpy", "exp", "unit"), ("numpy", "exp", "uncertain"),
                                              ("numpy", "exp", "list"), ("numpy", "exp", "array"), ("numpy", "exp", "objarray"),
                                              ("numpy", "sum", "list"), ("numpy", "sum", "array"), ("numpy", "sum", "mixed")])
                ops.append({"op": "bexp", "be": be, "fn": fn, "form": form, "mults": [[1, 1], [2, 1], [-3, 2]]})
            else:
                ops.append({"op": k})
        return {"magq": mag, "ux": ux, "ops": ops}


def _run_trace(h):
    obs = _run_history_q(float(Fraction(*h["magq"])), h)
    try:
        return trace_of(h, obs), obs
    except Exception as ex:  # noqa - an observation that cannot be encoded is an observation that equals no expectation
        ev = [{"ev": "factor", "n": f["n"], "p": f["p"]} for f in h["ux"]] + [{"ev": "seal", "mag": h["magq"]}]
        ev += [{"ev": "error", "op": "encode", "exc": "Unencodable" + type(ex).__name__}, {"ev": "end"}]
        return ev, obs


def _run_history_q(mag, h):
    q = mag * uc.unit_expr(h["ux"]) if h["ux"] else mag
    qs = [q]
    out = []
    for a in h["ops"]:
        snap = _snapshot(qs)
        try:
            obs, nq = _step(a, q, qs, h["ux"])
        except Exception as e:  # noqa
            out.append({"error": type(e).__name__, "msg": str(e)[:160]})
            break
        obs["frame"] = _snapshot(qs) == snap      # an operation changes nothing it was given
        out.append(obs)
        if nq is not None:
            q = nq
            qs.append(nq)
    return out


# --------------------------------------------------------------------------- run
def _value_case(c):
    return any(a["op"] in ("bexp", "mixnum", "strip") and e.get("raise") is False
               for a, e in zip(c["in"]["ops"], c["exp"]["obs"]))


REQUIRED_OPS = {"mixnum", "unitof", "strip", "convert", "back", "via", "scale", "container", "incompatible", "dimensionality", "defunit",
                "unitless", "derived", "roundtrip", "bexp", "helper", "plain"}


def run(ctx):
    import core
    tier = "quick" if ctx.quick else "thorough"
    slices = QUICK if ctx.quick else THOROUGH
    # 1. the laws on the model (history hidden by a VIEW), 2. generation slices, catalog export
    jobs = [dict(module="Units_MC", cfg="Units_MC_%s.cfg" % INV[tier], require_actions=ACTIONS["inv"], workers=6),
            dict(module="Units_MC", cfg="Units_MC_catalog.cfg", require_cases=1, workers=1)]
    jobs += [dict(module="Units_MC", cfg="Units_MC_%s.cfg" % sl, require_cases=30) for sl in slices]
    results = uc.tlc_many(ctx, jobs, workers=4, parallel=5 if ctx.quick else 4)
    meta = [c for c in results[1].cases if c.get("cls") == "catalog"][0]["exp"]
    cat = {n: tuple(v["dim"][k] for k in uc.DIMS) for n, v in meta["cat"].items()}

    # 2. spec -> code
    per_slice = 800 if ctx.quick else None
    skipped_eq = 0
    seen_ops = set()
    for sl, res in zip(slices, results[2:]):
        # the sample always contains the Backend / mixed-container / strip cases in which a VALUE is demanded (a
        # dimensionless quantity): most generated quantities carry a dimension and only exercise the refusal
        sel = ctx.pick(res.cases, per_slice, always=_value_case)
        outs = ctx.pmap(replay_case, sel)
        ctx.cases_replayed += len(sel)
        for case, (bad, obs) in zip(sel, outs):
            ctx.ran({"mag": case["in"]["mag"], "ux": case["in"]["ux"], "ops": case["in"]["ops"]})
            for a, e in zip(case["in"]["ops"], case["exp"]["obs"]):
                seen_ops.add(a["op"])
                if a["op"] == "helper" and a["name"] == "compare_equality" and e["same"]:
                    skipped_eq += 1
            for i, a, clause, o in bad:
                ctx.violation(_key(case, i, a, clause),
                              {"direction": "spec->code", "case": case, "observed": {"step": i, "op": a, "obs": o, "clause": clause},
                               "expected": case["exp"]["obs"][i], "tlc_cfg": "Units_MC_%s.cfg" % sl})
        if sel:
            c = sel[0]
            ctx.sample({"slice": sl, "in": c["in"], "exp": c["exp"]["obs"]}, cap=8)
    if REQUIRED_OPS - seen_ops:
        raise core.MachineryFailure("vacuity: no replayed case exercises %s" % sorted(REQUIRED_OPS - seen_ops))
    if skipped_eq:
        ctx.skip("compare_equality of physically equal values written in different units (equality of "
                 "independently rounded doubles is not decided)", skipped_eq)
    ctx.exhaustive = not ctx.quick

    # 3. code -> spec
    n = 700 if ctx.quick else 16000
    g = Gen(ctx.rng, cat, meta["regs"], meta["keys"], max_factors=4 if ctx.quick else 5, max_ops=4 if ctx.quick else 6)
    hs = [g.history() for _ in range(n)]
    outs = ctx.pmap(_run_trace, hs)
    traces = [t for t, _ in outs]
    verdicts = ctx.validate_traces("UnitsTrace", "UnitsTrace.cfg", traces, chunk=4000, env=uc.TLC_ENV)
    for h, (tr, obs), (v, pos, clause) in zip(hs, outs, verdicts):
        ctx.ran({"mag": h["magq"], "ux": h["ux"], "ops": h["ops"]})
        if v == "accept":
            continue
        if clause.startswith("model:"):
            raise core.MachineryFailure("generated trace outside the model: %s at %d: %r" % (clause, pos, tr[:pos]))
        a = tr[pos - 1] if 0 < pos <= len(tr) else {}
        opname = a.get("op", a.get("ev", "?"))
        key = {"fn": _fn_of({"op": opname}), "op": opname, "clause": clause}
        if opname == "plain" and "form" in a:
            key.update(_plain_key(a))
        if opname == "bexp" and "form" in a:
            key.update(be=a["be"], call=a["fn"], form=a["form"])
        if opname == "roundtrip":
            reg = a.get("reg", {})
            key["amount"] = reg.get("amount")
            key["length"] = reg.get("length")
        ctx.violation(key, {"direction": "code->spec", "trace": tr, "history": h, "observed": obs,
                            "verdict": {"verdict": v, "pos": pos, "clause": clause}, "tlc_cfg": "UnitsTrace.cfg"})
    if traces:
        ctx.sample({"trace": traces[0][:6]}, cap=8)


def replay(ctx, rec):
    if rec.get("direction") == "spec->code":
        bad, obs = replay_case(rec["case"])
        for i, a, clause, o in bad:
            ctx.violation(rec["key"], {"observed": {"step": i, "op": a, "obs": o, "clause": clause},
                                       "expected": rec["case"]["exp"]["obs"][i]})
    else:
        tr, obs = _run_trace(rec["history"])
        v, pos, clause = ctx.validate_traces("UnitsTrace", "UnitsTrace.cfg", [tr], env=uc.TLC_ENV)[0]
        if v != "accept":
            ctx.violation(rec["key"], {"observed": obs, "verdict": {"verdict": v, "pos": pos, "clause": clause}})
