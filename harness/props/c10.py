"""C10 - kinetic results do not depend on the units rate constants, concentrations, time or registries use.

spec/UnitKinetics.tla (= Units + mass-action kinetics; UnitKinetics_MC slices, UnitKineticsTrace).
  spec -> code : (a) acceptance matrix: Reaction(..., param=q) must be accepted iff the case says
                 so; Equilibrium(..., param=q) must raise when the case says the dimension is
                 wrong.  (b) one physical problem written in many unit choices and evaluated in
                 many registries: get_odesys(rsys, unit_registry=reg) is driven through its own
                 to_arrays / pre_process / f_cb; the unitless arrays must be the spec's unitless
                 numbers and f, read back with the spec's concentration/time scale of the
                 registry, must be the spec's SI rate (sum of its terms).  extra['p_units'],
                 output_conc_unit / output_time_unit and a two-point integrate (scipy) with
                 quantities in and out are compared with the spec's numbers; integrated end
                 states are exact for zero-order systems and otherwise must agree across all
                 configurations of the same physical problem.  The alternative builder
                 (_create_odesys: validate, unit_aware_solve) is run on a share of the cases.
  code -> spec : seeded systems (random reactions of order 0..3, random rational magnitudes, deeper
                 unit expressions, random registries, right and wrong dimensions) are executed and
                 TLC (UnitKineticsTrace + FloatEnc) judges acceptance and every unitless rate.
"""
import math
from fractions import Fraction

import units_common as uc

LEVEL = "model_checking"
RULE = ("cases = finished configurations of the UnitKinetics_MC slices (TLC) + seeded systems judged by "
        "UnitKineticsTrace; distinct = distinct (system as written, conditions, registry, mode); non-trivial = "
        "a unit-carrying constant checked against an order, or a registry/unit choice different from plain SI")
ASSUMPTIONS = [
    "the physical problem (rate constants, concentrations, end time) is fixed in SI inside spec/UnitKinetics.tla; "
    "every written magnitude is derived from it by the unit's exact size",
    "rates are compared at relative 1e-10 of the sum of the absolute terms, conversions at 1e-12, integrated values at 1e-6 "
    "(scipy lsoda, rtol 1e-10); all tolerances come from the case",
    "only the scipy integrator is installed; native integrators are not exercised",
    "an Equilibrium is only required to refuse wrong dimensions (it also refuses right dimensions in non-molar units; not judged)",
]
SUBST = ("A", "B", "C", "D")
EXP_LAWS = ("arrhenius", "eyring", "eyringhs")
SCAN_MULTS = ([1, 1], [2, 1], [1, 2])      # must be the spec's ScanMults (checked against the case)
ALT_SHARE = 6


# --------------------------------------------------------------------------- construction
def _q(rec, gv):
    import chempy.units as cu
    mag = float(uc.num(rec["mag"], gv)) if isinstance(rec["mag"], dict) else float(Fraction(*rec["mag"]))
    unit = uc.unit_expr(rec["ux"])
    if unit is None:
        unit = cu.default_units.dimensionless
    return mag * unit


def _stoich(d):
    return {k: v for k, v in d.items() if v}


def _used(rxns):
    """substances that take part in some reaction (a system is built over exactly these)"""
    return [s for s in SUBST if any(r["rx"]["reac"][s] or r["rx"]["prod"][s] for r in rxns)]


def _law_param(rec, form, gv):
    """the `param` of a reaction for one way of giving its constants: form "inline" (quantities inside the
    expression) or "keys" (unique keys only; the values come as parameters or substitutions)"""
    from chempy.kinetics.rates import MassAction, Arrhenius, Eyring, EyringHS, Radiolytic
    law = rec.get("law", "mass")
    if law == "mass":
        return _q(rec["k"], gv) if form == "inline" else rec["name"]
    if law == "radiolytic":
        return Radiolytic([_q(rec["k"], gv)]) if form == "inline" else Radiolytic.fk(rec["name"])
    cls = {"arrhenius": Arrhenius, "eyring": Eyring, "eyringhs": EyringHS}[law]
    if form == "inline":
        return MassAction(cls([_q(rec["k"], gv), _q(rec["ea"], gv)]))
    return MassAction(cls(unique_keys=(rec["name"], rec["ename"])))


def _values(rec, gv):
    """name -> quantity for the constants of one reaction"""
    out = {rec["name"]: _q(rec["k"], gv)}
    if rec.get("law", "mass") in EXP_LAWS:
        out[rec["ename"]] = _q(rec["ea"], gv)
    return out


def _is_named(j, mode):
    return mode == "named" or (mode == "mixed" and j % 2 == 1)      # j is 1-based, as in UnitKinetics!IsNamed


def _try_reaction(rx, param, cls=None):
    from chempy import Reaction
    cls = cls or Reaction
    o = uc.observe(cls, _stoich(rx["reac"]), _stoich(rx["prod"]), param=param)
    return ("raised" not in o), o.get("raised")


# --------------------------------------------------------------------------- executing a case
def _eval_rates(rsys, reg, mode, conc, t0, params, oc=None, ot=None, subs=None, use_constants=False):
    """get_odesys through its own callbacks -> unitless arrays and unitless f"""
    from chempy.kinetics.ode import get_odesys
    kw = {}
    if oc is not None:
        kw["output_conc_unit"] = oc
    if ot is not None:
        kw["output_time_unit"] = ot
    if subs:
        kw["substitutions"] = subs
    if use_constants:       # kB, h, R are looked up in this namespace
        import chempy.units as cu
        kw["constants"] = cu.default_constants
    odesys, extra = get_odesys(rsys, include_params=(mode in ("inline", "subs")), unit_registry=reg, **kw)
    x, y, p = odesys.to_arrays(t0, conc, params)
    _x, _y, _p = odesys.pre_process(x, y, p)
    import numpy as np
    xe = np.atleast_1d(_x)[-1]          # the evaluation time (to_arrays turns a single time into [0, t])
    f = odesys.f_cb(xe, _y, _p)
    names = list(odesys.names)
    try:
        rr = uc.floats(extra["rate_exprs_cb"](xe, _y, _p))
    except Exception as ex:  # noqa
        rr = {"error": type(ex).__name__, "msg": str(ex)[:120]}
    obs = {"tev": float(xe), "rrates": rr, "cin": {n: float(v) for n, v in zip(names, uc.floats(y))},
           "f": {n: float(v) for n, v in zip(names, uc.floats(f))},
           "param_names": list(odesys.param_names),
           "kin": {n: float(v) for n, v in zip(odesys.param_names, uc.floats(p))},
           "p_units": {n: uc.project_unitful(pu) for n, pu in zip(odesys.param_names, extra["p_units"] or [])}}
    return odesys, extra, obs


def _integrate(odesys, t0, t1, conc, params):
    res = odesys.integrate([t0, t1], conc, params, integrator="scipy", atol=1e-30, rtol=1e-10, nsteps=20000)
    names = list(odesys.names)
    xo = uc.project_unitful(res.xout)
    yo = uc.project_unitful(res.yout)
    import numpy as np
    ymag = np.asarray(res.yout.magnitude, dtype=float)
    ysi = np.asarray(yo["si"], dtype=float).reshape(ymag.shape)
    return {"x1": float(np.asarray(res.xout.magnitude, dtype=float)[-1]), "x_dim": xo["dim"], "x1_si": float(xo["si"][-1]),
            "y0": {n: float(ymag[0, i]) for i, n in enumerate(names)}, "y_dim": yo["dim"],
            "y0_si": {n: float(ysi[0, i]) for i, n in enumerate(names)},
            "yend_si": {n: float(ysi[-1, i]) for i, n in enumerate(names)},
            "success": bool(res.info.get("success", True))}


def _alt(rsys_named, reg, conc, t0, t1, params):
    """the alternative builder: validate (unit check + rates as quantities) and unit_aware_solve"""
    from collections import defaultdict
    from chempy.kinetics.ode import _create_odesys
    import chempy.units as cu
    import numpy as np
    odesys, extra = _create_odesys(rsys_named, unit_registry=reg)
    v = extra["validate"](dict(conc, **params))
    out = {"rates_si": {k: uc.project_unitful(r)["si"] for k, r in v["rates"].items()},
           "rates_dim": {k: uc.project_unitful(r)["dim"] for k, r in v["rates"].items()},
           "k_after": {k: float(q.magnitude) for k, q in params.items()}}
    c = defaultdict(lambda: 0 * cu.default_units.molar, conc)
    res, ex = extra["unit_aware_solve"]([t0, t1], c, dict(params), integrator="scipy", atol=1e-30, rtol=1e-10, nsteps=20000)
    yo = uc.project_unitful(res.yout)
    ysi = np.asarray(yo["si"], dtype=float).reshape(np.asarray(res.yout.magnitude).shape)
    out["yend_si"] = {n: float(ysi[-1, i]) for i, n in enumerate(odesys.names)}
    out["y_dim"] = yo["dim"]
    out["x1_si"] = float(uc.project_unitful(res.xout)["si"][-1])
    return out


def _make_solver(rxns, used, reg):
    """ONE object of the alternative builder; every later call of the history goes to this object"""
    from chempy import ReactionSystem
    from chempy.kinetics.ode import _create_odesys
    rsys = ReactionSystem(rxns, " ".join(used), checks=())
    odesys, extra = _create_odesys(rsys, unit_registry=reg)
    return {"odesys": odesys, "extra": extra, "used": used}


def _call_solver(solver, op, call, sysrecs, gv):
    """one call with its own, freshly made quantities: accepted (+ projected answer) or refused"""
    from collections import defaultdict
    import numpy as np
    import chempy.units as cu
    used = solver["used"]
    params = {r["name"]: _q(k, gv) for r, k in zip(sysrecs, call["ks"])}
    conc = {s: _q(call["conc"][s], gv) for s in used}
    try:
        if op == "validate":
            v = solver["extra"]["validate"](dict(conc, **params))
            return {"accepted": True, "rates_si": {k: uc.project_unitful(r)["si"] for k, r in v["rates"].items()}}
        t1 = _q(call["t1"], gv)
        res, _ = solver["extra"]["unit_aware_solve"]([0 * t1, t1], defaultdict(lambda: 0 * cu.default_units.molar, conc),
                                                     dict(params), integrator="scipy", atol=1e-30, rtol=1e-10, nsteps=20000)
    except RuntimeError as e:   # raised by the scipy integrator wrapper ("failed"): a numerical, not a unit, matter
        return {"accepted": None, "integrator_failed": True, "msg": str(e)[:120]}
    except Exception as e:  # noqa
        return {"accepted": False, "exc": type(e).__name__, "msg": str(e)[:120]}
    yo = uc.project_unitful(res.yout)
    ysi = np.asarray(yo["si"], dtype=float).reshape(np.asarray(res.yout.magnitude).shape)
    return {"accepted": True, "y_dim": yo["dim"], "yend_si": {n: float(ysi[-1, i]) for i, n in enumerate(solver["odesys"].names)},
            "x1_si": float(uc.project_unitful(res.xout)["si"][-1]), "success": bool(res.info.get("success", True))}


def _snap(*dicts):
    """bit-exact picture of the quantities in some dicts (to see whether a call changed what it was given)"""
    out = []
    for d in dicts:
        for k in sorted(d or {}):
            v = d[k]
            try:
                import numpy as np
                out.append((k, repr(getattr(v, "dimensionality", "")), tuple(float(x).hex() for x in np.ravel(getattr(v, "magnitude", v)))))
            except Exception:  # noqa
                out.append((k, "object", type(v).__name__))
    return out


def _accept(a, gv, cls):
    """is the constant accepted?  how = init: by the constructor; method: by check_consistent_units() of an object
    made with the checks switched off; nochecks: is the object made at all when the checks are switched off"""
    import quantities as pq
    k = _q({"mag": a["mag"], "ux": a["kux"]}, gv)
    if a.get("kform", "quantity") == "uncertain":
        k = pq.UncertainQuantity(float(k.magnitude), k.units, 0.05 * float(k.magnitude))
    how = a.get("how", "init")
    if how in ("init", "zero"):
        o = uc.observe(cls, _stoich(a["rx"]["reac"]), _stoich(a["rx"]["prod"]), param=k)
        return {"accepted": "raised" not in o, "exc": o.get("raised")}
    if how == "inact":      # one more, inactive, reactant: the first reactant again (or D when there is none)
        first = sorted(_stoich(a["rx"]["reac"])) or ["D"]
        o = uc.observe(cls, _stoich(a["rx"]["reac"]), _stoich(a["rx"]["prod"]), param=k, inact_reac={first[0]: 1})
        return {"accepted": "raised" not in o, "exc": o.get("raised")}
    if how == "dontcheck":
        o = uc.observe(cls, _stoich(a["rx"]["reac"]), _stoich(a["rx"]["prod"]), param=k, dont_check={"consistent_units"})
        return {"accepted": None, "built": "raised" not in o, "exc": o.get("raised")}
    o = uc.observe(cls, _stoich(a["rx"]["reac"]), _stoich(a["rx"]["prod"]), param=k, checks=())
    if how == "nochecks":
        return {"accepted": None, "built": "raised" not in o, "exc": o.get("raised")}
    if "raised" in o:
        return {"accepted": None, "built": False, "exc": o["raised"]}
    o2 = uc.observe(o["v"].check_consistent_units)
    return {"accepted": (bool(o2["v"]) if "v" in o2 else False), "built": True, "exc": o2.get("raised")}


def run_case(case):
    """-> list of observations, one per op (an exception where a value is expected is the observation)"""
    from chempy import Reaction, ReactionSystem, Equilibrium
    gv = uc.gen_values(case["exp"]["gens"])
    cin = case["in"]
    out = []
    state = {}
    for a in cin["ops"]:
        op = a["op"]
        try:
            if op in ("rate_accept", "k_accept"):
                out.append(_accept(a, gv, Equilibrium if op == "k_accept" else Reaction))
            elif op == "build":
                acc = [_try_reaction(r["rx"], _law_param(r, "inline", gv))[0] for r in cin["sys"]]
                out.append({"accept": acc})
            elif op == "rates":
                mode = a["mode"]
                recs = cin["sys"]
                rxns, params, subs = [], {}, {}
                for j, r in enumerate(recs, 1):
                    if mode == "inline" or (mode == "mixed" and not _is_named(j, mode)):
                        rxns.append(Reaction(_stoich(r["rx"]["reac"]), _stoich(r["rx"]["prod"]), param=_law_param(r, "inline", gv)))
                    else:
                        rxns.append(Reaction(_stoich(r["rx"]["reac"]), _stoich(r["rx"]["prod"]), param=_law_param(r, "keys", gv)))
                        (subs if mode == "subs" else params).update(_values(r, gv))
                env = a["env"]
                use_constants = any(r.get("law", "mass") == "eyringhs" for r in recs)
                if any(r.get("law", "mass") in EXP_LAWS for r in recs):
                    if env["tsrc"] == "param":
                        params["temperature"] = _q(a["temp"], gv)
                    elif env["tsrc"] == "subs":
                        subs["temperature"] = _q(a["temp"], gv)
                    else:
                        from chempy.kinetics.rates import RampedTemp
                        subs["temperature"] = RampedTemp([_q(env["T0"], gv), _q(env["dTdt"], gv)])
                if any(r.get("law", "mass") == "radiolytic" for r in recs):
                    params["density"] = _q(env["density"], gv)
                    params["doserate"] = _q(env["doserate"], gv)
                used = _used(cin["sys"])
                rsys = ReactionSystem(rxns, " ".join(used))
                reg = uc.registry(a["reg"])
                conc = {s: _q(cin["cond"]["conc"][s], gv) for s in used}
                t0, t1 = _q(cin["cond"]["t0"], gv), _q(cin["cond"]["t1"], gv)
                nxt = [b for b in cin["ops"] if b["op"] == "output"]
                oc = uc.unit_expr(nxt[0]["oc"]) if nxt else None      # None (empty expression) = keyword left out
                ot = uc.unit_expr(nxt[0]["ot"]) if nxt else None
                snap0 = _snap(conc, params, subs)
                odesys, extra, obs = _eval_rates(rsys, reg, mode, conc, t1, params, oc, ot, subs, use_constants)
                # a variation of the initial state: several vectors at once, every substance in its own unit
                try:
                    s0 = used[0]
                    c0 = dict(conc)
                    c0[s0] = [float(Fraction(*m)) * conc[s0] for m in SCAN_MULTS]
                    xs, ys, ps = odesys.to_arrays(t1, c0, params)
                    xs, ys, ps = odesys.pre_process(xs, ys, ps)
                    import numpy as np
                    fs = np.asarray(odesys.f_cb(np.atleast_1d(xs)[..., -1], ys, ps), dtype=float)
                    names = list(odesys.names)
                    obs["scan"] = [{"cin": {n: uc._tofloat(ys[i][k]) for k, n in enumerate(names)},
                                    "f": {n: uc._tofloat(fs[i][k]) for k, n in enumerate(names)}} for i in range(len(SCAN_MULTS))]
                except Exception as ex:  # noqa
                    obs["scan"] = {"error": type(ex).__name__, "msg": str(ex)[:160]}
                # object history: reassign the constants of the same Reaction objects, build the system again
                if mode == "inline":
                    try:
                        for rxn, r, k2 in zip(rxns, recs, a["kre"]):
                            rxn.param = _law_param(dict(r, k=k2), "inline", gv)
                        obs["reassign"] = _eval_rates(rsys, reg, mode, conc, t1, params, None, None, subs, use_constants)[2]["f"]
                    except Exception as ex:  # noqa
                        obs["reassign"] = {"error": type(ex).__name__, "msg": str(ex)[:160]}
                    finally:
                        for rxn, r in zip(rxns, recs):
                            rxn.param = _law_param(r, "inline", gv)
                obs["frame"] = _snap(conc, params, subs) == snap0        # nothing that was passed in has changed
                if mode == "inline" and env["tsrc"] != "ramp" and not use_constants:
                    # the same rates straight from the reaction system, fed with quantities
                    try:
                        d = rsys.rates(dict(conc, **params, **{k: v for k, v in subs.items()}))
                        obs["direct"] = {k: uc.project_unitful(v) for k, v in d.items()}
                    except Exception as ex:  # noqa
                        obs["direct"] = {"error": type(ex).__name__, "msg": str(ex)[:160]}
                state.update(odesys=odesys, conc=conc, t0=t0, t1=t1, params=params, reg=reg, rxns=rxns)
                if mode == "named" and case.get("alt") and all(r.get("law", "mass") == "mass" for r in recs):
                    try:   # the alternative builder works on its own copies of the quantities
                        obs["alt"] = _alt(rsys, reg, {s: _q(cin["cond"]["conc"][s], gv) for s in used}, t0, t1,
                                          {r["name"]: _q(r["k"], gv) for r in cin["sys"]})
                    except Exception as e:  # noqa
                        obs["alt"] = {"error": type(e).__name__, "msg": str(e)[:160]}
                out.append(obs)
            elif op == "output":
                out.append(_integrate(state["odesys"], state["t0"], state["t1"], state["conc"], state["params"]))
            elif op == "solver":
                rxns = [Reaction(_stoich(r["rx"]["reac"]), _stoich(r["rx"]["prod"]), param=r["name"]) for r in cin["sys"]]
                state["solver"] = _make_solver(rxns, _used(cin["sys"]), uc.registry(a["reg"]))
                out.append({"ok": True})
            elif op in ("solve", "validate"):
                out.append(_call_solver(state["solver"], op, a["call"], cin["sys"], gv))
            else:
                raise ValueError(op)
        except Exception as e:  # noqa
            out.append({"error": type(e).__name__, "msg": str(e)[:200]})
            break
    return out


# --------------------------------------------------------------------------- judging (spec -> code)
def _sum_terms(terms, gv):
    tot = Fraction(0)
    scale = Fraction(0)
    for t in terms:
        v = t["c"] * uc.num(t["r"], gv)
        x = (uc.num(t["x"], gv) if "x" in t else 0) + (uc.num(t["x2"], gv) if "x2" in t else 0)
        if x != 0:     # the rate is r * exp(-x): the exponential is the plain routine on the spec's exact argument
            v = v * Fraction(math.exp(-float(x)))
        tot += v
        scale += abs(v)
    return tot, scale


def judge(case, i, a, obs, e, gv):
    """None or (clause, fn) naming the first demand of the case the observation does not meet"""
    tol, ctol = case["exp"]["tol10"], case["exp"]["ctol10"]
    if "error" in obs:
        return "unexpected-" + obs["error"], {"rates": "get_odesys", "output": "odesys.integrate"}.get(a["op"], a["op"])
    op = a["op"]
    if op in ("rate_accept", "k_accept") and a.get("how", "init") in ("method", "nochecks", "dontcheck"):
        fn = "Reaction" if op == "rate_accept" else "Equilibrium"
        if not obs["built"]:
            return "refused-with-checks-off", fn
        if a["how"] in ("nochecks", "dontcheck"):
            return None
        fn += ".check_consistent_units"
        if op == "rate_accept" and obs["accepted"] != e["accept"]:
            return ("refused-right-dimension" if e["accept"] else "accepted-wrong-dimension"), fn
        if op == "k_accept" and e["must_raise"] and obs["accepted"]:
            return "accepted-wrong-dimension", fn
        return None
    if op == "rate_accept":
        if obs["accepted"] != e["accept"]:
            return ("refused-right-dimension" if e["accept"] else "accepted-wrong-dimension"), "Reaction"
        return None
    if op == "k_accept":
        if e["must_raise"] and obs["accepted"]:
            return "accepted-wrong-dimension", "Equilibrium"
        return None
    if op == "build":
        if obs["accept"] != e["accept"]:
            return "acceptance", "Reaction"
        return None
    if op == "rates":
        back = uc.num(e["back"], gv)
        used = _used(case["in"]["sys"])
        if sorted(obs["cin"]) != sorted(used) or sorted(obs["f"]) != sorted(used):
            return "names", "get_odesys"
        for s in used:
            if not uc.close(obs["cin"][s], uc.num(e["cin"][s], gv), ctol):
                return "to_arrays-concentration", "get_odesys"
        for j, r in enumerate(case["in"]["sys"], 1):
            if not _is_named(j, a["mode"]):
                continue
            want = [(r["name"], e["kin"][j - 1], e["p_units"][j - 1])]
            if r.get("law", "mass") in EXP_LAWS:
                want.append((r["ename"], e["ein"][j - 1], e["e_units"][j - 1]))
            for n, val, unit in want:
                if n not in obs["kin"] or not uc.close(obs["kin"][n], uc.num(val, gv), ctol):
                    return "to_arrays-parameter", "get_odesys"
                pu = obs["p_units"].get(n)
                if pu is None or pu["dim"] != unit["dim"]:
                    return "p_units-dimension", "get_odesys"
                if not uc.close(pu["si"], uc.scale_num(unit["scale"], gv), ctol):
                    return "p_units-size", "get_odesys"
        for n, val, unit in (("temperature", e["tin"], e["t_unit"]), ("density", e["din"], e["d_unit"]), ("doserate", e["rin"], e["r_unit"])):
            if n in obs["kin"]:
                if not uc.close(obs["kin"][n], uc.num(val, gv), ctol):
                    return "to_arrays-parameter", "get_odesys"
                pu = obs["p_units"].get(n)
                if pu is None or pu["dim"] != unit["dim"]:
                    return "p_units-dimension", "get_odesys"
                if not uc.close(pu["si"], uc.scale_num(unit["scale"], gv), ctol):
                    return "p_units-size", "get_odesys"
        if not uc.close(obs["tev"], uc.num(e["tev"], gv), ctol):
            return "to_arrays-time", "get_odesys"
        if isinstance(obs["rrates"], dict):
            return "unexpected-" + obs["rrates"]["error"], "rate_exprs_cb"
        if len(obs["rrates"]) != len(e["rrates"]):
            return "reaction-rate-count", "rate_exprs_cb"
        for got, t in zip(obs["rrates"], e["rrates"]):
            tot, scale = _sum_terms([t], gv)
            if not uc.close_abs(got, tot / back, tol, scale / back):
                return "reaction-rate", "rate_exprs_cb"
        for s in used:
            tot, scale = _sum_terms(e["rates"][s], gv)
            if not uc.close_abs(obs["f"][s], tot / back, tol, scale / back):
                return "rate", "get_odesys"
        if obs.get("frame") is False:
            return "argument-changed", "get_odesys"
        re = obs.get("reassign")
        if re is not None:
            if "error" in re:
                return "unexpected-" + re["error"], "get_odesys(reassigned)"
            for s in used:
                tot, scale = _sum_terms(e["reassign"][s], gv)
                if not uc.close_abs(re.get(s), tot / back, tol, scale / back):
                    return "rate-after-reassignment", "get_odesys(reassigned)"
        scan = obs.get("scan")
        if scan is not None:
            if isinstance(scan, dict):
                return "unexpected-" + scan["error"], "get_odesys(scan)"
            if [list(m) for m in e["scanmults"]] != [list(m) for m in SCAN_MULTS] or e["scansub"] != used[0] or len(scan) != len(e["scan"]):
                return "scan-shape", "get_odesys(scan)"
            for row, erow in zip(scan, e["scan"]):
                for s in used:
                    if not uc.close(row["cin"].get(s), uc.num(erow["cin"][s], gv), ctol):
                        return "scan-to_arrays-concentration", "get_odesys(scan)"
                for s in used:
                    tot, scale = _sum_terms(erow["rates"][s], gv)
                    if not uc.close_abs(row["f"].get(s), tot / back, tol, scale / back):
                        return "scan-rate", "get_odesys(scan)"
        direct = obs.get("direct")
        if direct is not None:
            if "error" in direct:
                return "unexpected-" + direct["error"], "ReactionSystem.rates"
            for s in used:
                tot, scale = _sum_terms(e["rates"][s], gv)
                if s not in direct or direct[s]["dim"] != {"length": -3, "mass": 0, "time": -1, "current": 0, "temperature": 0, "amount": 1}:
                    return "direct-rate-dimension", "ReactionSystem.rates"
                if not uc.close_abs(direct[s]["si"], tot, tol, scale):
                    return "direct-rate", "ReactionSystem.rates"
        alt = obs.get("alt")
        if alt is not None:
            if "error" in alt:
                return "unexpected-" + alt["error"], "_create_odesys"
            for j, r in enumerate(case["in"]["sys"]):
                if not uc.close(alt["k_after"][r["name"]], uc.num(e["kwritten"][j], gv), ctol):
                    return "validate-changed-its-arguments", "validate"
            for s in used:
                tot, scale = _sum_terms(e["rates"][s], gv)
                if s not in alt["rates_si"]:
                    if tot != 0 or e["rates"][s]:
                        return "validate-missing-rate", "_create_odesys"
                    continue
                if not uc.close_abs(alt["rates_si"][s], tot, tol, scale):
                    return "validate-rate", "_create_odesys"
        return None
    if op == "solver":
        return None
    if op in ("solve", "validate"):
        fn = "unit_aware_solve" if op == "solve" else "validate"
        if obs["accepted"] is None:
            return None   # integrator failure: counted as skipped by the caller
        if obs["accepted"] != e["accept"]:
            return ("refused-right-dimension" if e["accept"] else "accepted-wrong-dimension"), fn
        if not e["accept"]:
            return None
        if op == "validate":
            for s in _used(case["in"]["sys"]):
                tot, scale = _sum_terms(e["rates"][s], gv)
                if s not in obs["rates_si"]:
                    return "validate-missing-rate", fn
                if not uc.close_abs(obs["rates_si"][s], tot, tol, scale):
                    return "validate-rate", fn
            return None
        if not obs["success"]:
            return None
        if not all(uc.finite(v) for v in obs["yend_si"].values()):
            return "integrated-value-not-finite", fn
        if obs["y_dim"] != {"length": -3, "mass": 0, "time": 0, "current": 0, "temperature": 0, "amount": 1}:
            return "output-dimension", fn
        if not uc.close(obs["x1_si"], uc.num(e["phys"]["t"], gv), ctol):
            return "output-time-unit", fn
        return None
    if op == "output":
        if not obs["success"]:
            return None  # integrator failure is not a unit question (counted by the caller)
        if not all(uc.finite(v) for v in obs["yend_si"].values()):
            return "integrated-value-not-finite", "odesys.integrate"
        if obs["x_dim"] != e["tunit"]["dim"] or obs["y_dim"] != e["cunit"]["dim"]:
            return "output-dimension", "odesys.integrate"
        if e["tmag"] and not uc.close(obs["x1"], uc.num(e["x1"], gv), ctol):
            return "output-time-magnitude", "odesys.integrate"
        if not uc.close(obs["x1_si"], uc.num(e["x1"], gv) * uc.scale_num(e["tunit"]["scale"], gv), ctol):
            return "output-time-unit", "odesys.integrate"
        used = _used(case["in"]["sys"])
        for s in used:
            if e["cmag"] and not uc.close(obs["y0"][s], uc.num(e["y0"][s], gv), ctol):
                return "output-conc-magnitude", "odesys.integrate"
            if not uc.close(obs["y0_si"][s], uc.num(e["y0"][s], gv) * uc.scale_num(e["cunit"]["scale"], gv), ctol):
                return "output-conc-unit", "odesys.integrate"
        if e["exact"]:
            for s in used:
                tot, scale = _sum_terms(e["yend"][s], gv)
                if not uc.close_abs(obs["yend_si"][s], tot, case["exp"]["itol10"], scale):
                    return "integrated-value", "odesys.integrate"
        return None
    raise ValueError(op)


def replay_case(case):
    gv = uc.gen_values(case["exp"]["gens"])
    obs = run_case(case)
    bad = None
    for i, a in enumerate(case["in"]["ops"]):
        if i >= len(obs):
            break
        try:
            r = judge(case, i, a, obs[i], case["exp"]["obs"][i], gv)
        except Exception as ex:  # noqa - an observation of an unforeseen shape/type is a disagreement, not a crash
            r = ("unjudgeable-observation:" + type(ex).__name__, a["op"])
        if r is not None:
            bad = (i, a, r[0], r[1], obs[i])
            break
    ends = {}
    for a, o in zip(case["in"]["ops"], obs):
        if a["op"] == "output" and "yend_si" in o and o.get("success"):
            ends["main"] = o["yend_si"]
        if a["op"] == "rates" and isinstance(o.get("alt"), dict) and "yend_si" in o["alt"] \
                and all(uc.finite(v) for v in o["alt"]["yend_si"].values()):
            ends["alt"] = o["alt"]["yend_si"]
    calls = []
    prior = "fresh"
    for i, (a, o) in enumerate(zip(case["in"]["ops"], obs)):
        if a["op"] not in ("solve", "validate"):
            continue
        e = case["exp"]["obs"][i]
        if (bad is None or i < bad[0]) and a["op"] == "solve" and e["accept"] and o.get("accepted") and o.get("success"):
            calls.append({"phys": e["phys"], "yend_si": o["yend_si"], "prior": prior, "step": i})
        prior = "after-" + ("answer" if e["accept"] else "refusal") if prior == "fresh" else prior
    if calls:
        ends = dict(ends or {}, calls=calls)
    return bad, obs, (ends or None)


def _prior(case, i):
    """what the solver object has been through before call i: nothing, or at least one call"""
    before = [(b, e) for b, e in list(zip(case["in"]["ops"], case["exp"]["obs"]))[:i] if b["op"] in ("solve", "validate")]
    if not before:
        return "fresh"
    return "after-answered-call" if any(e["accept"] for _, e in before) else "after-refused-call"


def _key(case, a, clause, fn, i=None):
    key = {"fn": fn, "op": a["op"], "clause": clause, "cls": case.get("cls", "")}
    if a["op"] in ("solve", "validate") and i is not None:
        key["prior"] = _prior(case, i)
    if "mode" in a:
        key["mode"] = a["mode"]
    if "kform" in a:
        key["kform"] = a["kform"]
        key["how"] = a.get("how", "init")
    if "env" in a:
        key["tsrc"] = a["env"]["tsrc"]
    if "laws" in a:
        key["laws"] = "+".join(sorted(set(a["laws"])))
        key["named_laws"] = "+".join(sorted({l for j, l in enumerate(a["laws"], 1) if _is_named(j, a["mode"])})) or "none"
    return key


# --------------------------------------------------------------------------- code -> spec
_CONC = [[{"n": "molar", "p": 1}], [{"n": "millimolar", "p": 1}], [{"n": "micromolar", "p": 1}], [{"n": "nanomolar", "p": 1}],
         [{"n": "mol", "p": 1}, {"n": "m", "p": -3}], [{"n": "mol", "p": 1}, {"n": "cm", "p": -3}],
         [{"n": "mol", "p": 1}, {"n": "litre", "p": -1}], [{"n": "mmol", "p": 1}, {"n": "dm3", "p": -1}],
         [{"n": "umol", "p": 1}, {"n": "mL", "p": -1}], [{"n": "mmol", "p": 1}, {"n": "cm3", "p": -1}],
         [{"n": "mol", "p": 1}, {"n": "dm", "p": -3}]]
_TIME = ["s", "min", "h", "ms", "us", "day"]
_EXTRA = [{"n": "mol", "p": 1}, {"n": "m", "p": 1}, {"n": "kg", "p": 1}, {"n": "K", "p": 1}, {"n": "s", "p": 1},
          {"n": "mol", "p": -1}, {"n": "m", "p": -1}, {"n": "s", "p": -1}, {"n": "A", "p": 1}]


def _pow(ux, p):
    return [{"n": f["n"], "p": f["p"] * p} for f in ux if f["p"] * p != 0]


class Gen(object):
    def __init__(self, rng, regs):
        self.r = rng
        self.regs = regs

    def rat(self):
        return [self.r.choice([1, 2, 3, 7, 11, 13, 17, 250, 999]), self.r.choice([1, 1, 2, 3, 7, 8, 10, 125, 1000])]

    def mild(self, zero=0.0):
        if self.r.random() < zero:
            return [0, 1]          # an absent substance
        return [self.r.choice([1, 2, 3, 7]), self.r.choice([1, 2, 8, 10])]

    def rx(self, order=None):
        order = self.r.randint(0, 3) if order is None else order
        reac = {s: 0 for s in SUBST}
        for _ in range(order):
            reac[self.r.choice(SUBST)] += 1
        while True:
            prod = {s: self.r.choice([0, 0, 1, 1, 2]) for s in SUBST}
            if any(prod[s] != reac[s] for s in SUBST):
                break
        return {"reac": reac, "prod": prod}

    def kux(self, order, wrong):
        ux = _pow(self.r.choice(_CONC), 1 - order) + [{"n": self.r.choice(_TIME), "p": -1}]
        if wrong:
            ux = ux + [self.r.choice(_EXTRA)]
        self.r.shuffle(ux)
        return ux

    def system(self):
        n = self.r.randint(1, 3)
        wrong_at = self.r.randrange(n) if self.r.random() < 0.2 else None
        rxns = []
        for j in range(n):
            rx = self.rx()
            order = sum(rx["reac"].values())
            rxns.append({"rx": rx, "kmag": self.rat(), "kux": self.kux(order, j == wrong_at), "name": "k%d" % (j + 1)})
        conc = {s: {"mag": ([0, 1] if self.r.random() < 0.15 else self.rat()), "ux": self.r.choice(_CONC)} for s in SUBST}
        mode = self.r.choice(["inline", "named"])
        # generation stays inside the model (UnitKinetics!Buildable): every substance needs a right-hand side with a
        # symbol in it, else the symbolic ODE back end cannot build the system, units or not
        def buildable(m):
            for s in _used(rxns):
                if not any(r["rx"]["prod"][s] != r["rx"]["reac"][s] and (m == "named" or sum(r["rx"]["reac"].values()) > 0)
                           for r in rxns):
                    return False
            return True
        if not buildable(mode):
            mode = "named"
            if not buildable(mode):
                return self.system()
        return {"kind": "system", "rxns": rxns, "conc": conc, "t0": {"mag": [0, 1], "ux": [{"n": self.r.choice(_TIME), "p": 1}]},
                "reg": self.r.choice(self.regs), "mode": mode}

    def accept(self):
        rx = self.rx()
        if self.r.random() < 0.5:
            order = sum(rx["reac"].values())
            return {"kind": "rate_accept", "rx": rx, "kmag": self.rat(), "kux": self.kux(order, self.r.random() < 0.5)}
        dnu = sum(rx["prod"].values()) - sum(rx["reac"].values())
        ux = _pow(self.r.choice(_CONC), dnu)
        if self.r.random() < 0.6:
            ux = ux + [self.r.choice(_EXTRA)]
        return {"kind": "k_accept", "rx": rx, "kmag": self.rat(), "kux": ux}

    def solver(self):
        """a history of 1-4 calls on ONE solver object: right and wrong dimensions in any order, new units and
        values every time"""
        base = self.system()
        rxns = base["rxns"]
        for r in rxns:     # the system itself is written with right dimensions (it only names the reactions)
            r["kux"] = self.kux(sum(r["rx"]["reac"].values()), False)
        calls = []
        for _ in range(self.r.randint(1, 4)):
            wrong_at = self.r.randrange(len(rxns)) if self.r.random() < 0.4 else None
            calls.append({"op": self.r.choice(["solve", "solve", "validate"]),
                          "call": {"ks": [{"mag": self.mild(), "ux": self.kux(sum(r["rx"]["reac"].values()), j == wrong_at)}
                                          for j, r in enumerate(rxns)],
                                   "conc": {s: {"mag": self.mild(zero=0.3), "ux": self.r.choice(_CONC[:3] + _CONC[4:5])} for s in SUBST},
                                   "t1": {"mag": [self.r.choice([1, 3, 7]), self.r.choice([8, 100, 1000])],
                                          "ux": [{"n": self.r.choice(["s", "ms", "min"]), "p": 1}]}}})
        return {"kind": "solver", "rxns": rxns, "reg": base["reg"], "calls": calls}

    def item(self):
        x = self.r.random()
        return self.system() if x < 0.6 else (self.accept() if x < 0.85 else self.solver())


def _run_trace(h):
    try:
        return _run_trace_inner(h)
    except Exception as ex:  # noqa - never a crash: the trace ends in an error event that TLC rejects
        return [{"ev": "error", "op": "harness", "exc": "Unencodable" + type(ex).__name__}, {"ev": "end"}], {"error": type(ex).__name__}


def _run_trace_inner(h):
    from chempy import Reaction, ReactionSystem, Equilibrium
    if h["kind"] in ("rate_accept", "k_accept"):
        q = _q({"mag": h["kmag"], "ux": h["kux"]}, None)
        ok, exc = _try_reaction(h["rx"], q, cls=Equilibrium if h["kind"] == "k_accept" else None)
        return [{"ev": h["kind"], "rx": h["rx"], "kux": h["kux"], "accepted": ok}, {"ev": "end"}], {"accepted": ok, "exc": exc}
    if h["kind"] == "solver":
        return _run_solver_trace(h)
    ks = [_q({"mag": r["kmag"], "ux": r["kux"]}, None) for r in h["rxns"]]
    ev = [{"ev": "system", "rxns": [{"rx": r["rx"], "kmag": r["kmag"], "kux": r["kux"]} for r in h["rxns"]]}]
    acc = [_try_reaction(r["rx"], k)[0] for r, k in zip(h["rxns"], ks)]
    ev.append({"ev": "build", "accepted": acc})
    obs = {"accept": acc}
    if all(acc):
        used = _used(h["rxns"])
        conc = {s: _q(h["conc"][s], None) for s in used}
        t0 = _q(h["t0"], None)
        ev.append({"ev": "conditions", "conc": h["conc"], "t0": h["t0"]})
        try:
            if h["mode"] == "inline":
                rxns = [Reaction(_stoich(r["rx"]["reac"]), _stoich(r["rx"]["prod"]), param=k) for r, k in zip(h["rxns"], ks)]
                params = {}
            else:
                rxns = [Reaction(_stoich(r["rx"]["reac"]), _stoich(r["rx"]["prod"]), param=r["name"]) for r in h["rxns"]]
                params = {r["name"]: k for r, k in zip(h["rxns"], ks)}
            rsys = ReactionSystem(rxns, " ".join(used), checks=())
            _, _, o = _eval_rates(rsys, uc.registry(h["reg"]), h["mode"], conc, t0, params)
            obs.update(o)
            e = {"ev": "rates", "reg": uc.reg_event(h["reg"]), "mode": h["mode"],
                 "used": used, "f": {s: _enc(o["f"].get(s)) for s in used}, "cin": {s: _enc(o["cin"].get(s)) for s in used},
                 "kin": [_enc(o["kin"].get(r["name"])) if h["mode"] == "named" else _enc(0.0) for r in h["rxns"]],
                 "pdim": [({k: o["p_units"][r["name"]]["dim"].get(k, 0) for k in uc.DIMS} if r["name"] in o["p_units"] else {k: 99 for k in uc.DIMS})
                          if h["mode"] == "named" else {k: 0 for k in uc.DIMS} for r in h["rxns"]],
                 "psi": [_enc(o["p_units"][r["name"]]["si"]) if (h["mode"] == "named" and r["name"] in o["p_units"]) else _enc(0.0) for r in h["rxns"]]}
            ev.append(e)
        except Exception as ex:  # noqa
            obs["error"] = type(ex).__name__
            obs["msg"] = str(ex)[:200]
            ev.append({"ev": "error", "op": "rates", "exc": type(ex).__name__})
    ev.append({"ev": "end"})
    return ev, obs


def _run_solver_trace(h):
    from chempy import Reaction
    ev = [{"ev": "system", "rxns": [{"rx": r["rx"], "kmag": r["kmag"], "kux": r["kux"]} for r in h["rxns"]]},
          {"ev": "build", "accepted": [True] * len(h["rxns"])},
          {"ev": "solver", "reg": uc.reg_event(h["reg"])}]
    obs = []
    try:
        rxns = [Reaction(_stoich(r["rx"]["reac"]), _stoich(r["rx"]["prod"]), param=r["name"]) for r in h["rxns"]]
        solver = _make_solver(rxns, _used(h["rxns"]), uc.registry(h["reg"]))
    except Exception as ex:  # noqa
        ev.append({"ev": "error", "op": "solver", "exc": type(ex).__name__})
        ev.append({"ev": "end"})
        return ev, [{"error": type(ex).__name__, "msg": str(ex)[:200]}]
    used = _used(h["rxns"])
    for c in h["calls"]:
        o = _call_solver(solver, c["op"], c["call"], h["rxns"], None)
        obs.append(o)
        if o["accepted"] is None:
            continue   # the integrator gave up: the call is not judged (the spec's solver has no memory, so it may be left out)
        e = {"ev": c["op"], "call": c["call"], "accepted": bool(o["accepted"])}
        if c["op"] == "validate":
            e["rates"] = {s: _enc(o.get("rates_si", {}).get(s)) for s in used}
        ev.append(e)
    ev.append({"ev": "end"})
    return ev, obs


def _enc(v):
    f = uc.enc_float(v) if v is not None else None
    return f if f is not None else {"s": 2, "m": [], "e": 0}


# --------------------------------------------------------------------------- run
def run(ctx):
    import core
    cfgs = ["accept", "refuse", "rates_q", "laws_q", "rad_q", "solver_q"] if ctx.quick else \
        ["accept", "refuse", "rates_t", "subs_t", "regs_t", "laws_q", "laws_t", "rad_q", "solver_t"]
    # (-coverage costs a factor two: the action-coverage guard runs on the small configs only; the others are
    #  guarded by require_cases and by the classes of the replayed cases)
    jobs = [dict(module="UnitKinetics_MC", cfg="UnitKinetics_MC_%s.cfg" % c, require_cases=50,
                 require_actions={"refuse": ["GenSetSystem", "Build"],
                                  "rad_q": ["GenSetSystem", "Build", "GenSetConditions", "GenPhysicalRate", "GenOutput"]}.get(c, ()))
            for c in cfgs]
    import time as _time
    _t0 = _time.time()
    results = uc.tlc_many(ctx, jobs, workers=3 if ctx.quick else 4, parallel=8 if ctx.quick else 4)
    ctx.notes.append("phase tlc %.1fs" % (_time.time() - _t0))
    # the registries of the spec (for the seeded generator): those that occur in the generated cases
    regs = {}
    for res in results:
        for c in res.cases:
            for a in c["in"]["ops"]:
                if "reg" in a:
                    regs[core.stable_hash(a["reg"])] = a["reg"]
    meta = {"regs": [regs[k] for k in sorted(regs)]}
    if len(meta["regs"]) < 3:
        raise core.MachineryFailure("vacuity: fewer than three registries in the generated cases")

    groups = {}
    solver_groups = {}
    fails = 0
    for cfg, res in zip(cfgs, results):
        heavy = cfg.split("_")[0] in ("rates", "regs", "solver", "laws", "subs", "rad")
        sel = ctx.pick(res.cases, ({"solver_q": 60, "laws_q": 80, "rad_q": 60}.get(cfg, 110) if heavy else 1000) if ctx.quick
                       else ({"solver_t": 4000}.get(cfg)))
        for k, c in enumerate(sel):
            c["alt"] = heavy and (int(core.stable_hash(c["in"]), 16) % ALT_SHARE == 0)
        _t1 = _time.time()
        outs = ctx.pmap(replay_case, sel, chunksize=1 if heavy else None)
        ctx.notes.append("phase replay %s %d cases %.1fs" % (cfg, len(sel), _time.time() - _t1))
        ctx.cases_replayed += len(sel)
        for case, (bad, obs, ends) in zip(sel, outs):
            ctx.ran(case["in"])
            for a, o in zip(case["in"]["ops"], obs):
                if (a["op"] == "output" and o.get("success") is False) or o.get("integrator_failed"):
                    fails += 1
                if a["op"] == "rates" and isinstance(o, dict) and "alt" in o:
                    ctx.counters["alternative_builder_cases"] += 1
            if bad is not None:
                i, a, clause, fn, o = bad
                ctx.violation(_key(case, a, clause, fn, i),
                              {"direction": "spec->code", "case": case, "observed": {"step": i, "op": a, "clause": clause, "obs": o},
                               "expected": case["exp"]["obs"][i], "tlc_cfg": "UnitKinetics_MC_%s.cfg" % cfg})
            elif ends:
                g = [e for a, e in zip(case["in"]["ops"], case["exp"]["obs"]) if a["op"] == "output"]
                if g and not g[0]["exact"]:
                    for which, vals in ends.items():
                        if which != "calls":
                            groups.setdefault(g[0]["group"], []).append((case, which, vals, case["exp"]["itol10"]))
            for c in (ends or {}).get("calls", ()):   # answers of solver objects, by physical problem
                gk = core.stable_hash({"rx": [r["rx"] for r in case["in"]["sys"]], "phys": c["phys"]})
                solver_groups.setdefault(gk, []).append((case, c))
        if sel:
            ctx.sample({"cfg": cfg, "in": sel[0]["in"], "exp": sel[0]["exp"]["obs"]}, cap=6)
    if fails:
        ctx.skip("integrator reported failure (not a unit question)", fails)
    # RegistryIndependent on integrated values: all configurations of one physical problem agree
    for name, items in sorted(groups.items()):
        ref = items[0][2]
        for case, which, vals, itol in items[1:]:
            for s in sorted(ref):
                if s not in vals or not uc.close_abs(vals[s], Fraction(ref[s]), itol, Fraction(max(abs(ref[x]) for x in ref))):
                    a = [b for b in case["in"]["ops"] if b["op"] == "rates"][0]
                    ctx.violation({"fn": "unit_aware_solve" if which == "alt" else "odesys.integrate", "op": "output",
                                   "clause": "integrated-value-depends-on-configuration", "cls": case["cls"], "mode": a["mode"]},
                                  {"direction": "spec->code", "case": case, "observed": {"yend_si": vals, "which": which},
                                   "expected": {"yend_si_of_reference_configuration": ref, "group": name}})
                    break
        ctx.counters["integrated_groups"] += 1
        ctx.counters["integrated_configurations"] += len(items)
    # a solver object has no memory: equal physical problems get equal answers, whatever the object was asked
    # before and whatever its registry (reference: an answer given by a fresh object, if there is one)
    for gk, items in sorted(solver_groups.items()):
        items.sort(key=lambda it: (it[1]["prior"] != "fresh", core.stable_hash(it[0]["in"]), it[1]["step"]))
        ref = items[0][1]["yend_si"]
        top = Fraction(max(abs(v) for v in ref.values()))
        for case, c in items[1:]:
            if any(s not in c["yend_si"] or not uc.close_abs(c["yend_si"][s], Fraction(ref[s]), case["exp"]["itol10"], top) for s in ref):
                a = case["in"]["ops"][c["step"]]
                ctx.violation({"fn": "unit_aware_solve", "op": "solve", "clause": "answer-depends-on-history-or-registry",
                               "cls": case["cls"], "prior": _prior(case, c["step"])},
                              {"direction": "spec->code", "case": case, "observed": {"step": c["step"], "yend_si": c["yend_si"]},
                               "expected": {"yend_si_of_reference_call": ref, "reference_prior": items[0][1]["prior"], "phys": c["phys"]}})
        ctx.counters["solver_problems"] += 1
        ctx.counters["solver_answers"] += len(items)
    ctx.exhaustive = not ctx.quick

    # code -> spec
    n = 300 if ctx.quick else 6000
    g = Gen(ctx.rng, meta["regs"])
    hs = [g.item() for _ in range(n)]
    _t2 = _time.time()
    outs = ctx.pmap(_run_trace, hs, chunksize=4)
    traces = [t for t, _ in outs]
    ctx.notes.append("phase run traces %.1fs" % (_time.time() - _t2))
    verdicts = ctx.validate_traces("UnitKineticsTrace", "UnitKineticsTrace.cfg", traces, chunk=3000, env=uc.TLC_ENV)
    for h, (tr, obs), (v, pos, clause) in zip(hs, outs, verdicts):
        ctx.ran(h)
        if h["kind"] == "solver":
            nf = sum(1 for o in obs if isinstance(o, dict) and o.get("integrator_failed"))
            if nf:
                ctx.skip("integrator reported failure (not a unit question)", nf)
        if v == "accept":
            continue
        if clause.startswith("model:"):
            raise core.MachineryFailure("generated trace outside the model: %s at %d: %r" % (clause, pos, tr[:pos]))
        a = tr[pos - 1] if 0 < pos <= len(tr) else {}
        fn = {"rate_accept": "Reaction", "build": "Reaction", "k_accept": "Equilibrium", "solve": "unit_aware_solve",
              "validate": "validate", "solver": "_create_odesys"}.get(a.get("ev"), "get_odesys")
        key = {"fn": fn, "op": a.get("op", a.get("ev")), "clause": clause, "mode": h.get("mode", "")}
        if a.get("ev") in ("solve", "validate"):
            before = [e for e in tr[:pos - 1] if e["ev"] in ("solve", "validate")]
            key["prior"] = "fresh" if not before else ("after-answered-call" if any(e["accepted"] for e in before) else "after-refused-call")
        ctx.violation(key,
                      {"direction": "code->spec", "trace": tr, "history": h, "observed": obs,
                       "verdict": {"verdict": v, "pos": pos, "clause": clause}, "tlc_cfg": "UnitKineticsTrace.cfg"})
    if traces:
        ctx.sample({"trace": traces[0][:3]}, cap=8)


def replay(ctx, rec):
    if rec.get("direction") == "spec->code":
        if rec["key"].get("clause") == "integrated-value-depends-on-configuration":
            bad, obs, ends = replay_case(rec["case"])
            ref = rec["expected"]["yend_si_of_reference_configuration"]
            which = rec["observed"]["which"]
            vals = (ends or {}).get(which)
            if vals is None or any(not uc.close_abs(vals[s], Fraction(ref[s]), rec["case"]["exp"]["itol10"],
                                                    Fraction(max(abs(ref[x]) for x in ref))) for s in ref):
                ctx.violation(rec["key"], {"observed": {"yend_si": vals}, "expected": rec["expected"]})
            return
        if rec["key"].get("clause") == "answer-depends-on-history-or-registry":
            bad, obs, ends = replay_case(rec["case"])
            ref = rec["expected"]["yend_si_of_reference_call"]
            got = [c for c in (ends or {}).get("calls", ()) if c["step"] == rec["observed"]["step"]]
            top = Fraction(max(abs(v) for v in ref.values()))
            if not got or any(not uc.close_abs(got[0]["yend_si"].get(s, float("nan")), Fraction(ref[s]), rec["case"]["exp"]["itol10"], top)
                              for s in ref):
                ctx.violation(rec["key"], {"observed": got[0]["yend_si"] if got else None, "expected": rec["expected"]})
            return
        bad, obs, ends = replay_case(rec["case"])
        if bad is not None:
            i, a, clause, fn, o = bad
            ctx.violation(rec["key"], {"observed": {"step": i, "op": a, "clause": clause, "obs": o},
                                       "expected": rec["case"]["exp"]["obs"][i]})
    else:
        tr, obs = _run_trace(rec["history"])
        v, pos, clause = ctx.validate_traces("UnitKineticsTrace", "UnitKineticsTrace.cfg", [tr], env=uc.TLC_ENV)[0]
        if v != "accept":
            ctx.violation(rec["key"], {"observed": obs, "verdict": {"verdict": v, "pos": pos, "clause": clause}})
