"""C11 - arithmetic on equilibria keeps the constant consistent with the stoichiometry.

spec/EqArith.tla (+ EqArith_MC slices, EqArithTrace).  Directions:
  spec -> code : every state of the bounded register machine is a case = a history of
                 Load/Scale/Neg/Add/Sub (+ one closing Eliminate/Cancel/AsReactions) together
                 with the expected result of its last operation; the history is replayed on real
                 ``Equilibrium`` objects and the projected result compared with the expectation.
                 Answers that the property only constrains (elimination multipliers) are not
                 compared in Python: the recorded history goes back to TLC (EqArithTrace).
  code -> spec : seeded longer histories (<= 12 operations, random equilibria, up to 4 registers)
                 are executed on real objects; TLC judges every recorded step.

The binding layer only builds objects, calls the operators and projects results: stoichiometry
dicts as they are, the constant as its exponent vector over the constants of the loaded base
equilibria (distinct primes as ``Fraction`` - factorised by trial division - or sympy symbols -
read off ``as_powers_dict``) plus whatever is left over.
"""
from fractions import Fraction

import core

LEVEL = "model_checking"
RULE = ("cases = states of the EqArith_MC generation slices (one per history; the last operation is "
        "judged) + seeded histories validated step by step by EqArithTrace; distinct = distinct "
        "(history, constant mode); non-trivial = history contains at least one arithmetic operation "
        "or observation besides Load")
ASSUMPTIONS = [
    "equilibria carry no inactive parts (addition does not carry them: excluded by the property)",
    "constants are exact: distinct primes as fractions.Fraction or sympy symbols; units=None in as_reactions",
    "a combination whose net stoichiometry is zero for every species (e - e) is outside the model: "
    "the library refuses to construct such an equilibrium (ValueError)",
    "cancel() is only modelled when every species of its argument has a non-zero net coefficient",
]

PRIMES = [2, 3, 5, 7, 11, 13, 17, 19, 23, 29, 31, 37, 41, 43, 47, 53, 59, 61, 67, 71]
RATE_PRIME = {"kf": 101, "kb": 103, "c0": 107}
# constant / call forms: Fraction primes with n*e, e*n, numpy integers; sympy symbols with int and
# sympy.Integer multipliers; "mix": odd bases Fraction primes, even bases symbols (products mix both)
# "srat": the exact rationals are sympy Integers/Rationals instead of fractions.Fraction
MODES = ("frac", "sym", "frac-rmul", "sym-int", "mix", "frac-np", "srat")
BIG = 10 ** 6
LOOK_FAILED = object()
NREGS_OBS = 4  # registers listed in every observation (= NRegs of EqArithTrace.cfg)


# ------------------------------------------------------------------ projection
def _plain_map(d):
    """stoichiometry dict -> ({name: int}, defect-description)"""
    out = {}
    for k, v in d.items():
        if isinstance(v, bool) or not isinstance(v, int):
            try:
                if int(v) == v and type(v).__name__ in ("Integer", "One", "NegativeOne", "Zero", "int64", "int32"):
                    return None, "coefficient of type %s" % type(v).__name__
            except Exception:
                pass
            return None, "non-integer coefficient"
        out[str(k)] = int(v)
    return out, ""


def _encode_float(x):
    """fixed float encoder (i): exact small rational p/q, q <= 10^6, relative residual <= 1e-12"""
    if x != x or x in (float("inf"), float("-inf")) or x <= 0:
        raise ValueError("constant is not a positive finite number")   # -> "unprojectable": a defect, not a skip
    f = Fraction(x).limit_denominator(10 ** 6)
    if abs(float(f) - x) > 1e-12 * abs(x):
        return None
    return f


def _factor_fraction(x, names):
    """Fraction -> exponent vector over the primes of `names` + residue [n, d]"""
    if isinstance(x, int) and not isinstance(x, bool):
        x = Fraction(x)
    if isinstance(x, float):  # as_reactions multiplies by c0 ** dn = 1 ** negative = 1.0
        x = _encode_float(x)
        if x is None:
            return None, None, "unencodable"
    if not isinstance(x, Fraction):
        return None, None, "constant of type %s" % type(x).__name__
    n, d = x.numerator, x.denominator
    if n <= 0:
        return None, None, "non-positive constant"
    kexp = {}
    for name, p in names.items():
        e = 0
        while n % p == 0:
            n //= p
            e += 1
        while d % p == 0:
            d //= p
            e -= 1
        if e:
            kexp[name] = e
    if n > BIG or d > BIG:
        return None, None, "unencodable"
    return kexp, [n, d], ""


def _factor_sympy(x, names):
    import sympy
    x = sympy.sympify(x)
    kexp = {}
    rest = sympy.Integer(1)
    for b, e in x.as_powers_dict().items():
        if isinstance(b, sympy.Symbol) and b.name in names and e.is_Integer:
            if int(e):
                kexp[b.name] = int(e)
        else:
            rest *= b ** e
    if rest.is_Float:
        f = _encode_float(float(rest))
        if f is None:
            return None, None, "unencodable"
        rest = sympy.Rational(f.numerator, f.denominator)
    if rest.is_Rational and rest > 0 and rest.p < BIG and rest.q < BIG:
        return kexp, [int(rest.p), int(rest.q)], ""
    return None, None, "constant residue"


def _factor(x, names):
    """constant -> exponent vector over the base constants (primes and/or symbols) + residue"""
    if isinstance(x, (int, float, Fraction)) and not isinstance(x, bool):
        return _factor_fraction(x, {n: p for n, p in names.items() if p is not True})
    import sympy
    x = sympy.sympify(x)
    kexp = {}
    rest = sympy.Integer(1)
    for b, e in x.as_powers_dict().items():
        if isinstance(b, sympy.Symbol) and names.get(b.name) is True and e.is_Integer:
            if int(e):
                kexp[b.name] = int(e)
        else:
            rest *= b ** e
    if rest.is_Float:
        f = _encode_float(float(rest))
        if f is None:
            return None, None, "unencodable"
        rest = sympy.Rational(f.numerator, f.denominator)
    if not (rest.is_Rational and rest > 0):
        return None, None, "constant residue"
    k2, rest2, bad = _factor_fraction(Fraction(int(rest.p), int(rest.q)),
                                      {n: p for n, p in names.items() if p is not True})
    if bad:
        return None, None, bad
    kexp.update(k2)
    return kexp, rest2, ""


def _project_rxn(obj, names, sym, want_cls):
    reac, bad1 = _plain_map(obj.reac)
    prod, bad2 = _plain_map(obj.prod)
    o = {"raised": False, "exc": "", "bad": bad1 or bad2, "reac": reac or {}, "prod": prod or {},
         "kexp": {}, "rest": [1, 1]}
    if o["bad"]:
        return o
    if type(obj).__name__ != want_cls:
        o["bad"] = "result of class %s" % type(obj).__name__
        return o
    if obj.inact_reac or obj.inact_prod:
        o["bad"] = "inactive part"
        return o
    kexp, rest, bad = _factor(obj.param, names)
    if bad:
        o["bad"] = bad
        return o
    if any(abs(v) > BIG for v in list(o["reac"].values()) + list(o["prod"].values()) + list(kexp.values())):
        o["bad"] = "unencodable"
        return o
    o["kexp"], o["rest"] = kexp, rest
    return o


def _project_safe(obj, names, sym, want_cls):
    """total projection: whatever the object holds, the result is an observation (never an exception)"""
    try:
        return _project_rxn(obj, names, sym, want_cls)
    except Exception as exc:
        return {"raised": False, "exc": "", "bad": "unprojectable " + type(exc).__name__, "reac": {}, "prod": {},
                "kexp": {}, "rest": [1, 1]}


def _raised(exc):
    return {"raised": True, "exc": type(exc).__name__, "bad": "", "reac": {}, "prod": {}, "kexp": {},
            "rest": [1, 1], "m": [0, 0]}


# ------------------------------------------------------------------ replay of one history
class Machine(object):
    def __init__(self, mode):
        from chempy import Equilibrium
        self.Eq = Equilibrium
        self.mode = mode
        self.sym = mode.startswith("sym")
        self.names = {}   # base / rate name -> prime (or True for symbols)
        self.regs = {}

    def const(self, name, prime=None):
        nbase = len([n for n in self.names if n not in RATE_PRIME])
        if self.sym or (self.mode == "mix" and name not in self.names and name not in RATE_PRIME and nbase % 2 == 1) \
                or self.names.get(name) is True:
            import sympy
            self.names[name] = True
            return sympy.Symbol(name, positive=True)
        if name not in self.names:
            self.names[name] = prime or PRIMES[len([n for n in self.names if n not in RATE_PRIME])]
        if self.mode == "srat":
            import sympy
            return sympy.Integer(self.names[name])
        return Fraction(self.names[name])

    def net(self, r, s):
        return self.regs[r].net_stoich([s])[0]

    def step(self, h):
        """Apply one operation; the observation also lists every register afterwards."""
        o = self._step(h)
        if not o["raised"] and not o["bad"]:
            allr = []
            for r in range(1, NREGS_OBS + 1):
                if r in self.regs:
                    p = _project_safe(self.regs[r], self.names, self.sym, "Equilibrium")
                    p["loaded"] = True
                else:
                    p = {"raised": False, "exc": "", "bad": "", "reac": {}, "prod": {}, "kexp": {}, "rest": [1, 1],
                         "loaded": False}
                if p["bad"]:
                    o["bad"] = "register: " + p["bad"] if p["bad"] != "unencodable" else "unencodable"
                allr.append(p)
            o["all"] = allr
        return o

    def _step(self, h):
        op = h["op"]
        try:
            if op == "Load":
                e = self.Eq(dict(h["reac"]), dict(h["prod"]), self.const(h["b"]))
            elif op == "Scale":
                n = h["n"]
                if self.mode == "sym-int":
                    import sympy
                    n = sympy.Integer(n)
                elif self.mode == "frac-np":
                    import numpy
                    n = numpy.int64(n)
                e = self.regs[h["r"]] * n if self.mode == "frac-rmul" else n * self.regs[h["r"]]
            elif op == "Neg":
                e = -self.regs[h["r"]]
            elif op == "Copy":
                e = self.regs[h["q"]]  # the same object: aliasing
            elif op == "Add":
                e = self.regs[h["r"]] + self.regs[h["q"]]
            elif op == "Sub":
                e = self.regs[h["r"]] - self.regs[h["q"]]
            elif op == "Eliminate":
                pair = [self.regs[h["r"]], self.regs[h["q"]]]
                ms = self.Eq.eliminate(tuple(pair) if self.mode in ("sym", "mix") else pair, h["s"])
                o = {"raised": False, "exc": "", "bad": "", "m": [0, 0]}
                vals = []
                for m in ms:
                    if isinstance(m, int) or getattr(m, "is_Integer", False):
                        vals.append(int(m))
                    else:
                        o["bad"] = "multiplier of type %s" % type(m).__name__
                if not o["bad"] and len(vals) != 2:
                    o["bad"] = "not two multipliers"
                if not o["bad"] and any(abs(v) > 10 ** 7 for v in vals):
                    o["bad"] = "unencodable"
                if not o["bad"]:
                    o["m"] = vals
                return o
            elif op == "Cancel":
                m = self.regs[h["r"]].cancel(self.regs[h["q"]])
                if isinstance(m, int) and not isinstance(m, bool) and abs(m) < BIG:
                    return {"raised": False, "exc": "", "bad": "", "m": m}
                return {"raised": False, "exc": "", "bad": "multiplier of type %s" % type(m).__name__, "m": 0}
            elif op == "AsReactions":
                w = h["which"]
                if w == "both":
                    self.regs[h["r"]].as_reactions(kf=self.const("kf", RATE_PRIME["kf"]), kb=self.const("kb", RATE_PRIME["kb"]))
                    return {"raised": False, "exc": "", "bad": "not refused"}
                if w == "none":
                    self.regs[h["r"]].as_reactions()
                    return {"raised": False, "exc": "", "bad": "not refused"}
                k = self.const(w, RATE_PRIME[w])
                kw = {w: k}
                if h.get("c0") == "c0":
                    # a units module whose standard concentration is one more exact constant
                    import types
                    kw["units"] = types.SimpleNamespace(molar=self.const("c0", RATE_PRIME["c0"]))
                fw, bw = self.regs[h["r"]].as_reactions(**kw)
                o = {"raised": False, "exc": "", "bad": "",
                     "fw": _project_safe(fw, self.names, self.sym, "Reaction"),
                     "bw": _project_safe(bw, self.names, self.sym, "Reaction")}
                o["bad"] = o["fw"]["bad"] or o["bw"]["bad"]
                return o
            else:
                raise core.MachineryFailure("unknown operation %r" % (op,))
        except core.MachineryFailure:
            raise
        except Exception as exc:  # the observation is "raised"
            return _raised(exc)
        o = _project_safe(e, self.names, self.sym, "Equilibrium")
        if not o["bad"]:
            self.regs[h["r"]] = e
        return o


def run_history(arg):
    """(hist, mode) -> list of observations, one per executed step (stops after a raise/defect)"""
    hist, mode = arg
    m = Machine(mode)
    obs = []
    for h in hist:
        o = m.step(h)
        obs.append(o)
        if o["raised"] or o["bad"]:
            break  # (a refused as_reactions is always the last step of a generated history)
    return obs


def _nm(x):
    return {} if x == [] else x


def _same_rxn(o, x):
    return (not o["raised"] and not o["bad"] and o["reac"] == _nm(x["reac"]) and o["prod"] == _nm(x["prod"])
            and o["kexp"] == _nm(x["kexp"]) and o["rest"] == [1, 1])


def _same_all(o, exp):
    for p, x in zip(o["all"], exp["all"]):
        if p["loaded"] != (x["kind"] != "empty") or (p["loaded"] and not _same_rxn(p, x)):
            return False
    return True


def agrees(o, exp):
    """structural equality of the projected observation with the expectation computed by TLC"""
    if exp["op"] == "asrx-refused":
        return o["raised"] and o["exc"] == "ValueError"
    if o["raised"] or o["bad"]:
        return False
    if not _same_all(o, exp):
        return False
    if exp["op"] == "reg":
        return _same_rxn(o, exp["val"])
    if exp["op"] == "cancel":
        return o["m"] in exp["allowed"]
    if exp["op"] == "asrx":
        return _same_rxn(o["fw"], exp["rx"]["fw"]) and _same_rxn(o["bw"], exp["rx"]["bw"])
    raise core.MachineryFailure("no direct comparison for %r" % (exp["op"],))


def to_trace(hist, obs):
    tr = []
    for h, o in zip(hist, obs):
        e = dict(h)
        e["obs"] = o
        tr.append(e)
    tr.append({"op": "End"})
    return tr


def _absv(exp):
    return ",".join(str(abs(v)) for v in exp.get("v", [])) if isinstance(exp, dict) else ""


FN = {"Load": "Equilibrium()", "Scale": "Equilibrium.__rmul__", "Neg": "Equilibrium.__neg__",
      "Copy": "aliasing", "Add": "Equilibrium.__add__", "Sub": "Equilibrium.__sub__", "Eliminate": "Equilibrium.eliminate",
      "Cancel": "Equilibrium.cancel", "AsReactions": "Equilibrium.as_reactions"}


def _judge_traces(ctx, items, direction):
    """items: list of (hist, mode, obs, absv); TLC judges every recorded step."""
    if not items:
        return
    traces = [to_trace(h, o) for h, _, o, _ in items]
    verdicts = ctx.validate_traces("EqArithTrace", "EqArithTrace.cfg", traces, workers=8)
    for (hist, mode, obs, absv), tr, (v, pos, clause) in zip(items, traces, verdicts):
        if v == "accept":
            continue
        if clause.startswith("outside:") or clause.endswith("unencodable"):
            ctx.skip(clause)
            continue
        if clause.startswith("model:"):
            raise core.MachineryFailure("recorded trace outside the model: %s at %d: %r" % (clause, pos, tr[:pos]))
        op = tr[pos - 1]["op"]
        key = {"fn": FN.get(op, op), "clause": clause, "mode": mode}
        if op == "Eliminate":
            key["absv"] = absv(pos - 1) if callable(absv) else absv
        ctx.violation(key, {"direction": direction, "trace": tr, "mode": mode, "observed": tr[pos - 1]["obs"],
                            "verdict": {"verdict": v, "pos": pos, "clause": clause}, "tlc_cfg": "EqArithTrace.cfg"})


def _spec_to_code(ctx, cfg, n_pick, actions, modes):
    res = ctx.tlc("EqArith_MC", "EqArith_MC_%s.cfg" % cfg, require_actions=actions, require_cases=100, timeout=1500)
    sel = ctx.pick(res.cases, n_pick)
    jobs = []
    for i, c in enumerate(sel):
        mode = modes[i % len(modes)]
        jobs.append((c["in"]["hist"], mode))
    outs = ctx.pmap(run_history, jobs)
    ctx.cases_replayed += len(sel)
    to_tlc = []
    for c, (hist, mode), obs in zip(sel, jobs, outs):
        exp = c["exp"]
        ctx.ran({"h": hist, "m": mode}, nontrivial=any(h["op"] != "Load" for h in hist))
        early = len(obs) < len(hist)  # an earlier step already failed: it is reported by its own case
        if exp["op"] == "elim" or early:
            if early and ctx.counters["early_to_tlc"] >= 2000:
                ctx.counters["early_not_rejudged"] += 1
                continue
            ctx.counters["early_to_tlc"] += int(early)
            to_tlc.append((hist[:len(obs)], mode, obs, _absv(exp) if not early else ""))
            continue
        if "unencodable" in (obs[-1]["bad"], obs[-1].get("fw", {}).get("bad"), obs[-1].get("bw", {}).get("bad")):
            ctx.skip("unencodable")
            continue
        if not agrees(obs[-1], exp):
            last = hist[-1]
            o = obs[-1]
            what = "raised:" + o["exc"] if o["raised"] else ("bad:" + o["bad"] if o["bad"] else "mismatch")
            ctx.violation({"fn": FN[last["op"]], "cls": c["cls"], "clause": what, "mode": mode},
                          {"direction": "spec->code", "case": c, "mode": mode, "observed": o, "expected": exp,
                           "tlc_cfg": "EqArith_MC_%s.cfg" % cfg})
    # histories closed by an elimination: the multipliers are judged by TLC (any solution is allowed)
    _judge_traces(ctx, to_tlc, "spec->code")
    if sel:
        ctx.sample({"slice": cfg, "hist": sel[-1]["in"]["hist"], "exp": sel[-1]["exp"]}, cap=4)
    return res


# ------------------------------------------------------------------ seeded generator (code -> spec)
# keys that do not look like plain names (charges, phases, a space, a digit first): keys are opaque
SPECIES = ["A", "B", "H+", "OH-", "e-", "Fe+3", "H2O(l)", "2x", "a b"]


def _rand_eq(rng):
    while True:
        ks = rng.sample(SPECIES, rng.randint(2, 4))
        reac, prod = {}, {}
        for k in ks:
            side = rng.random()
            if side < 0.42:
                reac[k] = rng.randint(1, 3)
            elif side < 0.84:
                prod[k] = rng.randint(1, 3)
            else:  # on both sides
                reac[k] = rng.randint(1, 3)
                prod[k] = rng.randint(1, 3)
        if rng.random() < 0.1 and len(ks) > 1:   # a one-sided equilibrium (everything on one side)
            side = rng.choice([reac, prod])
            other = prod if side is reac else reac
            for k in list(other):
                side[k] = side.get(k, 0) + other.pop(k) + 1
        if any(prod.get(k, 0) != reac.get(k, 0) for k in ks) and (reac or prod):
            return reac, prod


def gen_history(arg):
    """Seeded random history executed on real objects.  Operation choice looks only at what the
    real objects list (keys, net coefficients) - never at an expected value."""
    import random
    seed, mode, nops = arg
    rng = random.Random(seed)
    m = Machine(mode)
    nregs = rng.randint(2, 4)
    hist, obs, absvs = [], [], {}

    def do(h):
        o = m.step(h)
        hist.append(h)
        obs.append(o)
        return not (o["raised"] or o["bad"])

    nb = rng.randint(2, 4)
    bases = [_rand_eq(rng) for _ in range(nb)]
    for r in range(1, nregs + 1):
        b = rng.randrange(nb)
        if not do({"op": "Load", "r": r, "b": "b%d" % (b + 1), "reac": bases[b][0], "prod": bases[b][1]}):
            return hist, mode, obs, absvs
    def look(fn):
        # inspecting the real objects must not crash the generator either: a failure ends the history
        try:
            return fn()
        except Exception:
            return LOOK_FAILED

    while len(hist) < nops:
        r = rng.randint(1, nregs)
        q = rng.randint(1, nregs)
        x = rng.random()
        if x < 0.25:
            h = {"op": "Scale", "r": r, "n": rng.choice([-4, -3, -2, -1, 1, 2, 3, 4])}
        elif x < 0.29:
            h = {"op": "Neg", "r": r}
        elif x < 0.34:
            if r == q:
                continue
            h = {"op": "Copy", "r": r, "q": q}
        elif x < 0.52:
            h = {"op": "Add", "r": r, "q": q}
        elif x < 0.70:
            same = look(lambda: r == q or bool(m.regs[r] == m.regs[q]))
            if same is LOOK_FAILED:
                break
            if same:
                continue
            h = {"op": "Sub", "r": r, "q": q}
        elif x < 0.85:
            if r == q:
                continue
            # (the helper's multipliers grow like p^(v/p): keep the listed coefficients small)
            shared = look(lambda: sorted(k for k in m.regs[r].keys() & m.regs[q].keys()
                                         if 0 < abs(m.net(r, k)) <= 12 and 0 < abs(m.net(q, k)) <= 12))
            if shared is LOOK_FAILED:
                break
            if not shared:
                continue
            s = rng.choice(shared)
            h = {"op": "Eliminate", "r": r, "q": q, "s": s}
            absvs[len(hist)] = "%d,%d" % (abs(m.net(r, s)), abs(m.net(q, s)))
        elif x < 0.93:
            undef = look(lambda: r == q or any(m.net(q, k) == 0 for k in m.regs[q].keys()))
            if undef is LOOK_FAILED:
                break
            if undef:
                continue
            h = {"op": "Cancel", "r": r, "q": q}
        else:
            h = {"op": "AsReactions", "r": r, "which": rng.choice(["kf", "kb"]), "c0": rng.choice(["one", "c0"])}
            if rng.random() < 0.1:
                do({"op": "AsReactions", "r": r, "which": rng.choice(["both", "none"]), "c0": "one"})
                break
        if not do(h):
            break
        if h["op"] in ("Add", "Sub") and obs[-1]["raised"]:
            break
    return hist, mode, obs, absvs


def _code_to_spec(ctx, n):
    jobs = [(ctx.rng.getrandbits(48), MODES[i % len(MODES)], ctx.rng.randint(5, 12)) for i in range(n)]
    outs = ctx.pmap(gen_history, jobs)
    items = []
    for hist, mode, obs, absvs in outs:
        # an Add/Sub that raised may be the refusal of a no-effect combination: TLC decides ("outside:")
        ctx.ran({"h": hist, "m": mode}, nontrivial=len(hist) > 3)
        items.append((hist, mode, obs, (lambda a: (lambda i: a.get(i, "")))(absvs)))
    _judge_traces(ctx, items, "code->spec")
    if items:
        ctx.sample({"trace": to_trace(items[0][0], items[0][2])[:6], "mode": items[0][1]}, cap=6)


def _t(ctx, what, t0):
    import time
    ctx.notes.append("%s: %.1fs" % (what, time.time() - t0))
    return time.time()


def run(ctx):
    import time
    t0 = time.time()
    gen_actions = ["GenLoad", "GenScale", "GenNeg", "GenCopy", "GenAdd", "GenSub", "GenEliminate", "GenCancel", "GenAsReactions"]
    # 1. design-level invariants on the machine with the history hidden behind a VIEW
    # (vacuity of the actions is checked on the generation slice, which has the same Next)
    ctx.tlc("EqArith_MC", "EqArith_MC_inv_%s.cfg" % ("q" if ctx.quick else "t"), timeout=1500)
    t0 = _t(ctx, "invariants", t0)
    # 2. all histories of the generation slice, replayed
    _spec_to_code(ctx, "gen_q" if ctx.quick else "gen_t", 5000 if ctx.quick else 150000, gen_actions,
                  MODES if ctx.quick else ("frac", "frac-rmul", "sym", "frac", "sym-int", "mix", "frac-np", "srat"))
    t0 = _t(ctx, "histories", t0)
    # 3. elimination for every pair of net coefficients in -6..6 \ {0}, species on one or both sides
    _spec_to_code(ctx, "elim", None, ["GenLoad", "GenEliminate"], ("frac", "sym", "mix"))
    ctx.exhaustive = not ctx.quick
    t0 = _t(ctx, "elimination", t0)
    # 4. seeded longer histories judged by TLC
    _code_to_spec(ctx, 800 if ctx.quick else 12000)
    _t(ctx, "seeded", t0)


def replay(ctx, rec):
    mode = rec.get("mode", "frac")
    if "case" in rec:
        hist = rec["case"]["in"]["hist"]
        obs = run_history((hist, mode))
        exp = rec["case"]["exp"]
        if len(obs) == len(hist) and exp["op"] != "elim":
            if not agrees(obs[-1], exp):
                ctx.violation(rec["key"], {"observed": obs[-1], "expected": exp})
            return
        absv = _absv(exp)
    else:
        hist = [{k: v for k, v in e.items() if k != "obs"} for e in rec["trace"][:-1]]
        obs = run_history((hist, mode))
        absv = rec["key"].get("absv", "")
    hist = hist[:len(obs)]
    tr = to_trace(hist, obs)
    v, pos, clause = ctx.validate_traces("EqArithTrace", "EqArithTrace.cfg", [tr])[0]
    if v != "accept" and not clause.startswith("outside:"):
        ctx.violation(rec["key"], {"observed": tr[pos - 1].get("obs"), "verdict": {"verdict": v, "pos": pos, "clause": clause}})


# ---- extra stage (maintainer): ArithmeticDict register machine (spec/ArithDict.tla); C11's
# mechanism list names "ArithmeticDict scalar multiplication" as what the arithmetic rests on.
_run_eqarith = run


def run(ctx):  # noqa: F811
    _run_eqarith(ctx)
    import arithdict_stage
    arithdict_stage.run_stage(ctx)


_replay_eqarith = replay


def replay(ctx, rec):  # noqa: F811
    if rec.get("kind") == "arithdict":
        import arithdict_stage
        bad = arithdict_stage.replay_history(rec["case"])
        if bad:
            ctx.violation(rec["key"], {"observed": bad[0], "expected": bad[1]})
    else:
        _replay_eqarith(ctx, rec)
