# -*- coding: utf-8 -*-
"""C12 - reaction text is read exactly as written; printing and parsing are inverse.

spec/ReactionText.tla (+ Decimal.tla, ReactionText_MC slices, ReactionTextTrace).  Directions:
  spec -> code : every terminal state of the exhaustive slices (keys incl. bracket-leading ones,
                 coefficient forms, parameter kinds and spellings + keywords, multi-line systems
                 with comments, reader configurations - container of the allowed-key list,
                 globals_, comment_tokens, missing_substances_from_keys, keyword arguments,
                 spacing, line ends -, the rejection classes) is a case: text + configuration +
                 expected denotation per line (or "raises") + what reading the printed text must
                 give back under every printing option.  Replayed into Reaction / Equilibrium /
                 ReactionSystem / EqSystem.from_string, .copy(), ==, str(), .string(...).
  code -> spec : seeded texts beyond the bounds (<= 5 terms per side, random space-free keys,
                 coefficients 1..1000 and decimals, parameters with up to 15 digits over 30
                 decades, quantities and quoted names, systems with up to 5 reactions and
                 comments, random configurations, injected faults) and the reaction lines the
                 repository's own tests parse are read by the real code; TLC replays the token
                 events through the ReactionText actions and judges the projected observation
                 (ReactionTextTrace).
"""
import glob
import os
import re

import reaction_common as rc

LEVEL = "model_checking"
RULE = ("cases = terminal states of the sliced exhaustive ReactionText_MC configs (TLC) + seeded token "
        "sequences and lexed lines of the repository's tests validated by ReactionTextTrace; distinct = "
        "distinct (text, configuration) pairs; non-trivial = more than two terms, or a coefficient, parameter, "
        "parenthesised term, bracket-leading key, comment, non-default configuration or injected fault")
ASSUMPTIONS = [
    "coefficients returned as floats are encoded as rationals p/q (q <= 10^6, rel. residual <= 1e-12); "
    "a numeric parameter is identified with the exact decimal of its repr()",
    "the constructor's documented default checks (all_integral, any_effect, consistent_units; duplicate for "
    "systems) are switched off with checks=() for texts the specification flags (non-integral coefficients, "
    "zero net effect, quantity parameters, duplicate lines / names) and for all seeded texts: they are "
    "properties of the constructor, not of reading",
    "systems are read with substance_factory=Substance (keys are arbitrary space-free strings, not formulas)",
    "a key that is one wholly parenthesised group, '(X)', is not generated (indistinguishable from an "
    "inactive term without coefficient); at most one '; keyword' part (comma separated pairs) is written",
    "the printed text is read back with the default globals_ and without keyword arguments, but with the same "
    "allowed-key list and system options",
]

# printers of the round trip (short names: TLC wraps long VERDICT tuples over several lines)
PRINTERS = {"str": "str()", "sdef": "string()", "ydef": "system.string()", "smap": "string(substances, with_param=True)"}
for _wp in (0, 1):
    for _wn in (0, 1):
        PRINTERS["s%d%d" % (_wp, _wn)] = "string(with_param=%s, with_name=%s)" % (bool(_wp), bool(_wn))
        PRINTERS["y%d%d" % (_wp, _wn)] = "system.string(with_param=%s, with_name=%s)" % (bool(_wp), bool(_wn))
QUICK = ["keys_q", "coefs_q", "pkinds_q", "system_q", "config_q", "configsys_q", "faults2_q", "emptylist_q"]
THOROUGH = ["keys_t", "coefs_t", "params_t", "pkinds_t", "system_t", "system2_t", "system_q", "system3_q",
            "config_t", "configsys_t", "faults_t", "faults_q", "faults2_q", "emptylist_q"]
NEED = {
    "keys": ["-br", "-bareparen", "-inact", "-rep"],
    "coefs": ["-dec", "-star", "-rep", "-inact"],
    "params": ["-param", "-kw", "-eq"],
    "pkinds": ["-param", "-qty", "-sym", "-kw", "-eq", "-zero"],
    "emptylist": ["fault-unknownkey"],
    "system": ["-sys", "-param"],
    "system2": ["-sys", "-inact", "-kw"],
    "system3": ["-sys", "-kw", "-eq"],
    "config": ["-wide", "-tight", "-lfnt", "-crlf", "-gempty", "-gnone", "-args", "-dontcheck", "-zero"],
    "configsys": ["-ctoks", "-msfk", "-crlf", "fault-notacomment", "fault-unknownkey", "-empty", "-allowed-alias"],
    "faults": ["fault-unknownkey", "fault-missingarrow", "fault-wrongarrow", "ok-"],
    "faults2": ["fault-unknownkey", "fault-missingarrow", "fault-wrongarrow", "-allowed-tuple", "-allowed-set",
                "-allowed-dict", "-allowed-str"],
}


# ---------------------------------------------------------------- comparison with TLC's expectation
def _pairs(ps):
    return sorted([[k, list(q)] for k, q in ps])


def _line_diff(o, e):
    bad = [f for f in ("reac", "prod", "ireac", "iprod") if _pairs(o[f]) != _pairs(e[f])]
    if o["param"] != e["param"]:
        bad.append("param")
    bad += [f for f in ("ref", "name") if o[f] != e[f]]
    return bad


def _lines_diff(obs_lines, exp_lines):
    if len(obs_lines) != len(exp_lines):
        return ["number-of-reactions"]
    bad = []
    for o, x in zip(obs_lines, exp_lines):
        bad += _line_diff(o, x)
    return sorted(set(bad))


def _rt_line_diff(o, e):
    bad = [f for f in ("reac", "prod") if _pairs(o[f]) != _pairs(e[f])]
    bad += [f for f in ("ireac", "iprod") if o[f]]
    ep, op = e["param"], o["param"]
    if not ep["some"]:
        if op["some"]:
            bad.append("param")
    elif not op["some"] or op["kind"] != ep["kind"]:
        bad.append("param")
    elif ep["kind"] == "sym":
        if op["name"] != ep["name"]:
            bad.append("param")
    elif op["v"] not in ep["allowed"]:
        bad.append("param")
    return bad


def judge_case(case, obs):
    """-> None or (what, fields, expected view)"""
    e = case["exp"]
    if obs.get("unencodable"):
        return ("read", ["unencodable"], None)
    if e["raise"]:
        return None if obs["raised"] else ("read", ["missing-raise"], {"raise": True, "fault": e["fault"]})
    if obs["raised"]:
        return ("read", ["raise"], {"raise": False, "lines": e["lines"]})
    bad = _lines_diff(obs["lines"], e["lines"])
    if bad:
        return ("read", bad, {"lines": e["lines"]})
    if obs.get("retried"):
        # read correctly, but only after switching the default checks off although TLC did not ask for it
        return ("read", ["raise"], {"raise": False, "lines": e["lines"]})
    if case["in"]["system"] and sorted(obs["substances"]) != sorted(e["substances"]):
        return ("read", ["substances"], {"substances": sorted(e["substances"])})
    if not obs["copy_eq"]:
        return ("copy", ["copy-not-equal"], {"copy_eq": True})
    bad = _lines_diff(obs["copy_lines"], e["lines"])
    if bad:
        return ("copy", bad, {"lines": e["lines"]})
    if not obs["copy_indep"]:
        return ("copy", ["copy-equal-after-mutation"], {"copy_indep": True})
    bad = _lines_diff(obs["after_lines"], e["lines"])
    if bad:
        return ("copy", ["original-changed-with-copy"] + bad, {"lines": e["lines"]})
    if not obs["twin_eq"]:
        return ("read-twice", ["not-equal"], {"twin_eq": True})
    if not obs["twin_indep"]:
        return ("read-twice", ["objects-share-state"], {"twin_indep": True})
    if obs["edit"] != e["edit"]:
        return ("copy-after-edit", ["edit-keys"], {"edit": e["edit"]})
    if not obs["edit_copy_eq"]:
        return ("copy-after-edit", ["copy-not-equal"], {"edit_copy_eq": True})
    if not obs["edit_str_eq"]:
        return ("copy-after-edit", ["copy-prints-differently"], {"edit_str_eq": True})
    bad = _lines_diff(obs["edit_lines"], e["edited"])
    if bad:
        return ("copy-after-edit", bad, {"lines": e["edited"]})
    bad = _lines_diff(obs["copy_over_lines"], e["copy_over"])
    if bad:
        return ("copy(param=...)", bad, {"lines": e["copy_over"]})
    if e["printable"]:
        exp_by_opt = {(x["wp"], x["wn"], x["nd"]): x for x in e["rt"]}
        seen = set((rt["wp"], rt["wn"], rt["nd"]) for rt in obs["rts"])
        if set(exp_by_opt) - seen:
            return ("roundtrip", ["not-observed"], None)
        for rt in obs["rts"]:
            what = "roundtrip-" + PRINTERS.get(rt["kind"], rt["kind"])
            x = exp_by_opt.get((rt["wp"], rt["wn"], rt["nd"]))
            if x is None:
                return (what, ["option"], None)
            if rt["raised"]:
                return (what, ["printed-text-rejected"], {"rt": x})
            if len(rt["lines"]) != len(x["lines"]):
                return (what, ["number-of-reactions"], {"rt": x})
            bad = []
            for o, xl in zip(rt["lines"], x["lines"]):
                bad += _rt_line_diff(o, xl)
            if bad:
                return (what, sorted(set(bad)), {"rt": x})
            if rt.get("retried"):
                return (what, ["printed-text-rejected"], {"rt": x})
            if all(xl["exact"] for xl in x["lines"]) and not rt["eq"]:
                return (what, ["not-equal-to-original"], {"rt": x})
        ra = obs["reassign"]
        if ra["raised"]:
            return ("reassign-param-then-print", ["printed-text-rejected"], {"lines": e["reassign"]})
        if len(ra["lines"]) != len(e["reassign"]):
            return ("reassign-param-then-print", ["number-of-reactions"], {"lines": e["reassign"]})
        bad = []
        for o, xl in zip(ra["lines"], e["reassign"]):
            bad += _rt_line_diff(o, xl)
        if bad:
            return ("reassign-param-then-print", sorted(set(bad)), {"lines": e["reassign"]})
    return None


def replay_case(case):
    i, e = case["in"], case["exp"]
    nochecks = bool(e["raise"] or any(e["nochecks"]) or e["duplicates"])
    opts = [(x["wp"], x["wn"], x["nd"], x["duplicates"]) for x in e["rt"]] if e["printable"] else None
    obs = rc.observe(i["doc"], i["klass"], i["system"], i["allowed"], i["cfg"], nochecks, opts, e["override"])
    return obs, judge_case(case, obs)


def _fn(klass, system):
    if system:
        return ("EqSystem" if klass == "Equilibrium" else "ReactionSystem") + ".from_string"
    return klass + ".from_string"


def _key(fn, what, fields, cfg, allowed, cls=None, empty=False):
    k = {"fn": fn, "what": what, "diff": ",".join(fields), "msfk": bool(cfg["msfk"]), "empty": bool(empty),
         "config": ",".join("%s=%s" % (n, cfg[n]) for n in ("spc", "eol", "gmode", "ctoks", "msfk", "dq")
                            if cfg[n] != rc.DEFAULT_CFG[n]) or "default",
         "allowed": allowed["form"] if allowed["given"] else "none"}
    if cls is not None:
        k["cls"] = cls
    return k


# ---------------------------------------------------------------- traces
OBS_KEYS = ("doc", "klass", "raised", "lines", "copy_eq", "copy_lines", "substances", "copy_indep", "after_lines",
            "copy_over_lines", "edit", "edit_lines", "edit_copy_eq", "edit_str_eq", "twin_eq", "twin_indep")
OVERRIDE = {"neg": False, "digs": [7, 2, 5], "e": 0}     # ReactionText!OverrideParam (checked by TLC: copy-over clause)


def run_trace(events):
    """events (without result) -> full trace + observation"""
    doc, klass, allowed, cfg = rc.events_doc(events)
    facts = rc.line_facts(events)
    system = facts["system"] or len(doc) > 1 or not any(e["k"] in ("term", "inact", "unknown") for e in events)
    obs = rc.observe(doc, klass, system, allowed, cfg, True, facts["print_opts"] if facts["printable"] else None,
                     OVERRIDE)
    obs["cfg"], obs["allowed"] = cfg, allowed
    if obs.get("unencodable"):
        return None, obs, facts
    tr = list(events)
    if facts["printable"]:
        tr += [{"k": "print"}, {"k": "parse"}]
    o = {k: obs[k] for k in OBS_KEYS}
    o["rts"] = [{k: rt[k] for k in ("kind", "wp", "wn", "nd", "raised", "lines", "eq")} for rt in obs["rts"]]
    o["reassign"] = {"raised": obs["reassign"]["raised"], "lines": obs["reassign"]["lines"]}
    tr.append({"k": "result", "obs": o})
    return tr, obs, facts


_FS_RE = re.compile(r"""from_string\(\s*(?:u?r?)(["'])((?:(?!\1).)*)\1""")


def suite_lines():
    """Reaction lines that the repository's own tests and docstrings hand to from_string."""
    repo = os.environ.get("VERIF_REPO", "/repo")
    out = []
    for path in sorted(glob.glob(os.path.join(repo, "chempy", "**", "*.py"), recursive=True)):
        try:
            src = open(path, encoding="utf-8").read()
        except Exception:
            continue
        for m in _FS_RE.finditer(src):
            s = m.group(2)
            if ("->" in s or " = " in s) and "\\" not in s and "{" not in s.replace("{X}", ""):
                out.append(s)
    return sorted(set(out))


def _nontrivial_events(events):
    terms = [e for e in events if e["k"] in ("term", "inact", "unknown")]
    return len(terms) > 2 or any(e["k"] not in ("term", "arrow", "finish") or (e["k"] == "term" and (e["form"] != "bare" or e["key"]["lead"])) for e in events)


def _judge_traces(ctx, seqs, labels):
    import core
    outs = ctx.pmap(run_trace, seqs)
    traces, keep = [], []
    for evs, label, (tr, obs, facts) in zip(seqs, labels, outs):
        if tr is None:
            # the code returned something outside the vocabulary (non-string key, non-finite or complex
            # coefficient / parameter ...): it equals no expectation
            ctx.violation(_key(_fn(obs["klass"], facts["system"]), "read", ["unencodable"], obs["cfg"], obs["allowed"]),
                          {"direction": "code->spec", "trace": evs, "text": "\n".join(obs["doc"]), "source": label,
                           "observed": "an object outside the vocabulary", "expected": "reactions with string keys and finite numbers"})
            continue
        traces.append(tr)
        keep.append((evs, obs, facts, label))
    verdicts = ctx.validate_traces("ReactionTextTrace", "ReactionTextTrace.cfg", traces, chunk=3000)
    for tr, (evs, obs, facts, label), (v, pos, clause) in zip(traces, keep, verdicts):
        txt = "\n".join(obs["doc"])
        ctx.ran([txt, obs["cfg"], obs["allowed"]], nontrivial=_nontrivial_events(evs))
        if v == "accept":
            continue
        if clause.startswith("step:") or clause in ("text", "class", "notdone", "no-result-event"):
            if label == "suite":
                ctx.skip("suite-line-outside-model")
                continue
            raise core.MachineryFailure("generated trace outside the model: %s at %d: %r" % (clause, pos, txt))
        field = clause.split(":")[-1]
        fields = ["raise"] if clause == "unexpected-raise" else [field]
        what = "copy" if clause.startswith("copy") else ("roundtrip" if clause.startswith("rt-") else (
            "reassign" if clause.startswith("reassign") else ("read-twice" if clause.startswith("twin") else "read")))
        ctx.violation(_key(_fn(obs["klass"], facts["system"]), what, fields, obs["cfg"], obs["allowed"],
                           empty=facts["nlines"] == 0),
                      {"direction": "code->spec", "trace": tr, "text": txt, "source": label,
                       "observed": {k: obs[k] for k in ("raised", "exc", "lines", "substances", "copy_eq", "copy_indep", "rts")},
                       "verdict": {"verdict": v, "pos": pos, "clause": clause}, "tlc_cfg": "ReactionTextTrace.cfg"})
    return traces


def run(ctx):
    import chempy  # noqa
    import core
    # every action of the generator is taken: in the thorough tier measured with -coverage on a small
    # configuration; in the quick tier every action leaves a class of cases that must be present (NEED)
    if not ctx.quick:
        ctx.tlc("ReactionText_MC", "ReactionText_MC_cover.cfg", require_cases=50, timeout=600, require_actions=[
            "GenAllowed", "GenConfig", "GenTerm", "GenInactive", "GenArrow", "GenParam", "GenKw", "GenComment",
            "GenNewLine", "Finish", "GenUnknownKey", "GenMissingArrow", "GenWrongArrow", "GenStaleComment",
            "PrintText", "ParseText"])
    slices = QUICK if ctx.quick else THOROUGH
    per_slice = 800 if ctx.quick else None
    by_slice = {}
    if ctx.quick:
        # the quick slices are explored in ONE TLC run (the slice is a variable fixed in the initial
        # state; ReactionText_MC!QuickNames must list the same slices)
        res = ctx.tlc("ReactionText_MC", "ReactionText_MC_quick.cfg", require_cases=100, timeout=1500)
        for c in res.cases:
            by_slice.setdefault(c["in"]["slice"], []).append(c)
        if set(by_slice) != set(slices):
            raise core.MachineryFailure("quick configuration explores %s, expected %s" % (sorted(by_slice), slices))
    for sl in slices:
        if ctx.quick:
            cases = by_slice.pop(sl)
            cfgname = "ReactionText_MC_quick.cfg"
        else:
            cfgname = "ReactionText_MC_%s.cfg" % sl
            cases = ctx.tlc("ReactionText_MC", cfgname, require_cases=100, timeout=1500).cases
        classes = set(c["cls"] for c in cases)
        for need in NEED[sl.split("_")[0]]:
            if not any(need in c for c in classes):
                raise core.MachineryFailure("vacuity: no case of class *%s* in slice %s" % (need, sl))
        sel = ctx.pick(cases, per_slice)
        outs = ctx.pmap(replay_case, sel)
        ctx.cases_replayed += len(sel)
        for case, (obs, bad) in zip(sel, outs):
            txt = "\n".join(case["in"]["doc"])
            ctx.ran([txt, case["in"]["cfg"], case["in"]["allowed"]], nontrivial=case["cls"] not in ("ok", "ok-eq"))
            if bad is None:
                continue
            what, fields, expected = bad
            ctx.violation(_key(_fn(case["in"]["klass"], case["in"]["system"]), what, fields, case["in"]["cfg"],
                               case["in"]["allowed"], case["cls"], empty=not case["exp"]["lines"]),
                          {"direction": "spec->code", "case": case, "text": txt,
                           "observed": {k: obs.get(k) for k in ("raised", "exc", "lines", "substances", "copy_eq",
                                                                "copy_indep", "rts", "retried")},
                           "expected": expected, "tlc_cfg": cfgname})
        if sel:
            c0 = sel[0]
            ctx.sample({"slice": sl, "doc": c0["in"]["doc"], "klass": c0["in"]["klass"], "cfg": c0["in"]["cfg"],
                        "exp": {"raise": c0["exp"]["raise"], "lines": c0["exp"]["lines"]}}, cap=8)
    ctx.exhaustive = not ctx.quick

    # ---- code -> spec: seeded texts beyond the bounds and the lines the repository's tests and
    # docstrings parse, judged by TLC
    n = 800 if ctx.quick else 20000
    g = rc.Gen(ctx.rng, max_terms=5 if ctx.quick else 8)
    seqs, labels = [], []
    faults = [None, None, None, None, None, None, "unknown", "stale", "missingarrow", "wrongarrow"]
    for i in range(n):
        seqs.append(g.text(fault=faults[i % 10])[0])
        labels.append("seeded")
    nlex = 0
    for s in suite_lines():
        evs = rc.lex_line(s)
        if evs is None:
            ctx.skip("suite-line-outside-model")
            continue
        seqs.append(evs)
        labels.append("suite")
        nlex += 1
    ctx.counters["suite_lines_lexed"] = nlex
    traces = _judge_traces(ctx, seqs, labels)
    if traces:
        ctx.sample({"trace": traces[0]}, cap=8)
        ctx.sample({"suite_trace": traces[-1]}, cap=8)


def replay(ctx, rec):
    if rec.get("direction") == "spec->code":
        case = rec["case"]
        obs, bad = replay_case(case)
        if bad is not None:
            ctx.violation(rec["key"], {"observed": {k: obs.get(k) for k in ("raised", "exc", "lines", "copy_eq", "rts")},
                                       "expected": bad[2]})
    else:
        evs = [e for e in rec["trace"] if e["k"] not in ("print", "parse", "result")]
        tr, obs, facts = run_trace(evs)
        v, pos, clause = ctx.validate_traces("ReactionTextTrace", "ReactionTextTrace.cfg", [tr])[0]
        if v != "accept":
            ctx.violation(rec["key"], {"observed": {k: obs[k] for k in ("raised", "exc", "lines", "copy_eq", "rts")},
                                       "verdict": {"verdict": v, "pos": pos, "clause": clause}})
