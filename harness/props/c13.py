"""C13 - LaTeX / Unicode / HTML names show the same formula that was given.

The Formula spec derives, for every formula, the abstract *presentation tokens* a faithful
rendering shows (Render: Sym Sub Sup Br Infix Plain Pre Suf).  The binding layer un-presents the
three real renderings with lexers that undo exactly the presentation mapping
(formula_common.unpresent) and nothing else; equality with the spec's tokens is required
(spec -> code on the exhaustive slices; code -> spec judged by TLC on seeded token sequences).
Re-assembling the un-presented tokens and parsing them with the real parser must give the
spec's composition; Substance/Species attributes and phase_idx come from the same cases.
Reactions/equilibria printed in each format: spec/ReactionRender.tla.
"""
import re as _re
from fractions import Fraction as _Fraction

import formula_common as fc

LEVEL = "model_checking"
RULE = ("cases = well-formed terminal states of the Formula_MC slices x 3 formats (+ Substance/Species "
        "attributes) + ReactionRender cases x 4 printers + seeded token sequences judged by FormulaTrace; "
        "distinct = distinct (text, format); non-trivial = formula with at least one count, charge, "
        "prefix, suffix, group or hydrate part")
ASSUMPTIONS = [
    "the un-presentation lexers (harness/formula_common.py: unpresent) undo exactly the documented presentation "
    "mapping of each format (tables FORMATS) and are trusted",
    "ASCII '~' in spec text stands for U+00B7",
]

QUICK = ["nest_q", "counts_q", "hyd_q", "decor_q", "prefix2_q", "symsuf", "digits", "near"]
THOROUGH = ["nest_t", "counts_t", "hyd_t", "decor_t", "prefix2_t", "symsuf", "digits", "near"]

ARROWS = {
    "string": {"Reaction": "->", "Equilibrium": "="},
    "latex": {"Reaction": "\\rightarrow", "Equilibrium": "\\rightleftharpoons"},
    "unicode": {"Reaction": "→", "Equilibrium": "⇌"},
    "html": {"Reaction": "&rarr;", "Equilibrium": "&harr;"},
}
POOL = ["H2O", "Fe+3", "SO4-2", "Na2CO3..10H2O(s)", "alpha-FeOOH(s)", ".OH", "[Fe(CN)6]-4", "UO2.3",
        "H+", "e-", "CO2(g)", "Ca(OH)2(aq)", "NH4+", "Fe(H2O)6+3", "O2'"]


def _fns():
    from chempy.util.parsing import formula_to_latex, formula_to_unicode, formula_to_html
    return (("latex", formula_to_latex), ("unicode", formula_to_unicode), ("html", formula_to_html))


def _shown(fn, fmt, t):
    try:
        s = fn(t)
    except Exception as e:
        return None, {"exc": type(e).__name__, "msg": str(e)[:100]}
    toks = fc.unpresent(s, fmt)
    if toks is None:
        return s, [["Unlexable", s]]
    return s, toks


def replay_case(case):
    """-> list of (what, observed, expected)"""
    from chempy.util.parsing import formula_to_composition
    from chempy import Substance, Species
    exp = case["exp"]
    txt = case["in"]["txt"]
    t = fc.code_text(txt)
    want = [[x["r"], x["t"]] for x in exp["render"]]
    bad = []
    for fmt, fn in _fns():
        s, toks = _shown(fn, fmt, t)
        if toks != want:
            bad.append(("formula_to_" + fmt, {"string": s, "tokens": toks}, want))
            continue
        back = fc.reassemble(toks)
        o = fc.observe(formula_to_composition, back) if back is not None else {"raised": True, "exc": "no-reassembly"}
        if o.get("raised") or o.get("comp") != exp["comp"] or o.get("q") != exp["q"]:
            bad.append(("roundtrip_" + fmt, {"reassembled": back, "parsed": o}, {"comp": exp["comp"], "q": exp["q"]}))
    # Substance / Species carry the three names, the composition and the phase index
    for what, mk, pidx in (("Substance.from_formula", lambda: Substance.from_formula(t), None),
                           ("Species.from_formula", lambda: Species.from_formula(t), exp["phase_default"]),
                           ("Species.from_formula[phases=(aq),(g)]",
                            lambda: Species.from_formula(t, phases=("(aq)", "(g)")), exp["phase_alt"]),
                           # an explicit phase_idx= wins over the suffix; the suffix stays a suffix
                           ("Species.from_formula[phase_idx=4]",
                            lambda: Species.from_formula(t, phase_idx=4), exp["phase_given"]),
                           ("Species.from_formula[phases=(aq),(g);phase_idx=4]",
                            lambda: Species.from_formula(t, phases=("(aq)", "(g)"), phase_idx=4), exp["phase_given"])):
        try:
            sub = mk()
        except Exception as e:
            bad.append((what, {"exc": type(e).__name__, "msg": str(e)[:100]}, "object carrying names, composition, phase"))
            continue
        for fmt, attr in (("latex", "latex_name"), ("unicode", "unicode_name"), ("html", "html_name")):
            s = getattr(sub, attr)
            toks = fc.unpresent(s, fmt) if isinstance(s, str) else None
            if toks != want:
                bad.append((what + "." + attr, {"string": s, "tokens": toks}, want))
        o = fc.project_composition(sub.composition)
        if o.get("comp") != exp["comp"] or o.get("q") != exp["q"]:
            bad.append((what + ".composition", o, {"comp": exp["comp"], "q": exp["q"]}))
        if pidx is not None and getattr(sub, "phase_idx", None) != pidx:
            bad.append((what + ".phase_idx", getattr(sub, "phase_idx", None), pidx))
    # phases as a mapping with a default index; default_phase_idx=None refuses unknown suffixes
    try:
        o = Species.from_formula(t, phases={"(aq)": 0, "(s)": 5, "(g)": 2}, default_phase_idx=7).phase_idx
    except Exception as e:
        o = type(e).__name__
    if o != exp["phase_dict"]:
        bad.append(("Species.from_formula[phases=dict].phase_idx", o, exp["phase_dict"]))
    try:
        o = Species.from_formula(t, default_phase_idx=None).phase_idx
        raised = False
    except ValueError:
        o, raised = "ValueError", True
    except Exception as e:
        o, raised = type(e).__name__, None
    if raised != exp["phase_none_raises"] or (not raised and o != exp["phase_default"]):
        bad.append(("Species.from_formula[default_phase_idx=None]", o,
                    "ValueError" if exp["phase_none_raises"] else exp["phase_default"]))
    return bad


def _trace(toks):
    from chempy.util.periodic import symbols
    from chempy.util.parsing import formula_to_composition
    txt = fc.tokens_text(toks, symbols)
    t = fc.code_text(txt)
    o = fc.observe(formula_to_composition, t)
    shown = []
    if not o["raised"]:
        for fmt, fn in _fns():
            s, tk = _shown(fn, fmt, t)
            if s is None:
                tk = [["Raised", tk["exc"]]]
            shown.append([{"r": a, "t": b} for a, b in tk])
    ev = {"k": "result", "txt": txt, "raised": o["raised"], "comp": o.get("comp", []), "q": o.get("q", 0),
          "shown": shown, "mass9": []}
    if "unencodable" in o:
        return None, o
    return list(toks) + [ev], {"parsed": o, "shown": shown}


# ------------------------------------------------------------------ reactions
def _lex_reaction(s, fmt, names, kinds):
    """printed reaction -> tokens [{"r":"Coef","n":..}|{"r":"Name","s":idx}|{"r":"Plus"}|{"r":"Arrow","k":..}]"""
    out = []
    arrow = None
    for k in kinds:
        a = " " + ARROWS[fmt][k] + " "
        if a in s:
            arrow = (k, a)
    if arrow is None:
        return None
    sides = s.split(arrow[1])
    if len(sides) != 2:
        return None
    def _term(term):
        """'2 X' / 'X' -> tokens, or None when the text is not a (coefficient and a) known name"""
        sp = term.split(" ", 1)
        if len(sp) == 2 and _re.match(r"^\d+(\.\d+)?$", sp[0]) and sp[1] in names:
            fr = _Fraction(sp[0])
            return [{"r": "Coef", "n": fr.numerator, "d": fr.denominator}, {"r": "Name", "s": names[sp[1]]}]
        if term in names:
            return [{"r": "Name", "s": names[term]}]
        return None
    for si, side in enumerate(sides):
        terms = side.split(" + ")
        group = False          # inside the parenthesised group of inactive species: " + ( 2 X + Y)"
        for ti, term in enumerate(terms):
            if ti:
                out.append({"r": "Plus"})
            close = False
            if not group and ti and term.startswith("( "):
                group = True
                out.append({"r": "Open"})
                term = term[2:]
            toks = _term(term)
            if toks is None and group and term.endswith(")"):
                toks, close = _term(term[:-1]), True
            if toks is None:
                return None
            out.extend(toks)
            if close:
                out.append({"r": "Close"})
                group = False
                if ti != len(terms) - 1:
                    return None
        if group:
            return None
        if si == 0:
            out.append({"r": "Arrow", "k": arrow[0]})
    return out


def replay_reaction(arg):
    case, pool = arg
    from chempy import Substance, Reaction, Equilibrium
    from collections import OrderedDict
    cls = Reaction if case["in"]["kind"] == "Reaction" else Equilibrium

    def _coef(c):
        return c[0] if c[1] == 1 else c[0] / c[1]
    want = case["exp"]["shown"]
    bad = []
    # the species keys are the formulas themselves, or aliases that differ from every substance name
    for variant, keys in (("", list(pool)), ("[alias keys]", ["sp%d_" % (i + 1) for i in range(len(pool))])):
        substances = OrderedDict((k, Substance.from_formula(f)) for k, f in zip(keys, pool))
        reac = OrderedDict((keys[s - 1], _coef(c)) for s, c in case["in"]["reac"])
        prod = OrderedDict((keys[s - 1], _coef(c)) for s, c in case["in"]["prod"])
        inact = {}
        if case["in"].get("ireac") or case["in"].get("iprod"):
            inact = {"inact_reac": OrderedDict((keys[s - 1], _coef(c)) for s, c in case["in"].get("ireac") or []),
                     "inact_prod": OrderedDict((keys[s - 1], _coef(c)) for s, c in case["in"].get("iprod") or [])}
        try:
            r = cls(reac, prod, checks=(), **inact)
        except TypeError:
            r = cls(reac, prod, **inact)
        for fmt, attr in (("string", None), ("latex", "latex_name"), ("unicode", "unicode_name"), ("html", "html_name")):
            try:
                if fmt == "string":
                    s = r.string()
                    names = {k: i + 1 for i, k in enumerate(keys)}
                else:
                    s = getattr(r, fmt)(substances)
                    names = {getattr(substances[k], attr): i + 1 for i, k in enumerate(keys)}
                toks = _lex_reaction(s, fmt, names, ["Reaction", "Equilibrium"])
            except Exception as ex:
                s, toks = type(ex).__name__, None
            if toks != want:
                bad.append((cls.__name__ + "." + fmt + variant, {"string": s, "tokens": toks}, want))
    return bad


def run(ctx):
    import core
    slices = QUICK if ctx.quick else THOROUGH
    per_slice = 1200 if ctx.quick else 60000
    for sl in slices + ["sim"]:
        if sl == "sim":   # deep random behaviours of the full-alphabet grammar (tlc -simulate)
            res = ctx.tlc("Formula_MC", "Formula_MC_sim.cfg", simulate="num=%d" % (150 if ctx.quick else 4000),
                          depth=30, seed=ctx.seed + 7, workers=4, require_cases=100, timeout=1500)
            uniq = {}
            for c in res.cases:
                uniq.setdefault(c["in"]["txt"], c)
            res.cases = list(uniq.values())
        else:
            res = ctx.tlc("Formula_MC", "Formula_MC_%s.cfg" % sl, require_cases=100, timeout=1500)
        cases = [c for c in res.cases if not c["exp"]["raise"]]
        sel = ctx.pick(cases, per_slice)
        res.cases = cases = None          # only the sample is kept in memory
        outs = ctx.pmap(replay_case, sel)
        ctx.cases_replayed += len(sel)
        for case, bad in zip(sel, outs):
            txt = case["in"]["txt"]
            for fmt in ("latex", "unicode", "html"):
                ctx.ran(txt + "|" + fmt, nontrivial=case["exp"]["ntoks"] >= 2 or bool(case["exp"]["render"][0:1] and len(case["exp"]["render"]) > 1))
            for what, obs, exp in bad:
                ctx.violation({"fn": what, "txt": txt, "cls": case["cls"]},
                              {"direction": "spec->code", "kind": "formula", "case": case, "observed": obs, "expected": exp,
                               "tlc_cfg": "Formula_MC_%s.cfg" % sl})
        if sel:
            ctx.sample({"slice": sl, "txt": sel[0]["in"]["txt"], "render": sel[0]["exp"]["render"]}, cap=8)

    # reactions / equilibria in the four printers
    # (second configuration: inactive - parenthesised - species on either side, up to two per side)
    for rcfg, acts, nsel in ((("q" if ctx.quick else "t"), ["GenAddReac", "GenArrow", "GenAddProd", "Finish"], 1500 if ctx.quick else 40000),
                             ("inact", ["GenAddIReac", "GenAddIProd"], 1500 if ctx.quick else 40000)):
        res = ctx.tlc("ReactionRender", "ReactionRender_MC_%s.cfg" % rcfg,
                      require_actions=acts if ctx.quick else (), require_cases=100)
        sel = ctx.pick(res.cases, nsel)
        res.cases = None
        args = []
        for c in sel:
            pool = ctx.rng.sample(POOL, 4)
            args.append((c, pool))
        outs = ctx.pmap(replay_reaction, args)
        ctx.cases_replayed += len(sel)
        for (case, pool), bad in zip(args, outs):
            ctx.ran({"r": case["in"], "pool": pool})
            for what, obs, exp in bad:
                ctx.violation({"fn": what, "reaction": case["in"], "pool": pool},
                              {"direction": "spec->code", "kind": "reaction", "case": case, "pool": pool,
                               "observed": obs, "expected": exp, "tlc_cfg": "ReactionRender_MC_%s.cfg" % rcfg})
        if args:
            ctx.sample({"reaction": args[0][0]["in"], "pool": args[0][1], "shown": args[0][0]["exp"]["shown"]}, cap=8)
    ctx.exhaustive = not ctx.quick

    # code -> spec
    n = 2000 if ctx.quick else 30000
    g = fc.Gen(ctx.rng, max_depth=4 if ctx.quick else 6)
    seqs = [g.wellformed() for _ in range(n)]
    outs = ctx.pmap(_trace, seqs)
    traces, obs = [], []
    for tr, o in outs:
        if tr is None:
            ctx.skip("unencodable-observation")
            continue
        traces.append(tr)
        obs.append(o)
    verdicts = ctx.validate_traces("FormulaTrace", "FormulaTrace.cfg", traces)
    for tr, o, (v, pos, clause) in zip(traces, obs, verdicts):
        txt = tr[-1]["txt"]
        ctx.ran(txt + "|trace", nontrivial=len(tr) > 3)
        if v == "accept":
            continue
        if clause.startswith("step:") or clause in ("text", "notdone", "no-result-event"):
            raise core.MachineryFailure("generated trace outside the model: %s at %d: %r" % (clause, pos, txt))
        if clause != "render":
            ctx.skip("rejected-for-C01-clause-" + clause)   # composition defects are C01's business
            continue
        ctx.violation({"fn": "formula_to_<format>", "txt": txt, "clause": clause},
                      {"direction": "code->spec", "kind": "formula", "trace": tr, "observed": o,
                       "verdict": {"verdict": v, "pos": pos, "clause": clause}, "tlc_cfg": "FormulaTrace.cfg"})
    if traces:
        ctx.sample({"trace": traces[0]}, cap=8)
    # binding self-test: a recorded rendering with one token removed must be rejected (clause render)
    import copy
    bad = []
    for tr, (v, _, _) in zip(traces, verdicts):
        if v == "accept" and tr[-1]["shown"] and len(tr[-1]["shown"][0]) >= 2:
            c = copy.deepcopy(tr)
            del c[-1]["shown"][len(bad) % 3][-1]
            bad.append(c)
        if len(bad) >= 45:
            break
    if not bad:
        raise core.MachineryFailure("binding self-test: no accepted trace to corrupt")
    for v, pos, clause in ctx.validate_traces("FormulaTrace", "FormulaTrace.cfg", bad, count=False):
        if v != "reject" or clause != "render":
            raise core.MachineryFailure("binding self-test: corrupted rendering gave %s/%s" % (v, clause))
    ctx.counters["selftest_corrupted_traces_rejected"] += len(bad)
    _suite_stage(ctx)


def _suite_stage(ctx):
    """Renderings the repository's own tests ask for, judged against the spec's tokens."""
    import suite
    import c01
    from chempy.util.parsing import formula_to_composition
    fns = {"chempy.util.parsing:formula_to_latex": "latex", "chempy.util.parsing:formula_to_unicode": "unicode",
           "chempy.util.parsing:formula_to_html": "html"}
    recs, summ = suite.record_suite(c01.SUITE_TESTS, list(fns))
    ctx.notes.append({"suite": summ})
    by = {}
    for r in recs:
        fmt = fns.get(r.get("fn"))
        a = r.get("args")
        if not fmt or r.get("not_observed") or not r.get("ok"):
            continue
        if not (isinstance(a, list) and len(a) == 1 and isinstance(a[0], str)) or r.get("kwargs", {}).get("dict"):
            ctx.skip("suite-call-with-options")
            continue
        by.setdefault(a[0], {})[fmt] = r["result"]
    from chempy.util.periodic import symbols
    traces, meta = [], []
    for text, outs in sorted(by.items()):
        toks = fc.lex(text, symbols)
        if toks is None:
            ctx.skip("suite-string-outside-modelled-notation")
            continue
        o = fc.observe(formula_to_composition, text)
        if o["raised"] or "unencodable" in o:
            ctx.skip("suite-formula-not-parsed")
            continue
        shown = []
        for fmt, s in sorted(outs.items()):
            tk = fc.unpresent(s, fmt) if isinstance(s, str) else None
            shown.append([{"r": a, "t": b} for a, b in (tk if tk is not None else [["Unlexable", str(s)]])])
        ev = {"k": "result", "txt": text.replace(fc.MIDDOT, "~"), "raised": False, "comp": o["comp"], "q": o["q"],
              "shown": shown, "mass9": []}
        traces.append(toks + [ev])
        meta.append((text, outs))
    if not traces:
        return
    verdicts = ctx.validate_traces("FormulaTrace", "FormulaTrace.cfg", traces)
    for tr, (text, outs), (v, pos, clause) in zip(traces, meta, verdicts):
        if v == "accept":
            ctx.ran("suite:" + text, nontrivial=len(tr) > 3)
            ctx.counters["suite_calls_judged"] += len(outs)
            continue
        if clause != "render":
            ctx.skip("suite-string-outside-modelled-notation" if clause in ("text", "notdone") or clause.startswith("step:")
                     else "rejected-for-C01-clause-" + clause)
            ctx.traces_validated -= 1
            continue
        ctx.violation({"fn": "formula_to_<format>", "txt": text, "clause": clause, "source": "repo-suite"},
                      {"direction": "code->spec", "kind": "formula", "trace": tr, "observed": outs,
                       "verdict": {"verdict": v, "pos": pos, "clause": clause}, "tlc_cfg": "FormulaTrace.cfg"})
    ctx.sample({"suite_trace": traces[0]}, cap=8)


def replay(ctx, rec):
    if rec.get("direction") == "spec->code" and rec.get("kind") == "formula":
        for what, obs, exp in replay_case(rec["case"]):
            ctx.violation({"fn": what, "txt": rec["case"]["in"]["txt"]}, {"observed": obs, "expected": exp})
    elif rec.get("kind") == "reaction":
        for what, obs, exp in replay_reaction((rec["case"], rec["pool"])):
            ctx.violation({"fn": what}, {"observed": obs, "expected": exp})
    else:
        tr, o = _trace(rec["trace"][:-1])
        v, pos, clause = ctx.validate_traces("FormulaTrace", "FormulaTrace.cfg", [tr])[0]
        if v != "accept":
            ctx.violation(rec["key"], {"observed": o, "verdict": {"verdict": v, "pos": pos, "clause": clause}})
