"""C14 - molar mass is the composition-weighted sum of standard atomic weights.

spec: Periodic.tla (frozen reference table), Mass.tla (exact big-number mass), Formula.tla
(every formula case carries massnum / massden), PeriodicCases.tla (one case per element),
MassMix.tla (mass fractions of mixtures), FormulaTrace.tla (mass clause for seeded formulas).
"""
from fractions import Fraction

import formula_common as fc

LEVEL = "model_checking"
RULE = ("cases = 118 element rows + well-formed terminal states of Formula_MC slices (exact mass) + MassMix "
        "mixtures + seeded formulas judged by FormulaTrace (mass clause); distinct = distinct element / "
        "formula text / mixture; non-trivial = every case except single-atom formulas")
ASSUMPTIONS = [
    "spec/Periodic.tla is the reference table: frozen from the pinned tree after a by-hand review against the "
    "IUPAC/CIAAW abridged standard atomic weights (no independent machine-readable copy exists offline)",
    "electron mass 5.489e-4 u as documented in chempy (mass_from_composition docstring / code)",
    "float masses compared at 1e-12 relative (accumulated rounding of the float sum)",
]
REL = Fraction(1, 10 ** 12)
QUICK = ["counts_q", "hyd_q", "decor_q", "prefix2_q", "symbols", "symsuf"]
THOROUGH = ["nest_t", "counts_t", "hyd_t", "decor_t", "prefix2_t", "symbols", "symsuf"]


def limbs_to_int(l):
    v = 0
    for i, x in enumerate(l):
        v += x * 10 ** (4 * i)
    return v


def int_to_limbs(v):
    if v < 0:
        # a negative mass denotes no value of the specification: travels as a sentinel that equals no expectation
        return [9998, 9998, 9998, 9998, 9998, 9998, 9998]
    out = []
    while v:
        out.append(v % 10000)
        v //= 10000
    return out


def replay_element(case):
    import chempy
    from chempy.util import periodic
    z = case["in"]["z"]
    e = case["exp"]
    bad = []
    dec = "%d.%09d" % (e["wint"], e["wfrac9"])

    def chk(what, obs, exp):
        if obs != exp:
            bad.append((what, obs, exp))
    chk("symbols[z-1]", periodic.symbols[z - 1], e["sym"])
    chk("names[z-1]", periodic.names[z - 1], e["name"])
    chk("relative_atomic_masses[z-1]", periodic.relative_atomic_masses[z - 1], float(dec))
    chk("len(relative_atomic_masses)", len(periodic.relative_atomic_masses), 118)
    for spelled in (e["sym"], e["sym"].lower(), e["sym"].upper(), e["name"], e["lower"], e["name"].upper()):
        try:
            o = chempy.atomic_number(spelled)
        except Exception as ex:
            o = type(ex).__name__
        chk("atomic_number(%r)" % spelled, o, z)
    # period / main-group tables as the code tabulates them
    acc = periodic.accum_period_lengths
    per = next(i + 1 for i, a in enumerate(acc) if z <= a)
    chk("period(z)", per, e["period"])
    grp = [g for g, members in periodic.groups.items() if z in members]
    chk("groups(z)", grp, [e["maingroup"]] if e["maingroup"] else [])
    # a bare element as a substance
    try:
        m = chempy.Substance.from_formula(e["sym"]).mass
    except Exception as ex:
        m = type(ex).__name__
    chk("Substance.from_formula(sym).mass", m, float(dec))
    return bad


def _mass_ok(obs, num, den):
    if not isinstance(obs, (int, float)) or obs != obs:
        return False
    ex = Fraction(limbs_to_int(num), den * 10 ** 9)
    return abs(Fraction(obs) - ex) <= abs(ex) * REL


def replay_formula(case):
    from chempy import Substance
    from chempy.util.periodic import mass_from_composition
    t = fc.code_text(case["in"]["txt"])
    e = case["exp"]
    bad = []
    try:
        s = Substance.from_formula(t)
        m = s.mass
        m2 = mass_from_composition(s.composition)
    except Exception as ex:
        return [("Substance.from_formula.mass", type(ex).__name__, "mass")]
    exd = {"massnum": e["massnum"], "massden": e["massden"]}
    if not _mass_ok(m, e["massnum"], e["massden"]):
        bad.append(("Substance.from_formula.mass", m, exd))
    if not _mass_ok(m2, e["massnum"], e["massden"]):
        bad.append(("mass_from_composition", m2, exd))
    # molar mass with units: the same number in g/mol, in default units and in a scaled unit (kg/mol)
    try:
        from chempy.units import default_units as u, to_unitless
        mm = s.molar_mass()
        v1 = float(to_unitless(mm, u.g / u.mol))
        v2 = float(to_unitless(s.molar_mass(u), u.kg / u.mol)) * 1000
        if not _mass_ok(v1, e["massnum"], e["massden"]) or not _mass_ok(v2, e["massnum"], e["massden"]):
            bad.append(("Substance.molar_mass", [v1, v2], exd))
        if abs(s.mass - m) > 0:      # history: reading the mass twice gives the same number
            bad.append(("Substance.mass[second read]", s.mass, m))
    except Exception as ex:
        bad.append(("Substance.molar_mass", type(ex).__name__, exd))
    return bad


def replay_objects(case):
    """SubstanceObjects.tla: a history of creations / charged creations / in-place edits; after every step every
    object alive must show the composition, charge and mass the specification gives it."""
    from chempy import Substance
    objs, bad = [], []
    for k, step in enumerate(case["in"]["hist"]):
        op = step["op"]
        refused = False
        try:
            if op == "create":
                objs.append(Substance.from_formula(fc.code_text(step["txt"])))
            elif op == "create-charged":
                try:
                    objs.append(Substance.from_formula(fc.code_text(step["txt"]), charge=step["q"]))
                except Exception:
                    refused = True
            else:
                o = objs[step["i"] - 1]
                o.composition[step["z"]] = o.composition.get(step["z"], 0) + step["d"]
        except Exception as ex:
            return [("step %d %s" % (k + 1, op), type(ex).__name__, "no exception")]
        if refused != step["refused"]:
            return [("step %d %s: refused" % (k + 1, op), refused, step["refused"])]
        snap = step["snap"]
        if len(objs) != len(snap):
            return [("step %d %s: objects alive" % (k + 1, op), len(objs), len(snap))]
        for j, (o, e) in enumerate(zip(objs, snap)):
            who = "step %d %s: object %d (%s)" % (k + 1, op, j + 1, e["txt"])
            pr = fc.project_composition(o.composition)
            if pr.get("comp") != e["comp"] or pr.get("q") != e["q"]:
                bad.append((who + ".composition", pr, {"comp": e["comp"], "q": e["q"]}))
            if o.charge != e["q"]:
                bad.append((who + ".charge", o.charge, e["q"]))
            try:
                m = o.mass
            except Exception as ex:
                m = type(ex).__name__
            if not _mass_ok(m, e["massnum"], e["massden"]):
                bad.append((who + ".mass", m, {"massnum": e["massnum"], "massden": e["massden"]}))
        if bad:
            return bad
    return bad


def replay_mix(case):
    from chempy import mass_fractions
    ent = case["in"]["entries"]
    stoich = {x["txt"]: x["coef"] for x in ent}
    bad = []
    try:
        # history: an earlier call with the caller's own substance factory (same keys, other masses)
        # must not influence a later call with the default factory
        from chempy import Substance as _S
        mass_fractions(stoich, substance_factory=lambda k: _S(k, data={"mass": 1.0 + len(k)}))
    except Exception:
        pass
    try:
        r = mass_fractions(stoich)
    except Exception as ex:
        return [("mass_fractions", type(ex).__name__, "fractions")]
    den = limbs_to_int(case["exp"]["den"])
    if set(r) != set(stoich):
        return [("mass_fractions.keys", sorted(r), sorted(stoich))]
    tot = 0.0
    for x, num in zip(ent, case["exp"]["num"]):
        ex = Fraction(limbs_to_int(num), den)
        o = r[x["txt"]]
        tot += o
        if not (o > 0) or abs(Fraction(o) - ex) > ex * Fraction(1, 10 ** 11):
            bad.append(("mass_fractions[%s]" % x["txt"], o, [num, case["exp"]["den"]]))
    if abs(tot - 1.0) > 1e-12:
        bad.append(("sum(mass_fractions)", tot, 1))
    # the same mixture with the substances handed in by the caller (other order, a superset)
    try:
        from chempy import Substance
        from collections import OrderedDict
        table = OrderedDict((k, Substance.from_formula(k)) for k in ["Og", "CH3OCH3"] + [x["txt"] for x in reversed(ent)])
        r3 = mass_fractions(stoich, substances=table)
        if set(r3) != set(stoich) or any(abs(r3[k] - r[k]) > 1e-14 for k in r):
            bad.append(("mass_fractions(substances=table)", {k: r3.get(k) for k in stoich}, r))
    except Exception as ex:
        bad.append(("mass_fractions(substances=table)", type(ex).__name__, "same fractions as without substances="))
    # alias keys: the mixture is written over keys that differ from every formula; the caller's table says what they
    # are - the fractions are those of the table's substances (same expectation from the specification)
    try:
        alias = {x["txt"]: "sp%d_" % (i + 1) for i, x in enumerate(ent)}
        table2 = OrderedDict((alias[x["txt"]], Substance.from_formula(x["txt"])) for x in reversed(ent))
        r4 = mass_fractions({alias[k]: v for k, v in stoich.items()}, substances=table2)
        if set(r4) != set(alias.values()) or any(abs(r4[alias[k]] - r[k]) > 1e-14 for k in r):
            bad.append(("mass_fractions(alias keys, substances=table)", {k: r4.get(alias[k]) for k in stoich}, r))
    except Exception as ex:
        bad.append(("mass_fractions(alias keys, substances=table)", type(ex).__name__, "same fractions"))
    if all(x["coef"] == 1 for x in ent):
        try:
            r2 = mass_fractions(set(stoich))
            if any(abs(r2[k] - r[k]) > 1e-15 for k in r):
                bad.append(("mass_fractions(set)", r2, r))
        except Exception as ex:
            bad.append(("mass_fractions(set)", type(ex).__name__, "same as dict with unit coefficients"))
    return bad


def _trace(toks):
    from chempy.util.periodic import symbols
    from chempy.util.parsing import formula_to_composition
    from chempy import Substance
    txt = fc.tokens_text(toks, symbols)
    t = fc.code_text(txt)
    o = fc.observe(formula_to_composition, t)
    mass9 = []
    m = None
    if not o["raised"]:
        try:
            m = Substance.from_formula(t).mass
            mass9 = int_to_limbs(int(round(Fraction(m) * 10 ** 9)))
        except Exception as ex:
            m = type(ex).__name__
            mass9 = [9999, 9999, 9999, 9999, 9999, 9999, 9999]
    ev = {"k": "result", "txt": txt, "raised": o["raised"], "comp": o.get("comp", []), "q": o.get("q", 0),
          "shown": [], "mass9": mass9}
    if "unencodable" in o:
        return None, o
    return list(toks) + [ev], {"mass": m}


def run(ctx):
    import core
    # ---- the table
    res = ctx.tlc("PeriodicCases", "PeriodicCases.cfg", require_cases=118, require_actions=["Next"] if False else ())
    outs = [replay_element(c) for c in res.cases]
    ctx.cases_replayed += len(res.cases)
    for case, bad in zip(res.cases, outs):
        ctx.ran("Z%d" % case["in"]["z"])
        for what, obs, exp in bad:
            ctx.violation({"fn": what, "z": case["in"]["z"], "sym": case["exp"]["sym"]},
                          {"direction": "spec->code", "kind": "element", "case": case, "observed": obs, "expected": exp})
    ctx.sample({"element": res.cases[0]}, cap=10)

    # ---- formula masses
    per_slice = 1500 if ctx.quick else 60000
    for sl in (QUICK if ctx.quick else THOROUGH):
        res = ctx.tlc("Formula_MC", "Formula_MC_%s.cfg" % sl, require_cases=100, timeout=1500)
        cases = [c for c in res.cases if not c["exp"]["raise"]]
        sel = ctx.pick(cases, per_slice)
        res.cases = cases = None          # only the sample is kept in memory
        outs = ctx.pmap(replay_formula, sel)
        ctx.cases_replayed += len(sel)
        for case, bad in zip(sel, outs):
            ctx.ran(case["in"]["txt"], nontrivial=case["exp"]["ntoks"] >= 2)
            for what, obs, exp in bad:
                ctx.violation({"fn": what, "txt": case["in"]["txt"], "cls": case["cls"]},
                              {"direction": "spec->code", "kind": "formula", "case": case, "observed": obs, "expected": exp})
        if sel:
            c0 = sel[0]
            ctx.sample({"txt": c0["in"]["txt"], "massnum": c0["exp"]["massnum"], "massden": c0["exp"]["massden"]}, cap=10)

    # ---- mixtures
    res = ctx.tlc("MassMix", "MassMix_%s.cfg" % ("q" if ctx.quick else "t"),
                  require_actions=["GenAdd", "Finish"] if ctx.quick else (), require_cases=50)
    outs = ctx.pmap(replay_mix, res.cases)
    ctx.cases_replayed += len(res.cases)
    for case, bad in zip(res.cases, outs):
        ctx.ran({"mix": case["in"]})
        for what, obs, exp in bad:
            ctx.violation({"fn": what, "mix": case["in"]["entries"]},
                          {"direction": "spec->code", "kind": "mix", "case": case, "observed": obs, "expected": exp})
    ctx.sample({"mixture": res.cases[-1]}, cap=10)

    # ---- object histories: creations, charged creations and in-place edits leave every other object alone
    res = ctx.tlc("SubstanceObjects", "SubstanceObjects_%s.cfg" % ("q" if ctx.quick else "t"), require_cases=500,
                  timeout=1500)
    sel = ctx.pick(res.cases, 800 if ctx.quick else 30000)
    outs = ctx.pmap(replay_objects, sel)
    ctx.cases_replayed += len(sel)
    for case, bad in zip(sel, outs):
        ctx.ran({"objects": [h.get("txt", h.get("i")) for h in case["in"]["hist"]], "cls": case["cls"]})
        for what, obs, exp in bad:
            ctx.violation({"fn": "Substance objects", "what": what.split(":")[-1].strip() if ":" in what else what,
                           "cls": case["cls"]},
                          {"direction": "spec->code", "kind": "objects", "case": case, "step": what,
                           "observed": obs, "expected": exp})
    ctx.sample({"objects": sel[0]["in"]["hist"][0]}, cap=10)
    ctx.exhaustive = not ctx.quick

    # ---- code -> spec: seeded formulas, mass judged by TLC in exact limb arithmetic
    n = 2000 if ctx.quick else 30000
    g = fc.Gen(ctx.rng, max_depth=4 if ctx.quick else 6)
    seqs = [g.wellformed() for _ in range(n)]
    outs = ctx.pmap(_trace, seqs)
    traces, obs = [], []
    for tr, o in outs:
        if tr is None:
            ctx.skip("unencodable-observation")
            continue
        traces.append(tr)
        obs.append(o)
    verdicts = ctx.validate_traces("FormulaTrace", "FormulaTrace.cfg", traces)
    for tr, o, (v, pos, clause) in zip(traces, obs, verdicts):
        txt = tr[-1]["txt"]
        ctx.ran(txt + "|trace", nontrivial=len(tr) > 3)
        if v == "accept":
            continue
        if clause.startswith("step:") or clause in ("text", "notdone", "no-result-event"):
            raise core.MachineryFailure("generated trace outside the model: %s at %d: %r" % (clause, pos, txt))
        if clause != "mass":
            ctx.skip("rejected-for-C01-clause-" + clause)
            continue
        ctx.violation({"fn": "Substance.from_formula.mass", "txt": txt, "clause": clause},
                      {"direction": "code->spec", "kind": "trace", "trace": tr, "observed": o,
                       "verdict": {"verdict": v, "pos": pos, "clause": clause}, "tlc_cfg": "FormulaTrace.cfg"})
    if traces:
        ctx.sample({"trace": traces[0]}, cap=10)
    # binding self-test: a recorded mass that is off by 1e-5 u (relative >= 1e-9) must be rejected
    import copy
    bad = []
    for tr, (v, _, _) in zip(traces, verdicts):
        if v == "accept" and len(tr[-1]["mass9"]) >= 2 and len(tr[-1]["mass9"]) <= 3:
            c = copy.deepcopy(tr)
            c[-1]["mass9"][1] = (c[-1]["mass9"][1] + 1) % 10000
            bad.append(c)
        if len(bad) >= 40:
            break
    if not bad:
        raise core.MachineryFailure("binding self-test: no accepted trace to corrupt")
    for v, pos, clause in ctx.validate_traces("FormulaTrace", "FormulaTrace.cfg", bad, count=False):
        if v != "reject" or clause != "mass":
            raise core.MachineryFailure("binding self-test: corrupted mass gave %s/%s" % (v, clause))
    ctx.counters["selftest_corrupted_traces_rejected"] += len(bad)


def replay(ctx, rec):
    kind = rec.get("kind")
    fn = {"element": replay_element, "formula": replay_formula, "mix": replay_mix, "objects": replay_objects}.get(kind)
    if fn:
        for what, obs, exp in fn(rec["case"]):
            ctx.violation({"fn": what}, {"observed": obs, "expected": exp})
    else:
        tr, o = _trace(rec["trace"][:-1])
        v, pos, clause = ctx.validate_traces("FormulaTrace", "FormulaTrace.cfg", [tr])[0]
        if v != "accept":
            ctx.violation(rec["key"], {"observed": o, "verdict": {"verdict": v, "pos": pos, "clause": clause}})
