"""C15 - structural queries on a reaction system match its reaction graph.

spec/RSysGraph.tla (+ RSysGraph_MC slices, RSysGraphTrace).  Directions:
  spec -> code : TLC enumerates systems (every sequence of <= 4 catalog reactions in every order,
                 several substance-list modes) and, for each, the expected result of the constructor
                 and of one query (graph = split + categories + equilibria + participation + effect,
                 subset, sum/equality/concatenate, conversions, upper bounds, yield decomposition).
                 The history is replayed through the real ``ReactionSystem`` API and the projected
                 observation compared field by field.  Histories with DoSplit/DoSubset/DoAdd steps
                 (whose result order the property leaves open) are recorded and judged by TLC.
  code -> spec : seeded random systems over 12 substances (isolated species, catalysts, several
                 components) and random operation sequences, judged step by step by RSysGraphTrace.

Projections are structural: substance lists as they are, reactions of a derived system as the
indices of the identical objects in the parent, sets sorted, numpy numbers as integers / [n, d].
"""
import re
from collections import OrderedDict
from fractions import Fraction

import core

LEVEL = "model_checking"
RULE = ("cases = terminal states of the RSysGraph_MC slices (system + one query, or a history of "
        "Make/DoSplit/DoSubset/DoAdd closed by a graph query) + seeded histories validated by "
        "RSysGraphTrace; distinct = distinct histories; non-trivial = the system has >= 2 reactions "
        "or the history has an operation besides Make and the query")
ASSUMPTIONS = [
    "reactions have no inactive parts and no parameters (two reactions are the same iff their stoichiometries are)",
    "isolated substances belong to no split group (groups partition the reactions)",
    "substances that are net-produced by one reaction and net-consumed by another are in none of the four categories",
    "forward/backward pairs are decided on the all (active + inactive) stoichiometries; when two reactions of a "
    "system have the same all-stoichiometry the pairs are an open answer (genuine pairs, every reaction with a "
    "later partner listed first in one) judged by TLC",
    "the substance lists of subset()/concatenate() results are not compared (the property names reactions only); "
    "sums are compared as multisets of reactions and sets of substances",
    "decompose_yields is judged when the net-stoichiometry vectors are independent (unique decomposition); results "
    "are rounded to the nearest rational with denominator <= 10^6",
    "upper bounds: floats encoded as p/q, q <= 10^6, relative residual <= 1e-12",
]
ABSENT = "Zz"
SPECIES12 = list("ABCDEFGHIJKL")


# ------------------------------------------------------------------ projection helpers
def _int(x):
    """numpy / python number -> int, or None"""
    try:
        if isinstance(x, bool):
            return None
        if isinstance(x, int):
            return x
        f = float(x)
        if f == int(f) and abs(f) < 2 ** 30:
            return int(f)
    except Exception:
        pass
    return None


def _int_nested(x):
    if isinstance(x, list):
        out = [_int_nested(v) for v in x]
        return None if any(v is None for v in out) else out
    return _int(x)


def _q(x):
    """float -> [n, d] (encoder (i)); inf -> [1, 0]; None if not encodable"""
    x = float(x)
    if x == float("inf"):
        return [1, 0]
    if x != x or x < 0:
        return [-1, 1]      # nan / negative bound: a sentinel that equals no expectation
    f = Fraction(x).limit_denominator(10 ** 6)
    if abs(float(f) - x) > 1e-12 * max(abs(x), 1e-300):
        return None
    return [f.numerator, f.denominator]


def _q_round(x):
    f = Fraction(float(x)).limit_denominator(10 ** 6)
    return [f.numerator, f.denominator]


def _match(objs, pools):
    """For every object the (tag, index) of the identical object in the pools (each used once)."""
    pool = [[tag, k, o, False] for tag, lst in pools for k, o in enumerate(lst, 1)]
    out = []
    for o in objs:
        for ent in pool:
            if not ent[3] and ent[2] is o:
                ent[3] = True
                out.append([ent[0], ent[1]])
                break
        else:
            return None
    return out


# DOT lexer: undoes exactly the presentation of rsys2dot (default colours name the classes)
_NODE_RE = re.compile(r'^  "([^"]*)" \[fontcolor=(\w+) label="([^"]*)"\];$')
_EDGE_RE = re.compile(r'^  "([^"]*)" -> "([^"]*)" \[color=(\w+),fontcolor=(\w+),label="([^"]*)"(?:,penwidth=[^,\]]*)?\];$')
_RNODE_RE = re.compile(r'^    node \[label="([^"]*)",shape=diamond\]$')
NODE_CLASS = {"maroon": "depleted", "darkgreen": "accumulated", "black": "other"}
EDGE_CLASS = {"maroon": "reactant", "darkgreen": "product"}


def parse_dot(lines, colors=("maroon", "darkgreen")):
    """list of DOT lines -> {snodes: [...], rnodes: [...], edges: {"a->b": [label, kind]}}"""
    toks = [ln.rstrip("\n") for ln in lines]
    if not toks or not toks[0].startswith("digraph ") or not toks[0].endswith("{") or toks[-1] != "}":
        return _bad("dot frame")
    snodes, rnodes, edges = [], [], {}
    NODE_CLASS = {colors[0]: "depleted", colors[1]: "accumulated", "black": "other"}   # the colours the caller passed
    EDGE_CLASS = {colors[0]: "reactant", colors[1]: "product"}
    i = 1
    while i < len(toks) - 1:
        ln = toks[i]
        m = _NODE_RE.match(ln)
        if m:
            if m.group(2) not in NODE_CLASS:
                return _bad("node colour")
            snodes.append({"key": m.group(1), "cls": NODE_CLASS[m.group(2)], "label": m.group(3)})
            i += 1
            continue
        m = _EDGE_RE.match(ln)
        if m:
            a, b, c1, c2, lbl = m.groups()
            if c1 != c2 or c1 not in EDGE_CLASS:
                return _bad("edge colour")
            key = "%s->%s" % (a, b)
            if key in edges:
                return _bad("repeated edge")
            edges[key] = [lbl, EDGE_CLASS[c1]]
            i += 1
            continue
        if ln == "  {" and i + 3 < len(toks) and toks[i + 3] == "  }":
            m = _RNODE_RE.match(toks[i + 1])
            if not m or not toks[i + 2].startswith("    "):
                return _bad("reaction node block")
            rnodes.append({"id": toks[i + 2].strip(), "label": m.group(1)})
            i += 4
            continue
        return _bad("unparsed dot line")
    return _ok(snodes=snodes, rnodes=rnodes, edges=edges)


def _call(fn):
    try:
        return fn()
    except core.MachineryFailure:
        raise
    except Exception as exc:
        return "raised:" + type(exc).__name__


def _refused(fn, exc_type):
    try:
        fn()
    except exc_type:
        return True
    except Exception:
        return False
    return False


def _leaves_ok(x):
    if isinstance(x, dict):
        return all(isinstance(k, str) and _leaves_ok(v) for k, v in x.items())
    if isinstance(x, (list, tuple)):
        return all(_leaves_ok(v) for v in x)
    return isinstance(x, (str, bool)) or (isinstance(x, int) and abs(x) < 2 ** 31)


def _sanitize(o):
    """total observation: only strings, booleans and 32-bit integers travel to TLC; anything else the code
    returned (None, nan, a huge or non-integer number ...) makes the observation a defect ("bad")"""
    if not o.get("bad") and not _leaves_ok(o):
        return {"raised": False, "exc": "", "bad": "ill-typed value"}
    return o


def _ok(**kw):
    o = {"raised": False, "exc": "", "bad": ""}
    o.update(kw)
    return o


def _bad(msg):
    return {"raised": False, "exc": "", "bad": msg}


def _pred(p):
    kind, s, n = p["kind"], p["s"], p["n"]
    if kind == "has":
        return lambda r: s in r.keys()
    if kind == "consumes":
        return lambda r: r.net_stoich([s])[0] < 0
    if kind == "order":
        return lambda r: r.order() == n
    if kind == "nprod":
        return lambda r: len(r.prod) == n
    if kind == "named":
        return lambda r: (r.name or "") == s
    raise core.MachineryFailure("unknown predicate %r" % (p,))


# ------------------------------------------------------------------ replay of one history
class World(object):
    def __init__(self):
        from chempy import Reaction, ReactionSystem, Substance
        self.Reaction, self.RS, self.Substance = Reaction, ReactionSystem, Substance
        self.ws = []
        self.checked = []

    def kw(self, i):
        return {} if self.checked[i] else {"checks": ()}

    # -- steps
    def make(self, h):
        rxns = [self.Reaction(dict(r["reac"]), dict(r["prod"]), inact_reac=dict(r.get("ireac") or {}),
                              inact_prod=dict(r.get("iprod") or {}), name=r.get("name") or None) for r in h["rx"]]
        comp = h.get("comp") or {}
        given, mode = h["given"], h["mode"]

        opt = h.get("opt") or {"sort": "default", "addmissing": False, "chk": "default"}
        alias = bool(opt.get("alias"))

        def sub(key):
            name = ("n_" + key) if alias else key     # alias: the mapping key differs from Substance.name
            if comp:
                return self.Substance(name, composition={int(k): v for k, v in comp[key].items()})
            return self.Substance(name)
        if mode == "deduce":
            substances = None
        elif mode == "list":
            substances = [sub(n) for n in given] if comp else list(given)
        elif mode == "str":
            substances = " ".join(given)
        elif mode == "set":
            substances = set(given)
        elif mode == "odict":
            substances = OrderedDict((n, sub(n)) for n in given)
        elif mode == "dict":
            substances = {n: sub(n) for n in given}
        elif mode == "tuple":
            substances = tuple(sub(n) for n in given) if comp else tuple(given)
            rxns = tuple(rxns)
        else:
            raise core.MachineryFailure("unknown mode %r" % (mode,))
        kw = {}
        if opt["sort"] != "default":
            kw["sort_substances"] = opt["sort"] == "yes"
        if opt["addmissing"]:
            kw["missing_substances_from_keys"] = True
        if opt["chk"] == "none":
            kw["checks"] = ()
        elif opt["chk"] == "nodup":
            kw["dont_check"] = {"duplicate"}
        try:
            rs = self.RS(rxns, substances, **kw)
        except ValueError as exc:
            return {"raised": True, "exc": type(exc).__name__, "bad": "", "ss": [], "nr": 0}
        self.ws.append(rs)
        self.checked.append(opt["chk"] == "default")
        return _ok(ss=list(rs.substances.keys()), nr=rs.nr)

    def _parts(self, i):
        sys_ = self.ws[i]
        parts = sys_.split(**self.kw(i))
        proj = []
        for p in parts:
            m = _match(p.rxns, [(1, sys_.rxns)])
            if m is None:
                return None, None
            proj.append(({"rx": [k for _, k in m], "ss": list(p.substances.keys())}, p))
        proj.sort(key=lambda t: min(t[0]["rx"]) if t[0]["rx"] else 0)
        return [t[0] for t in proj], [t[1] for t in proj]

    def do_split(self, h):
        i = h["i"] - 1
        proj, parts = self._parts(i)
        if proj is None:
            return _bad("foreign reaction")
        for p in parts:
            self.ws.append(p)
            self.checked.append(self.checked[i])
        return _ok(parts=proj)

    def _subset(self, i, p):
        sys_ = self.ws[i]
        yes, no = sys_.subset(_pred(p))
        my, mn = _match(yes.rxns, [(1, sys_.rxns)]), _match(no.rxns, [(1, sys_.rxns)])
        if my is None or mn is None:
            return None, None
        return ({"rx": [k for _, k in my], "ss": list(yes.substances.keys())},
                {"rx": [k for _, k in mn], "ss": list(no.substances.keys())}), (yes, no)

    def do_subset(self, h):
        i = h["i"] - 1
        proj, systems = self._subset(i, h["p"])
        if proj is None:
            return _bad("foreign reaction")
        for s in systems:
            self.ws.append(s)
            self.checked.append(False)
        return _ok(yes=proj[0], no=proj[1])

    def do_sort(self, h):
        sys_ = self.ws[h["i"] - 1]
        if h["how"] == "name":
            sys_.sort_substances_inplace()
        else:
            sys_.sort_substances_inplace(key=lambda kv: [-ord(c) for c in kv[0]])
        return _ok(ss=list(sys_.substances.keys()))

    def do_add(self, h):
        i, j = h["i"] - 1, h["j"] - 1
        a, b = self.ws[i], self.ws[j]
        a_rx, b_rx = list(a.rxns), list(b.rxns)
        form = h["how"].partition("-")[2]   # "" = a system; else the iterable the plain reactions come in
        other = {"": lambda: b, "list": lambda: list(b.rxns), "tuple": lambda: tuple(b.rxns),
                 "gen": lambda: (r for r in b_rx), "iter": lambda: iter(b_rx),
                 "map": lambda: map(lambda r: r, b_rx)}[form]()
        if h["how"].startswith("add"):
            new = a + other
            self.ws.append(new)
            self.checked.append(False)
        else:
            a += other
            new = a
            self.checked[i] = False
        src = _match(new.rxns, [(1, a_rx), (2, b_rx)])
        if src is None:
            return _bad("foreign reaction")
        return _ok(src=src, ss=list(new.substances.keys()))

    # -- queries
    def query(self, h):
        i = h["i"] - 1
        sys_ = self.ws[i]
        kind, arg = h["kind"], h["arg"]
        if kind == "shape":
            return _ok(rx=[{"reac": dict(r.reac), "prod": dict(r.prod)} for r in sys_.rxns],
                       ss=list(sys_.substances.keys()))
        if kind == "graph":
            names = list(sys_.substances.keys()) + [ABSENT]

            def f_split():
                split = []
                for p in sys_.split(**self.kw(i)):
                    m = _match(p.rxns, [(1, sys_.rxns)])
                    if m is None:   # a part holds a reaction twice / a foreign one: an observation, not a crash
                        return "unmatched-reactions"
                    split.append({"rx": sorted(k for _, k in m), "ss": sorted(p.substances.keys())})
                split.sort(key=lambda t: min(t["rx"]) if t["rx"] else 0)
                return split

            def f_eff():
                eff = {}
                for s in names:
                    eff[s] = sorted([ri + 1, _int(n)] for ri, n in sys_.per_reaction_effect_on_substance(s).items())
                return eff
            # each of the five queries is observed on its own; the first one that fails is named in `fault`
            # ("<field>:raised:<Exception>") and its field left empty (TLC and the direct comparison look at
            # `fault` before any value)
            o = _ok(split=_call(f_split),
                    cat=_call(lambda: {k: sorted(v) for k, v in sys_.categorize_substances(**self.kw(i)).items()}),
                    eq=_call(lambda: sorted([a + 1, b + 1] for a, b in sys_.identify_equilibria())),
                    part=_call(lambda: {s: sorted(ri + 1 for ri in sys_.substance_participation(s)) for s in names}),
                    eff=_call(f_eff), fault="")
            for fld in ("split", "cat", "eq", "part", "eff"):
                if isinstance(o[fld], str):
                    if not o["fault"]:
                        o["fault"] = "%s:%s" % (fld, o[fld])
                    o[fld] = []
            return o
        if kind == "order":
            last = list(sys_.substances)[-1]
            col, _ = sys_.per_substance_varied(dict(arg), {last: [77]})
            return _ok(names=list(sys_.substance_names()),
                       arr=[_int(x) for x in sys_.as_per_substance_array(dict(arg))],
                       idx={s: _int(sys_.as_substance_index(s)) for s in sys_.substances},
                       col=_int_nested(col.tolist()))
        if kind == "dot":
            from chempy.util.graph import rsys2dot
            kw = {}
            colors = ("maroon", "darkgreen")
            if arg.get("rprefix", "r") != "r":
                kw["rprefix"] = arg["rprefix"]
            if arg.get("colors") == "custom":
                colors = kw["colors"] = ("red", "blue")
            return parse_dot(rsys2dot(sys_, rref0=arg["rref0"], include_inactive=bool(arg["inact"]), **kw), colors)
        if kind == "subset":
            proj, _ = self._subset(i, arg)
            if proj is None:
                return _bad("foreign reaction")
            return _ok(yes=sorted(proj[0]["rx"]), no=sorted(proj[1]["rx"]))
        if kind == "conv":
            arr = [_int(x) for x in sys_.as_per_substance_array(dict(arg["d"]))]
            dct = {k: _int(v) for k, v in sys_.as_per_substance_dict(list(arg["a"])).items()}
            idx = {s: _int(sys_.as_substance_index(s)) for s in sys_.substances}
            # the caller lists the varied substances in the order arg["vorder"]
            var, keys = sys_.per_substance_varied(dict(arg["d"]),
                                                  OrderedDict((k, list(arg["vals"][k])) for k in arg["vorder"]))
            varied = _int_nested(var.tolist())
            if None in arr or None in dct.values() or None in idx.values() or varied is None:
                return _bad("non-integer entry")
            d = dict(arg["d"])
            d_extra = dict(d)
            d_extra[ABSENT] = 99
            d_short = dict(d)
            d_short.pop(next(iter(sys_.substances)))
            a = list(arg["a"])
            return _ok(arr=arr, dict=dct, idx=idx, vkeys=list(keys), varied=varied,
                       names=list(sys_.substance_names()),
                       arrlist=[_int(x) for x in sys_.as_per_substance_array(a)],
                       arrextra=[_int(x) for x in sys_.as_per_substance_array(d_extra)],
                       refused={"unk": _refused(lambda: sys_.as_per_substance_array(d_extra, raise_on_unk=True), KeyError),
                                "size": _refused(lambda: sys_.as_per_substance_array(a + [1]), ValueError),
                                "missing": _refused(lambda: sys_.as_per_substance_array(d_short), KeyError)},
                       idxint=[_int(sys_.as_substance_index(k)) for k in range(len(sys_.substances))],
                       **self._conv_more(sys_, d, a))
        if kind == "bounds":
            conc = {s: v / float(arg["den"]) for s, v in arg["c"].items()}
            kw = {}
            if arg["form"] in ("list", "array"):
                conc = [conc[s] for s in sys_.substances]
                if arg["form"] == "array":
                    import numpy as np
                    conc = np.array(conc)
            elif arg["form"] == "minfn":
                kw["min_"] = lambda seq: sorted(seq)[0]    # a caller-supplied minimum function
            if list(arg["skip"]) != ["0"]:      # ["0"] is the default skip_keys=(0,)
                kw["skip_keys"] = tuple(int(k) for k in arg["skip"])
            ub = [_q(x) for x in sys_.upper_conc_bounds(conc, **kw)]
            if None in ub:
                return _bad("unencodable")
            return _ok(ub=ub)
        if kind == "yields":
            from chempy.util.stoich import decompose_yields
            y = OrderedDict((s, arg["y"][s] / float(arg["den"])) for s in arg["korder"])
            k = decompose_yields(y, sys_.rxns, **({"atol": 1e-6} if arg.get("atol") == "loose" else {}))
            return _ok(k=[_q_round(x) for x in k])
        raise core.MachineryFailure("unknown query %r" % (kind,))

    def _conv_more(self, sys_, d, a):
        import numpy as np
        a2 = np.array([a, [x + 1 for x in a]], dtype=float)
        before = a2.copy()

        def f_var0():
            v0, k0 = sys_.per_substance_varied(d)          # nothing varied
            return {"keys": list(k0), "arr": _int_nested(np.asarray(v0).tolist())}
        # each extra call is observed on its own (first failure named in `fault`)
        o = dict(arrint=_call(lambda: [_int(x) for x in sys_.as_per_substance_array(d, dtype="int64")]),
                 arr2d=_call(lambda: _int_nested(np.asarray(sys_.as_per_substance_array(a2)).tolist())),
                 varied0=_call(f_var0), fault="")
        o["argkept"] = bool((a2 == before).all())
        for fld in ("arrint", "arr2d", "varied0"):
            if isinstance(o[fld], str):
                if not o["fault"]:
                    o["fault"] = "%s:%s" % (fld, o[fld])
                o[fld] = []
        return o

    def query2(self, h):
        a, b = self.ws[h["i"] - 1], self.ws[h["j"] - 1]
        kind = h["kind"]
        if kind == "eq":
            return _ok(eq=bool(a == b))
        a_rx, b_rx = list(a.rxns), list(b.rxns)
        if kind == "add":
            new = a + b
            src = _match(new.rxns, [(1, a_rx), (2, b_rx)])
            if src is None:
                return _bad("foreign reaction")
            return _ok(src=sorted(src), ss=sorted(new.substances.keys()))
        if kind == "concat":
            sum_, dup = self.RS.concatenate([a, b])
            m = _match(list(sum_.rxns) + list(dup.rxns), [(1, a_rx), (2, b_rx)])
            if m is None:
                return _bad("foreign reaction")
            return _ok(sum=sorted(m[:len(sum_.rxns)]), dup=sorted(m[len(sum_.rxns):]))
        raise core.MachineryFailure("unknown query %r" % (kind,))

    def query_cat(self, h):
        systems = [self.ws[j - 1] for j in h["js"]]
        pools = [(k, list(s.rxns)) for k, s in enumerate(systems, 1)]
        sum_, dup = self.RS.concatenate(systems)
        m = _match(list(sum_.rxns) + list(dup.rxns), pools)
        if m is None:
            return _bad("foreign reaction")
        return _ok(sum=sorted(m[:len(sum_.rxns)]), dup=sorted(m[len(sum_.rxns):]))

    def step(self, h):
        fn = {"QueryCat": self.query_cat, "DoSort": self.do_sort, "Peek": self.query, "Make": self.make, "DoSplit": self.do_split, "DoSubset": self.do_subset, "DoAdd": self.do_add,
              "Query": self.query, "Query2": self.query2}.get(h["op"])
        if fn is None:
            raise core.MachineryFailure("unknown operation %r" % (h,))
        try:
            o = _sanitize(fn(h))
            if not o["raised"] and not o["bad"] and not (h["op"] == "QueryCat" or h.get("kind") == "concat"):
                # frame: every system as it is after the step (concatenate updates its first argument: not listed)
                o["all"] = [{"ss": list(w.substances.keys()),
                             "rx": [{"reac": dict(r.reac), "prod": dict(r.prod), "ireac": dict(r.inact_reac),
                                     "iprod": dict(r.inact_prod), "name": r.name or ""} for r in w.rxns]}
                            for w in self.ws]
                o = _sanitize(o)
            return o
        except core.MachineryFailure:
            raise
        except Exception as exc:
            return {"raised": True, "exc": type(exc).__name__, "bad": ""}


def run_history(hist):
    w = World()
    obs = []
    for h in hist:
        o = w.step(h)
        obs.append(o)
        if (o["raised"] and h["op"] != "Make") or o["bad"]:
            break
    return obs


def _nm(x):
    """TLC prints an empty map as []"""
    return x


def _eq(a, b):
    """structural equality modulo TLC's [] for an empty map"""
    if isinstance(a, dict) and b == []:
        return a == {}
    if isinstance(a, dict) and isinstance(b, dict):
        return a.keys() == b.keys() and all(_eq(a[k], b[k]) for k in a)
    if isinstance(a, list) and isinstance(b, list):
        return len(a) == len(b) and all(_eq(x, y) for x, y in zip(a, b))
    return a == b


def disagreement(h, o, exp):
    """name of the first observed field that differs from the expectation computed by TLC ('' = none)"""
    if o["bad"]:
        return "bad:" + o["bad"]
    if exp["op"] == "make":
        if o["raised"] != exp["raised"]:
            return "make-raised:" + o["exc"] if o["raised"] else "make-not-refused"
        if o["raised"]:
            return ""
        return "" if (o["ss"] == exp["ss"] and o["nr"] == exp["nr"]) else "substance-order"
    if o["raised"]:
        return "raised:" + o["exc"]
    x = exp["exp"]
    if o.get("fault"):
        return "%s:%s" % (exp["kind"], o["fault"].split(":")[0])
    for k in o:
        if k in ("raised", "exc", "bad", "fault", "all"):
            continue
        if k == "eq" and exp["kind"] == "graph" and not x["eqdef"]:
            continue
        if not _eq(o[k], x[k]):
            return "%s:%s" % (exp["kind"], k)
    return ""


FN = {"graph": "split/categorize_substances/identify_equilibria/substance_participation/per_reaction_effect_on_substance",
      "dot": "chempy.util.graph.rsys2dot", "subset": "ReactionSystem.subset", "conv": "as_per_substance_array/dict/index/varied",
      "bounds": "ReactionSystem.upper_conc_bounds", "order": "substance_names/as_per_substance_array",
      "DoSort": "ReactionSystem.sort_substances_inplace", "yields": "decompose_yields", "add": "ReactionSystem.__add__",
      "eq": "ReactionSystem.__eq__", "concat": "ReactionSystem.concatenate", "concatn": "ReactionSystem.concatenate", "shape": "ReactionSystem",
      "Make": "ReactionSystem()", "DoSplit": "ReactionSystem.split", "DoSubset": "ReactionSystem.subset",
      "DoAdd": "ReactionSystem.__add__/__iadd__"}


def to_trace(hist, obs):
    tr = []
    for h, o in zip(hist, obs):
        e = dict(h)
        e["obs"] = o
        tr.append(e)
    tr.append({"op": "End"})
    return tr


def _judge_traces(ctx, items, direction):
    if not items:
        return
    traces = [to_trace(h, o) for h, o in items]
    verdicts = ctx.validate_traces("RSysGraphTrace", "RSysGraphTrace.cfg", traces, workers=8)
    for (hist, obs), tr, (v, pos, clause) in zip(items, traces, verdicts):
        if v == "accept":
            continue
        if clause.startswith("outside:") or clause.endswith("unencodable"):
            ctx.skip(clause)
            continue
        if clause.startswith("model:"):
            raise core.MachineryFailure("recorded trace outside the model: %s at %d: %r" % (clause, pos, tr[:pos]))
        e = tr[pos - 1]
        key = {"fn": FN.get(e.get("kind") if (e["op"].startswith("Query") or e["op"] == "Peek") else e["op"], e["op"]), "clause": clause}
        if isinstance(e.get("obs", {}).get("names"), list):
            key["ns"] = len(e["obs"]["names"])
        ctx.violation(key,
                      {"direction": direction, "trace": tr, "observed": e["obs"],
                       "verdict": {"verdict": v, "pos": pos, "clause": clause}, "tlc_cfg": "RSysGraphTrace.cfg"})


def _peek_then_change(c):
    """sampling class of histories that ask an instance, change it (sort / +=) and ask it again"""
    tag = c["cls"].partition(":")[2]
    return "K" in tag and any(ch in "OA" for ch in tag[tag.index("K") + 1:])


def _nontrivial(hist):
    return any(len(h.get("rx", [])) >= 2 for h in hist) or any(h["op"].startswith("Do") for h in hist)


_PREFETCH = {}


def _tlc_on_proxy(cfg, actions, min_cases, workers):
    """Run one slice's TLC with core's own Context.tlc on a private accounting object (thread-safe)."""
    import types
    acc = types.SimpleNamespace(states=0, transitions=0, tlc_runs=[], coverage_actions={})
    res = core.Context.tlc(acc, "RSysGraph_MC", "RSysGraph_MC_%s.cfg" % cfg, require_actions=actions,
                           require_cases=min_cases, timeout=1500, workers=workers)
    return res, acc


_PLAN = {"specs": [], "next": 0, "window": 0, "pool": None, "workers": 4}


def _prefetch(ctx, specs, parallel=4, window=None, workers=4):
    """Run the TLC part of the slices ahead of their replay, `parallel` at a time and at most `window` results
    ahead of the consumer (the slices are independent; most of a quick slice is JVM start-up).  Results are
    consumed in order by _slice; accounting is merged on the main thread."""
    from concurrent.futures import ThreadPoolExecutor
    _PLAN.update(specs=list(specs), next=0, window=window or len(specs), pool=ThreadPoolExecutor(max_workers=parallel),
                 workers=workers)
    _advance()


def _advance():
    while _PLAN["next"] < len(_PLAN["specs"]) and len(_PREFETCH) < _PLAN["window"]:
        cfg, actions, min_cases = _PLAN["specs"][_PLAN["next"]]
        _PREFETCH[cfg] = _PLAN["pool"].submit(_tlc_on_proxy, cfg, actions, min_cases, _PLAN["workers"])
        _PLAN["next"] += 1


def _slice(ctx, cfg, n_pick, actions, via_tlc=False, min_cases=50, always=None):
    if cfg in _PREFETCH:
        res, acc = _PREFETCH.pop(cfg).result()     # a MachineryFailure of the run is re-raised here
        _advance()
        ctx.states += acc.states
        ctx.transitions += acc.transitions
        ctx.tlc_runs.extend(acc.tlc_runs)
        ctx.coverage_actions.update(acc.coverage_actions)
    else:
        res = ctx.tlc("RSysGraph_MC", "RSysGraph_MC_%s.cfg" % cfg, require_actions=actions, require_cases=min_cases,
                      timeout=1500, workers=8)
    sel = ctx.pick(res.cases, n_pick, always=always) if always else ctx.pick(res.cases, n_pick)
    hists = [c["in"]["hist"] for c in sel]
    outs = ctx.pmap(run_history, hists)
    ctx.cases_replayed += len(sel)
    to_tlc = []
    for c, hist, obs in zip(sel, hists, outs):
        ctx.ran({"h": hist}, nontrivial=_nontrivial(hist))
        if via_tlc and any(h["op"].startswith("Do") or h["op"] == "Peek" for h in hist):
            to_tlc.append((hist[:len(obs)], obs))
            continue
        if len(obs) < len(hist):
            # an earlier step failed: let TLC name it
            to_tlc.append((hist[:len(obs)], obs))
            continue
        if c["exp"].get("kind") == "graph" and not c["exp"]["exp"]["eqdef"]:
            # reactions with the same all-stoichiometry: the pairs are an open answer, judged by TLC
            to_tlc.append((hist, obs))
            continue
        why = disagreement(hist[-1], obs[-1], c["exp"])
        if why.endswith("unencodable"):
            ctx.skip("unencodable")
        elif why:
            last = hist[-1]
            key = {"fn": FN.get(last.get("kind", last["op"]), last["op"]), "clause": why, "cls": c["cls"]}
            if obs[-1].get("fault"):
                key["exc"] = obs[-1]["fault"].partition(":")[2]
            if isinstance(obs[-1].get("names"), list):
                key["ns"] = len(obs[-1]["names"])
            ctx.violation(key,
                          {"direction": "spec->code", "case": c, "observed": obs[-1], "expected": c["exp"],
                           "tlc_cfg": "RSysGraph_MC_%s.cfg" % cfg})
    _judge_traces(ctx, to_tlc, "spec->code")
    if sel:
        ctx.sample({"slice": cfg, "hist": sel[-1]["in"]["hist"], "exp": sel[-1]["exp"]}, cap=6)
    return res


# ------------------------------------------------------------------ seeded generator (code -> spec)
def _rand_rxn(rng, pool):
    while True:
        ks = rng.sample(pool, rng.randint(1, min(4, len(pool))))
        reac, prod = {}, {}
        for k in ks:
            x = rng.random()
            if x < 0.4:
                reac[k] = rng.randint(1, 3)
            elif x < 0.8:
                prod[k] = rng.randint(1, 3)
            else:
                reac[k] = rng.randint(1, 3)
                prod[k] = rng.randint(1, 3)
        r = {"reac": reac, "prod": prod}
        net = {k: prod.get(k, 0) - reac.get(k, 0) for k in ks}
        if rng.random() < 0.15:  # inactive parts
            k = rng.choice(pool)
            side = rng.choice(["ireac", "iprod"])
            r["ireac"], r["iprod"] = {}, {}
            r[side][k] = rng.randint(1, 2)
            net[k] = net.get(k, 0) + (r[side][k] if side == "iprod" else -r[side][k])
        if rng.random() < 0.2:
            r["name"] = rng.choice(["n1", "n2", "n3", "n4", "n5", "n6"])
        if reac and prod and any(net.values()):
            return r


def _rand_make(rng, with_comp=False):
    ns = rng.randint(3, 12)
    pool = rng.sample(SPECIES12, ns)
    rx = []
    if not with_comp:
        for _ in range(rng.randint(1, 6)):
            # several components: draw each reaction from a random window of the pool
            lo = rng.randrange(len(pool))
            sub = pool[lo:lo + rng.randint(1, 4)] or pool
            r = _rand_rxn(rng, sub)
            if r not in rx and (not r.get("name") or all(r["name"] != o.get("name") for o in rx)):
                rx.append(r)
    keys = sorted(set(k for r in rx for part in ("reac", "prod", "ireac", "iprod") for k in r.get(part, {})))
    mode = rng.choice(["list", "odict", "tuple", "dict"]) if with_comp else \
        rng.choice(["deduce", "list", "str", "set", "odict", "dict", "tuple"])
    given = []
    comp = {}
    if mode != "deduce":
        extra = [s for s in pool if s not in keys]
        given = keys + rng.sample(extra, rng.randint(0, len(extra)))
        rng.shuffle(given)
        if len(given) < 2 and mode == "str":
            mode = "list"
    if with_comp:
        for s in given:
            c = {}
            for e in ("1", "6", "8"):
                if rng.random() < 0.6:
                    c[e] = rng.randint(1, 4)
            if rng.random() < 0.3:
                c["0"] = rng.choice([-2, -1, 1, 2])
            if not c and rng.random() < 0.7:
                c["1"] = 1
            comp[s] = c
    opt = {"sort": "default", "addmissing": False, "chk": "default"}
    if not with_comp and mode != "deduce":
        x = rng.random()
        if x < 0.15:
            opt["sort"] = "yes"
        elif x < 0.25 and mode in ("list", "odict", "dict", "tuple"):
            opt["sort"] = "no"
        elif x < 0.40 and keys and mode in ("list", "odict", "tuple") and len(given) > 1:
            drop = rng.choice(keys)
            given = [s for s in given if s != drop]
            opt["addmissing"] = True
            opt["sort"] = rng.choice(["default", "yes"])
    if not with_comp and rng.random() < 0.1:
        opt["chk"] = rng.choice(["nodup", "none"])
        if rx and rng.random() < 0.5:
            rx = rx + [rx[0]]
    opt["alias"] = mode in ("odict", "dict") and rng.random() < 0.3
    return {"op": "Make", "rx": rx, "mode": mode, "given": given, "comp": comp, "opt": opt}


def gen_history(arg):
    import random
    seed, nops = arg
    rng = random.Random(seed)
    w = World()
    hist, obs = [], []

    def do(h):
        o = w.step(h)
        hist.append(h)
        obs.append(o)
        return not ((o["raised"] and h["op"] != "Make") or o["bad"])

    flavour = rng.random()
    if flavour < 0.15:  # substances with compositions: upper bounds
        if not do(_rand_make(rng, with_comp=True)) or not w.ws:
            return hist, obs
        for _ in range(rng.randint(1, 3)):
            c0 = {"c": {s: rng.randint(0, 9) for s in w.ws[0].substances}, "den": rng.choice([1, 1, 2, 4, 8]),
                  "form": rng.choice(["dict", "list", "array", "minfn"]),
                  "skip": rng.choice([["0"], ["0"], [], ["1"], ["0", "8"], ["6", "0"], ["8"]])}
            if not do({"op": "Query", "i": 1, "kind": "bounds", "arg": c0}):
                break
        return hist, obs
    for _ in range(rng.randint(1, 2)):
        if not do(_rand_make(rng)):
            return hist, obs
    if not w.ws:
        return hist, obs
    # inspecting the real objects to choose the next operation must not crash the generator:
    # whatever they do, the steps recorded so far are judged
    try:
        while len(hist) < nops:
            n = len(w.ws)
            i, j = rng.randint(1, n), rng.randint(1, n)
            x = rng.random()
            sys_ = w.ws[i - 1]
            names = list(sys_.substances)
            if x < 0.15:
                h = {"op": "DoSplit", "i": i}
            elif x < 0.30:
                p = rng.choice([{"kind": "has", "s": rng.choice(SPECIES12), "n": 0},
                                {"kind": "consumes", "s": rng.choice(SPECIES12), "n": 0},
                                {"kind": "order", "s": "", "n": rng.randint(1, 3)},
                                {"kind": "nprod", "s": "", "n": rng.randint(1, 2)},
                                {"kind": "named", "s": rng.choice(["n1", "n2", "n3", ""]), "n": 0}])
                h = {"op": "DoSubset", "i": i, "p": p} if rng.random() < 0.5 else {"op": "Query", "i": i, "kind": "subset", "arg": p}
            elif x < 0.45:
                how = rng.choice(["add", "iadd", "add", "iadd"] + [a + "-" + f for a in ("add", "iadd")
                                                                   for f in ("list", "tuple", "gen", "iter", "map")])
                if (how.startswith("iadd") and i == j) or sys_.nr + w.ws[j - 1].nr > 10:
                    continue
                if "-" in how and not set().union(*[r.keys() for r in w.ws[j - 1].rxns] or [set()]) <= set(sys_.substances):
                    continue
                h = {"op": "DoAdd", "i": i, "j": j, "how": how}
            elif x < 0.50:
                h = {"op": "DoSort", "i": i, "how": rng.choice(["name", "rev"])}
            elif x < 0.54:
                if not names:
                    continue
                h = {"op": "Query", "i": i, "kind": "order", "arg": {s: rng.randint(0, 99) for s in names}}
            elif x < 0.62:
                h = {"op": "Query", "i": i, "kind": "graph", "arg": []}
            elif x < 0.70:
                h = {"op": "Query", "i": i, "kind": "dot", "arg": {"inact": rng.random() < 0.5, "rref0": rng.randint(0, 3),
                                                               "rprefix": rng.choice(["r", "r", "rxn", "R_"]),
                                                               "colors": rng.choice(["default", "custom"])}}
            elif x < 0.78:
                if not names:
                    continue
                vo = rng.sample(names, rng.randint(1, min(3, len(names))))
                h = {"op": "Query", "i": i, "kind": "conv",
                     "arg": {"d": {s: rng.randint(0, 99) for s in names}, "a": [rng.randint(0, 99) for _ in names],
                             "vorder": vo, "vals": {s: [rng.randint(0, 99) for _ in range(rng.randint(1, 3))] for s in vo}}}
            elif x < 0.88:
                if sys_.nr == 0 or sys_.nr > 4:
                    continue
                k = [rng.randint(0, 5) for _ in range(sys_.nr)]
                keys = sorted(set.union(*[r.keys() for r in sys_.rxns]))
                net = sys_.net_stoichs(keys)
                y = {s: int(sum(k[ri] * int(net[ri][ci]) for ri in range(sys_.nr))) for ci, s in enumerate(keys)}
                ko = list(keys)
                rng.shuffle(ko)
                h = {"op": "Query", "i": i, "kind": "yields", "arg": {"k": k, "y": y, "den": rng.choice([1, 2, 4]), "korder": ko,
                                                                   "atol": rng.choice(["default", "loose"])}}
            elif x < 0.96:
                h = {"op": "Query2", "i": i, "j": j, "kind": rng.choice(["add", "eq"])}
            else:
                if n >= 3 and rng.random() < 0.6:
                    h = {"op": "QueryCat", "js": rng.sample(range(1, n + 1), rng.randint(2, min(4, n))), "kind": "concatn"}
                    if sum(w.ws[k - 1].nr for k in h["js"]) > 20:
                        continue
                else:
                    h = {"op": "Query2", "i": i, "j": j, "kind": "concat"}
                do(h)
                break  # concatenate updates its first argument in place: the workspace is no longer tracked
            if not do(h):
                break
            if len(w.ws) > 10:
                break
    except core.MachineryFailure:
        raise
    except Exception:
        pass
    return hist, obs


def _code_to_spec(ctx, n):
    jobs = [(ctx.rng.getrandbits(48), ctx.rng.randint(4, 12)) for _ in range(n)]
    outs = ctx.pmap(gen_history, jobs)
    for hist, obs in outs:
        ctx.ran({"h": hist}, nontrivial=_nontrivial(hist))
    _judge_traces(ctx, outs, "code->spec")
    if outs:
        ctx.sample({"trace": to_trace(outs[0][0], outs[0][1])[:4]}, cap=8)


def _t(ctx, what, t0):
    import time
    ctx.notes.append("%s: %.1fs" % (what, time.time() - t0))
    return time.time()


def run(ctx):
    import time
    t0 = time.time()
    q = ctx.quick
    sfx = "q" if q else "t"
    # invariants of the specification on deeper histories, history hidden behind a VIEW
    # (vacuity of the actions is checked on the history slice, which has the same Next)
    # (quick: the hist_q slice below has the same bounds and checks the same invariants on every history)
    if not q:
        ctx.tlc("RSysGraph_MC", "RSysGraph_MC_inv_t.cfg", timeout=1500, workers=8)
    t0 = _t(ctx, "invariants", t0)
    if q:
        hist_actions = ["PickRx", "GenMake", "GenSplit", "GenSubset", "GenAdd", "GenQuery", "GenQueryCat"]
        _prefetch(ctx, [("ctor_q", [], 50), ("graph_q", [], 2000), ("chain_q", [], 600), ("dot_q", [], 1000),
                        ("subyld_q", [], 2000), ("pair_q", ["GenQuery2"], 50), ("parts", [], 50), ("conv_q", [], 1000),
                        ("cat3_q", ["GenQueryCat"], 50), ("bounds_q", [], 1000), ("twin", [], 3000),
                        ("hist_q", hist_actions, 50)])
    else:
        hist_actions = ["PickRx", "GenMake", "GenSplit", "GenSubset", "GenAdd", "GenQuery", "GenQueryCat"]
        _prefetch(ctx, [("ctor_t", [], 50), ("graph_t", [], 2000), ("chain_t", [], 600), ("dot_t", [], 1000),
                        ("subset_t", [], 50), ("yields_t", [], 50), ("pair_t", ["GenQuery2"], 50), ("parts", [], 50), ("conv_t", [], 1000),
                        ("cat3_t", ["GenQueryCat"], 50), ("bounds_t", [], 1000), ("twin", [], 3000),
                        ("hist_t", hist_actions, 50), ("hist2_t", [], 50)], parallel=2, window=3, workers=8)
    # (vacuity guard by -coverage only where an action is specific to the slice; it slows TLC down)
    _slice(ctx, "ctor_" + sfx, None if not q else 1000, [])
    _slice(ctx, "graph_" + sfx, 1500 if q else None, [], min_cases=2000)
    # every ordering of up to 6 reactions of the chained shape whose split needs transitive fusion
    _slice(ctx, "chain_" + sfx, None, [], min_cases=600)
    t0 = _t(ctx, "ctor+graph+chain", t0)
    # the reaction graph as an object: rsys2dot output parsed back into nodes/edges (catalog with two
    # reactions carrying inactive parts; include_inactive True/False); graph queries on the same systems
    _slice(ctx, "dot_" + sfx, 1000 if q else None, [], min_cases=1000)
    t0 = _t(ctx, "dot", t0)
    if q:
        _slice(ctx, "subyld_q", 1500, [], min_cases=2000)
    else:
        _slice(ctx, "subset_t", None, [])
        _slice(ctx, "yields_t", None, [])
    _slice(ctx, "pair_" + sfx, 1500 if q else None, ["GenQuery2"])
    # add / == / concatenate on systems whose reactions differ in exactly one of the four parts (inactive ones too)
    _slice(ctx, "parts", 1500 if q else None, [])
    _slice(ctx, "conv_" + sfx, 1000 if q else None, [], min_cases=1000)
    # concatenate over three systems (every ordering), directly and after split/subset/add steps
    _slice(ctx, "cat3_" + sfx, 1000 if q else 30000, ["GenQueryCat"])
    t0 = _t(ctx, "subset+pair+conv", t0)
    _slice(ctx, "bounds_" + sfx, 1000 if q else None, [], min_cases=1000)
    t0 = _t(ctx, "bounds", t0)
    # named twins: two systems holding the same reaction under different names are added, then subset by name
    # (histories "add then subset" - class suffix :AS - are always replayed)
    _slice(ctx, "twin", 500 if q else None, [], via_tlc=True, min_cases=3000,
           always=lambda c: c["cls"].endswith(":AS"))
    _slice(ctx, "hist_" + sfx, 1200 if q else 8000, ["PickRx", "GenMake", "GenSplit", "GenSubset", "GenAdd", "GenQuery", "GenQueryCat"], via_tlc=True,
           always=_peek_then_change)
    if not q:
        _slice(ctx, "hist2_t", 8000, [], via_tlc=True, always=_peek_then_change)
    t0 = _t(ctx, "histories", t0)
    ctx.exhaustive = not q
    _code_to_spec(ctx, 500 if q else 9000)
    _t(ctx, "seeded", t0)


def replay(ctx, rec):
    if "case" in rec:
        hist = rec["case"]["in"]["hist"]
        obs = run_history(hist)
        if len(obs) == len(hist) and not any(h["op"].startswith("Do") for h in hist):
            why = disagreement(hist[-1], obs[-1], rec["case"]["exp"])
            if why and not why.endswith("unencodable"):
                ctx.violation(rec["key"], {"observed": obs[-1], "expected": rec["case"]["exp"]})
            return
    else:
        hist = [{k: v for k, v in e.items() if k != "obs"} for e in rec["trace"][:-1]]
        obs = run_history(hist)
    tr = to_trace(hist[:len(obs)], obs)
    v, pos, clause = ctx.validate_traces("RSysGraphTrace", "RSysGraphTrace.cfg", [tr])[0]
    if v != "accept" and not clause.startswith("outside:"):
        ctx.violation(rec["key"], {"observed": tr[pos - 1].get("obs"), "verdict": {"verdict": v, "pos": pos, "clause": clause}})
