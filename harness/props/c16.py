"""C16 - rate-constant models evaluate to their defining formulas under every backend.

spec/ExprTree.tla, three machines:
  resolve  which source (override / given argument / default) supplies each argument of an Expr
           instance, for every configuration with nargs <= 3;
  algebra  expression trees over + - * / ** neg with Constant / Symbol / raw int / raw str leaves;
           exact value of the written expression at rational points (Terms!EvalQR);
  laws     the named models as terms: class x order x override pattern x parameter set x
           temperature x mode x history (the same expression again / through Reaction.rate / a
           companion reaction in between, all with ONE variables mapping that must come back
           unchanged); exact value where rational, otherwise the instantiated term (with the gas
           constant and kB/h bracketed) for the generic eval_term.
spec -> code : every terminal state is a case; this module builds the real objects from the case,
               evaluates them under math / numpy / sympy-then-substitute / quantities and projects
               the result to a number (or an exception class name).  Expected values, terms,
               brackets and tolerances are in the case.
code -> spec : seeded random trees beyond the exhaustive bounds are built with the real overloads;
               the recorded construction (reverse Polish events), the projected structure of the
               object that was built and the values observed under each backend are judged by TLC
               (ExprTreeTrace: exact rational arithmetic).
"""
import itertools
import math
import operator
from fractions import Fraction

import terms

LEVEL = "exploration"
RULE = ("cases = terminal states of ExprTree_MC (resolve: every argument-source configuration with "
        "nargs<=3; algebra: every expression tree within the leaf/depth bounds at 3 rational points; "
        "laws: class x order x override pattern x parameter set x temperature x mode (math, numpy, "
        "numpy arrays, sympy, quantities) x history of <= 3 evaluations sharing one variables mapping, "
        "with the frame condition 'mapping unchanged') replayed into "
        "the real classes, plus seeded deeper trees judged by TLC (ExprTreeTrace); an evaluation = one "
        "(case, backend) observation compared with the TLC value (exact rational) or with the "
        "eval_term value of the TLC term; distinct = distinct case inputs; non-trivial = not a bare "
        "leaf / not a configuration without keys and defaults")
ASSUMPTIONS = [
    "gas constant bracketed R in [8.3144, 8.3145] and kB/h in [2.08366e10, 2.08367e10] (either CODATA "
    "vintage is accepted; the laws are monotone in each)",
    "transcendental values are computed by harness/terms.py:eval_term (mpmath, 30 digits) from the term "
    "emitted by TLC; tolerances are part of the case",
    "mode 'units' uses chempy.units quantities; EyringHS receives R, kB, h as SI quantities",
    "concentrations are in mol/dm3 (standard state 1 M) when a unitless evaluation returns a quantity "
    "because of the defaulted standard-state argument",
    "configurations without any source for an argument (no args, no key, no default) are 'unspecified' "
    "in the spec and not judged",
]

MODES = ("math", "numpy", "sympy", "units")


# ----------------------------------------------------------------------------- helpers
def _num(x):
    """Num triple [n, d, e] (or pair) -> Fraction"""
    if len(x) == 3:
        return Fraction(int(x[0]), int(x[1])) * Fraction(10) ** int(x[2])
    return Fraction(int(x[0]), int(x[1]))


def _unit(s):
    """'1/M**2/s' -> quantities unit (tiny parser: factors separated by * and /, optional **n)"""
    from chempy.units import default_units as u
    table = {"s": u.second, "K": u.kelvin, "M": u.molar, "J": u.joule, "mol": u.mol, "kg": u.kg,
             "dm3": u.decimetre ** 3, "Gy": u.gray, "1": 1,
             "cal": u.cal, "mM": u.molar / 1000, "ms": u.second / 1000}
    table["kcal"] = 1000 * u.cal
    if s == "":
        return 1
    out, op, tok = 1, "*", ""
    parts = []
    i = 0
    while i < len(s):
        ch = s[i]
        if ch == "*" and s[i:i + 2] == "**":
            tok += "**"
            i += 2
            continue
        if ch in "*/":
            parts.append((op, tok))
            op, tok = ch, ""
        else:
            tok += ch
        i += 1
    parts.append((op, tok))
    for op, tok in parts:
        base, _, ex = tok.partition("**")
        f = table[base] ** int(ex) if ex else table[base]
        out = out * f if op == "*" else out / f
    return out


def _exc(e):
    return {"raised": type(e).__name__, "msg": str(e)[:160]}


def _float(v):
    """project an evaluation result to a float (structural: magnitude of a quantity, 0-d array -> scalar)"""
    if hasattr(v, "magnitude"):
        v = v.magnitude
    try:
        import sympy
        if isinstance(v, sympy.Basic):
            v = complex(sympy.N(v, 30))
            if v.imag != 0:
                return v
            return v.real
    except ImportError:
        pass
    return float(v)


# ----------------------------------------------------------------------------- part (a)
def resolve_case(case):
    from chempy.util._expr import Expr, Constant
    i = case["in"]
    n, d, g, form, kinds, u, present = i["n"], i["d"], i["g"], i["form"], i["kinds"], i["u"], i["present"]
    names = ("a1", "a2", "a3", "a4")[:n]
    VAL = i["values"]        # the value each source supplies at each position (one of them is exactly 0)

    class K(Expr):
        argument_names = names
        argument_defaults = tuple(VAL["def"][j - 1] for j in range(n - d + 1, n + 1)) if d > 0 else None

        def __call__(self, variables, backend=math, **kw):
            return tuple(self.all_args(variables, backend=backend))

    variables = {}
    if g == -1:
        args = None
    else:
        vals = []
        for idx, kind in enumerate(kinds, 1):
            if kind == "num":
                vals.append(VAL["arg"][idx - 1])
            elif kind == "name":
                vals.append("nm%d" % idx)
                variables["nm%d" % idx] = VAL["name"][idx - 1]
            else:
                vals.append(Constant(VAL["expr"][idx - 1]))
        args = vals if form == "list" else (dict(zip(names, vals)) if form == "dict" else vals[0])
    uk = None if u == -1 else tuple("key%d" % j for j in range(1, u + 1))
    for j, p in enumerate(present, 1):
        if p:
            variables["key%d" % j] = VAL["ovr"][j - 1]
    try:
        inst = K(args, unique_keys=uk)
    except Exception as e:
        return {"ctor_raises": True, "exc": type(e).__name__}
    obs = {"ctor_raises": False, "by_index": [], "by_name": [], "unev": []}
    for j in range(n):
        try:
            v = inst.arg(variables, j, evaluate=False)
            obs["unev"].append("expr" if isinstance(v, Expr) else "value")
        except Exception as e:
            obs["unev"].append("raise:" + type(e).__name__)
    for j in range(n):
        for how, idx in (("by_index", j), ("by_name", names[j])):
            try:
                v = inst.arg(variables, idx)
                obs[how].append({"v": int(v) if isinstance(v, int) else repr(v)})
            except Exception as e:
                obs[how].append({"raise": type(e).__name__})
    try:
        obs["all_args"] = [int(v) if isinstance(v, int) else repr(v) for v in inst.all_args(variables)]
    except Exception as e:
        obs["all_args"] = {"raise": type(e).__name__}
    return obs


def judge_resolve(case, obs):
    """-> list of (key-extra, detail)"""
    exp = case["exp"]
    bad = []
    if exp["ctor_raises"] != obs["ctor_raises"]:
        return [({"clause": "ctor"}, {"observed": obs, "expected": {"ctor_raises": exp["ctor_raises"]}})]
    if exp["ctor_raises"]:
        return []
    full = True
    for j, e in enumerate(exp["res"]):
        if e["src"] == "unspecified":
            full = False
            continue
        for how in ("by_index", "by_name"):
            o = obs[how][j]
            ok = ("raise" in o) if e["src"] == "raise" else (o.get("v") == e["v"])
            if not ok:
                bad.append(({"clause": "arg", "src": e["src"], "how": how},
                            {"observed": o, "expected": e, "index": j}))
        if e["src"] == "raise":
            full = False
        elif obs["unev"][j] != exp["unev"][j]:
            bad.append(({"clause": "evaluate=False", "src": e["src"]},
                        {"observed": obs["unev"][j], "expected": exp["unev"][j], "index": j}))
    if full and obs["all_args"] != [e["v"] for e in exp["res"]]:
        bad.append(({"clause": "all_args"}, {"observed": obs["all_args"], "expected": [e["v"] for e in exp["res"]]}))
    return bad


# ----------------------------------------------------------------------------- part (b)
_OPS = {"add": operator.add, "sub": operator.sub, "mul": operator.mul, "div": operator.truediv,
        "pow": operator.pow}


_DEFAULT_FORM = {"i": "int", "s": "str"}


def build_tree(t, form=None, left=False):
    """form: how raw operands are spelled ({'i': 'int'|'float', 's': ..., 's_left': ...}); a raw name on
    the LEFT of an operator uses the 's_left' spelling (there the other library's operator would run)"""
    from chempy.util._expr import Constant, Symbol
    form = form or _DEFAULT_FORM
    k = t["k"]
    if k == "C":
        return Constant(t["v"])
    if k == "S":
        return Symbol(unique_keys=(t["name"],))
    if k == "i":
        return float(t["v"]) if form["i"] == "float" else int(t["v"])
    if k == "s":
        if (form.get("s_left", form["s"]) if left else form["s"]) == "sympy.Symbol":
            import sympy
            return sympy.Symbol(t["name"])
        return str(t["name"])
    if k == "neg":
        return -build_tree(t["a"], form)
    return _OPS[k](build_tree(t["a"], form, left=True), build_tree(t["b"], form))


def _has_raw(t):
    if t["k"] in ("i", "s"):
        return True
    if t["k"] in ("C", "S"):
        return False
    return _has_raw(t["a"]) or (t["k"] != "neg" and _has_raw(t["b"]))


def project_struct(e):
    """real Expr object -> term JSON (Terms vocabulary); a - b is a + (-b) by definition"""
    from chempy.util import _expr as X
    if isinstance(e, X.Constant):
        (v,) = e.args
        q = Fraction(v)
        return {"op": "const", "q": [q.numerator, q.denominator]}
    if isinstance(e, X.Symbol):
        return {"op": "var", "name": e.unique_keys[0]}
    if isinstance(e, X._NegExpr):
        return {"op": "neg", "args": [project_struct(e.args[0])]}
    names = {X._AddExpr: "add", X._MulExpr: "mul", X._DivExpr: "div", X._PowExpr: "pow"}
    if isinstance(e, X._SubExpr):
        return {"op": "add", "args": [project_struct(e.args[0]), {"op": "neg", "args": [project_struct(e.args[1])]}]}
    for cls, nm in names.items():
        if isinstance(e, cls):
            return {"op": nm, "args": [project_struct(a) for a in e.args]}
    raise TypeError("cannot project %r" % (e,))


def eval_tree(expr, env, mode):
    """evaluate the real expression object at env (name -> Fraction) under a mode -> number | Fraction"""
    if mode == "math":
        return float(expr({k: float(v) for k, v in env.items()}, backend=math))
    if mode == "numpy":
        import numpy as np
        with np.errstate(all="ignore"):
            return float(expr({k: np.float64(float(v)) for k, v in env.items()}, backend=np))
    if mode == "sympy":
        import sympy
        syms = {k: sympy.Symbol(k) for k in env}
        r = expr(syms, backend=sympy)
        r = sympy.sympify(r).subs({syms[k]: sympy.Rational(v.numerator, v.denominator) for k, v in env.items()})
        if r.is_Rational:
            return Fraction(int(r.p), int(r.q))
        z = complex(sympy.N(r, 30))
        return z.real if z.imag == 0 else z
    if mode == "units":
        from chempy.units import default_units as u, to_unitless
        r = expr({k: float(v) * u.dimensionless for k, v in env.items()}, backend=math)
        return float(to_unitless(r, u.dimensionless))
    raise ValueError(mode)


def algebra_case(case):
    """-> obs for the plain spelling, plus obs['alt'] for every further spelling of the raw operands"""
    forms = case["in"].get("rawforms") or [_DEFAULT_FORM]
    obs = _algebra_form(case, forms[0])
    if len(forms) > 1 and _has_raw(case["in"]["tree"]):
        obs["alt"] = [dict(_algebra_form(case, f), form=f) for f in forms[1:]]
    return obs


def _algebra_form(case, form):
    """-> obs: per mode, per env: value as ['q', n, d] | ['f', float] | ['raise', cls]"""
    try:
        expr = build_tree(case["in"]["tree"], form)
    except Exception as e:
        return {"build": _exc(e)}
    obs = {"struct": None, "vals": {}}
    try:
        obs["struct"] = project_struct(expr)
    except Exception as e:
        obs["struct"] = _exc(e)
    for mode in MODES:
        row = []
        for env in case["in"]["envs"]:
            envq = {k: Fraction(v[0], v[1]) for k, v in env.items()}
            try:
                v = eval_tree(expr, envq, mode)
                if isinstance(v, Fraction):
                    row.append(["q", v.numerator, v.denominator])
                elif isinstance(v, complex):
                    row.append(["c", v.real, v.imag])
                else:
                    row.append(["f", v])
            except Exception as e:
                row.append(["raise", type(e).__name__, str(e)[:120]])
        obs["vals"][mode] = row
    return obs


def judge_algebra(case, obs):
    bad = _judge_algebra_form(case, obs)
    for alt in obs.get("alt", []):
        tag = "%s/%s" % (alt["form"]["i"], alt["form"]["s"])
        bad += [(dict(k, rawform=tag), d) for k, d in _judge_algebra_form(case, alt)]
    return bad


def _judge_algebra_form(case, obs):
    if "build" in obs:
        return [({"clause": "build", "exc": obs["build"]["raised"]}, {"observed": obs["build"], "expected": "an Expr"})]
    bad = []
    rtol = float(Fraction(case["exp"]["rtol"]))
    # the structure that was built must denote the written value (exact where rational)
    if isinstance(obs["struct"], dict) and "op" in obs["struct"]:
        for env, ev in zip(case["in"]["envs"], case["exp"]["vals"]):
            if ev["st"] != "q":
                continue
            try:
                got = terms.eval_term(obs["struct"], env, mode="fraction")
            except (terms.NotRational, terms.Undefined) as e:
                got = type(e).__name__
            if got != Fraction(*ev["q"]):
                bad.append(({"clause": "built-structure"}, {"observed": {"struct": terms.term_str(obs["struct"]), "value": str(got)},
                                                             "expected": ev, "env": env}))
                break
    for mode, row in obs["vals"].items():
        for env, ev, o in zip(case["in"]["envs"], case["exp"]["vals"], row):
            want = Fraction(*ev["q"]) if ev["st"] == "q" else terms.eval_term(case["exp"]["term"], env, prec=30)
            if o[0] == "q":
                ok = (Fraction(o[1], o[2]) == want) if ev["st"] == "q" else terms.within(Fraction(o[1], o[2]), want, want, rtol, rtol)
            elif o[0] == "f":
                ok = terms.within(o[1], want, want, rtol, rtol)
            else:
                ok = False
            if not ok:
                bad.append(({"clause": "value", "mode": mode, "observed_kind": o[0]},
                            {"observed": o, "expected": str(want), "env": env, "mode": mode}))
                break
    return bad


# ----------------------------------------------------------------------------- part (c)
VARKEY = {"T": "temperature", "log10_T": "log10_temperature", "R": "molar_gas_constant",
          "kB": "Boltzmann_constant", "h": "Planck_constant"}


def _reaction(order, param=None, sk=None):
    from chempy import Reaction
    sk = sk or {"X": "X", "Y": "Y", "P": "P"}
    reac = {1: {sk["X"]: 1}, 2: {sk["X"]: 1, sk["Y"]: 1}, 3: {sk["X"]: 2, sk["Y"]: 1}}[order]
    return Reaction(reac, {sk["P"]: 1}, param)


class _Law(object):
    """builds the real object(s) of one laws-case ONCE, then evaluates the case's history of
    evaluations against ONE variables mapping (the caller's store) under the case's mode"""

    def __init__(self, case):
        self.c = case["in"]
        self.mode = self.c["mode"]
        self.units = self.mode in ("units", "units-scaled")
        self.result_units = case["exp"]["result_units"]
        self.nlanes = len(self.c["lane_factors"])
        self.sk = self.c.get("species_keys") or {"X": "X", "Y": "Y", "P": "P", "Q": "Q"}
        self.target = None

    def val(self, name, x):
        if self.units:
            # the magnitude in the unit the case names (unit_factors: size of that unit, from TLC)
            f = Fraction(*self.c["unit_factors"].get(name, [1, 1]))
            return float(_num(x) / f) * _unit(self.c["units"].get(name, ""))
        return float(_num(x))

    def given_args(self):
        c = self.c
        if c["args_absent"]:
            return None
        names = c["argnames"][:min(len(c["argnames"]), c["ngiven"])]
        if c.get("argform") == "dict":
            return {n: self.val(n, c["args"][n]) for n in names}
        return [self.val(n, c["args"][n]) for n in names]

    def unique_keys(self):
        c = self.c
        if c["keys"] == -1:
            return None
        return tuple("uk_" + n for n in c["argnames"][:c["keys"]])

    def variables(self):
        """the store: one mapping, handed to every evaluation of the history"""
        c = self.c
        out = {}
        for nm, x in c["vars"].items():
            if nm == "zz":
                continue
            if nm in c["lane_vars"]:
                import numpy as np
                out[self.key(nm)] = np.array([float(_num(x) * Fraction(f[0], f[1])) for f in c["lane_factors"]])
            else:
                out[self.key(nm)] = self.val(nm, x)
        for j, p in enumerate(c["present"]):
            if p:
                nm = c["argnames"][j]
                out["uk_" + nm] = self.keyval(nm, c["alt"][nm])
        if c.get("tform") == "expr":
            # the temperature is a programme of "time" held IN the mapping
            from chempy.kinetics.rates import RampedTemp
            r = c["ramp"]
            out["temperature"] = RampedTemp([self.plain(r["T0"], "K"), self.plain(r["dTdt"], "K/s")])
            out["time"] = self.plain(r["time0"], "s")
        return out

    def key(self, nm):
        """key of the variables mapping for an abstract variable / species name"""
        return self.sk.get(nm, VARKEY.get(nm, nm))

    def plain(self, x, ustr):
        v = float(_num(x))
        return v * _unit(ustr) if self.units else v

    def keyval(self, name, x):
        """override value of the unique key at this argument's position (unit of the derived argument)"""
        if self.units:
            ku = self.c["key_units"][name]
            return float(_num(x) / Fraction(*ku["f"])) * _unit(ku["u"])
        return float(_num(x))

    # evaluation of an Expr-like callable under the mode
    def run(self, fn, variables, **kw):
        """fn(variables, backend) -> result; the mapping itself is passed (never a copy) except in sympy
        mode, where every variable is a symbol that is substituted afterwards"""
        if self.mode in ("math", "units"):
            return fn(variables, math, **kw)
        if self.mode == "units-scaled":
            from chempy.units import Backend       # the unit-aware backend
            return fn(variables, Backend(), **kw)
        if self.mode == "nparray":
            import numpy as np
            return fn(variables, np, **kw)
        if self.mode == "numpy":
            import numpy as np
            return fn(variables, np, **kw)       # the store already holds np.float64 scalars
        import sympy
        from chempy.util._expr import Expr as _E
        syms = {k: sympy.Symbol(k.replace("_", "")) for k in variables if not isinstance(variables[k], _E)}
        r = fn(dict(variables, **syms), sympy, **kw)
        sub = {syms[k]: sympy.Rational(*Fraction(variables[k]).as_integer_ratio()) for k in syms}
        if hasattr(r, "magnitude"):      # quantity wrapping a sympy expression (defaulted 1 molar)
            r = r.magnitude.item() if hasattr(r.magnitude, "item") else r.magnitude
        return sympy.sympify(r).subs(sub)

    def make(self):
        """-> dict who -> f(V) returning the list of component results"""
        from chempy import Reaction
        from chempy.kinetics import rates as R, _rates as PR, arrhenius as AR, eyring as EY
        from chempy.thermodynamics import expressions as TE
        from chempy.util import _expr as X
        c = self.c
        cls, order = c["cls"], c["order"]
        args, uk = self.given_args(), self.unique_keys()
        sk = self.sk
        rxn = _reaction(order, None, sk)
        fns = {}

        def inst(K):
            """K(args, unique_keys), or the alternative constructor K.fk(*keys) when there are no args;
            dict-form arguments are keyed by the class's own argument_names (by position)"""
            if args is None:
                return K.fk(*uk)
            if isinstance(args, dict):
                return K(dict(zip(K.argument_names, [args[n] for n in c["argnames"]])), uk)
            return K(args, uk)

        def rate_fns(ma, param_for_reaction=None):
            rx = _reaction(order, ma if param_for_reaction is None else param_for_reaction, sk)
            if self.target is None:
                self.target = ma.args[0] if ma.args is not None and isinstance(ma.args[0], X.Expr) else ma
            kc = float(_num(c["companion_k"]))
            if self.units:
                kc = kc * _unit("1/M/s")
            comp = Reaction({sk["X"]: 1, sk["Y"]: 1}, {sk["Q"]: 1}, R.MassAction([kc]))
            fns["self"] = lambda V: [self.run(lambda v, be: ma(v, backend=be, reaction=rxn), V)]
            fns["rate"] = lambda V: [self.run(lambda v, be: rx.rate(v, backend=be)[sk["P"]], V)]
            fns["companion"] = lambda V: [self.run(lambda v, be: comp.rate(v, backend=be)[sk["Q"]], V)]

        def expr_fn(obj, **kw):
            if self.target is None:
                self.target = obj
            fns["self"] = lambda V: [self.run(lambda v, be: obj(v, backend=be, **kw), V)]

        if cls in ("MassAction", "Arrhenius", "Eyring", "EyringHS"):
            inner = {"Arrhenius": R.Arrhenius, "Eyring": R.Eyring, "EyringHS": R.EyringHS}.get(cls)
            rate_fns(inst(R.MassAction) if inner is None else R.MassAction(inst(inner)))
            return fns
        if cls == "MassActionCallback":
            def arrh(a, T, backend=math, **kw):
                return a[0] * backend.exp(-a[1] / T)
            factory = R.MassAction.from_callback(arrh, parameter_keys=("temperature",), argument_names=("A", "Ea_over_R"))
            rate_fns(factory(args, uk))       # dict form: the factory's argument_names are the case's
            return fns
        if cls in ("MA_mul_num", "MA_rmul_num", "MA_div_num", "MA_mul_expr", "MA_rmul_expr"):
            k0, f = self.val("k", c["args"]["k"]), float(_num(c["args"]["f"]))
            ma0 = R.MassAction([k0])
            ma = {"MA_mul_num": lambda: ma0 * f, "MA_rmul_num": lambda: f * ma0, "MA_div_num": lambda: ma0 / f,
                  "MA_mul_expr": lambda: ma0 * X.Constant(f), "MA_rmul_expr": lambda: X.Constant(f) * ma0}[cls]()
            rate_fns(ma)
            return fns
        if cls == "CallbackPoly":
            from functools import reduce
            from operator import add

            def poly(a, x, backend=math):      # the docstring example of Expr.from_callback
                x0 = a[0]
                return reduce(add, [cf * (x - x0) ** i for i, cf in enumerate(a[1:])])
            Poly = X.Expr.from_callback(poly, parameter_keys=("x",), argument_names=("x0", Ellipsis))
            expr_fn(Poly(args, uk))
            return fns
        if cls in ("CallbackDefault", "CallbackNargs"):
            def lin(a, T, backend=math, **kw):
                return a[0] * T + a[1]
            if cls == "CallbackDefault":
                d0 = float(_num(c["defaults"]["b"]))
                K = X.Expr.from_callback(lin, parameter_keys=("temperature",), argument_names=("a", "b"),
                                         argument_defaults=(d0,))
                expr_fn(inst(K))
            else:
                K = X.Expr.from_callback(lin, parameter_keys=("temperature",), nargs=2)
                expr_fn(K(args, uk))
            return fns
        if cls == "EqCallback":
            def gibbs(a, T, backend=math, **kw):
                return backend.exp(a[1] - a[0] / T)
            K = TE.MassActionEq.from_callback(gibbs, parameter_keys=("temperature",),
                                              argument_names=("dH_over_R", "dS_over_R"))
            expr_fn(inst(K))
            return fns
        if cls == "PiecewiseNum":
            a = [self.val(n, c["args"][n]) for n in c["argnames"]]
            PW = X.create_Piecewise("temperature", nan_fallback=False)
            expr_fn(PW(a))
            return fns
        if cls == "Radiolytic" or c.get("dose_names"):
            K = R.Radiolytic if cls == "Radiolytic" else R.mk_Radiolytic(*c["dose_names"])   # names in the given order
            expr_fn(inst(K), reaction=rxn)
            return fns
        polys = {"TPoly": PR.TPoly, "RTPoly": PR.RTPoly, "ShiftedTPoly": PR.ShiftedTPoly,
                 "ShiftedRTPoly": PR.ShiftedRTPoly, "Log10TPoly": PR.Log10TPoly,
                 "ShiftedLog10TPoly": PR.ShiftedLog10TPoly}
        if cls in polys:
            expr_fn(polys[cls](args, uk))
            return fns
        if cls in ("Log10Wrap", "ExpWrap"):
            expr_fn((X.Log10 if cls == "Log10Wrap" else X.Exp)(PR.TPoly(args)))
            return fns
        if cls == "TPiecewise":
            a = {n: self.val(n, c["args"][n]) for n in c["argnames"]}
            expr_fn(PR.TPiecewise([a["lo"], PR.TPoly([a["p0"], a["p1"]]), a["mid"], PR.TPoly([a["q0"], a["q1"]]), a["hi"]]))
            return fns
        if cls in ("RampedTemp", "SinTemp"):
            expr_fn(inst(getattr(R, cls)))
            return fns
        if cls in ("MassActionEq", "EqEquation"):
            from chempy import Equilibrium
            obj = inst(TE.MassActionEq)
            eq = Equilibrium({sk["X"]: 1}, {sk["Y"]: 2}, obj)
            self.target = obj
            if cls == "MassActionEq":
                expr_fn(obj)
            else:
                fns["self"] = lambda V: [self.run(lambda v, be: obj.equilibrium_equation(v, backend=be, equilibrium=eq), V)]
            return fns
        if cls == "GibbsEqConst":
            expr_fn(inst(TE.GibbsEqConst))
            return fns
        # ---- parameter sets (namedtuples with __call__(T, backend=...))
        a = {n: self.val(n, c["args"][n]) for n in c["argnames"]}

        def call_param(p, V):
            """p(T) under the mode"""
            Tv = V.get("temperature")
            if self.mode == "math":
                return p(Tv, backend=math)
            if self.mode in ("numpy", "units", "units-scaled", "nparray"):
                return p(Tv)                                   # default backend
            import sympy
            Ts = sympy.Symbol("T")
            return sympy.sympify(p(Ts, backend=sympy)).subs({Ts: sympy.Rational(*Fraction(Tv).as_integer_ratio())})
        if cls == "ArrheniusParam":
            p = (AR.ArrheniusParamWithUnits if self.units else AR.ArrheniusParam)(a["A"], a["Ea"])
            fns["self"] = lambda V: [call_param(p, V)]
            return fns
        if cls in ("ArrheniusParts", "EyringParts"):
            from chempy.units import default_constants as dc, default_units as du, Backend
            cu = (dc, du) if self.units else (None, None)
            if cls == "ArrheniusParts":
                p = (AR.ArrheniusParamWithUnits if self.units else AR.ArrheniusParam)(a["A"], a["Ea"])
                fns["self"] = lambda V: [p.Ea_over_R(*cu)]
            else:
                p = (EY.EyringParamWithUnits if self.units else EY.EyringParam)(a["dH"], a["dS"])
                be = Backend() if self.units else math
                fns["self"] = lambda V: [p.kB_h_times_exp_dS_R(cu[0], cu[1], be), p.dH_over_R(*cu)]
            return fns
        if cls == "EyringParam":
            p = (EY.EyringParamWithUnits if self.units else EY.EyringParam)(a["dH"], a["dS"])
            fns["self"] = lambda V: [call_param(p, V)]
            return fns
        if cls == "ArrheniusFromK":
            P = AR.ArrheniusParamWithUnits if self.units else AR.ArrheniusParam
            kw = {}
            if self.mode == "math":
                kw["backend"] = math
            elif self.mode == "sympy":
                import sympy
                kw["backend"] = sympy
            p = P.from_rateconst_at_T(a["Ea"], (a["T0"], a["k0"]), **kw)
            fns["self"] = lambda V: [call_param(p, V), p.A]
            return fns
        if cls in ("ArrheniusAsRate", "EyringAsRate"):
            if cls == "ArrheniusAsRate":
                ps = (AR.ArrheniusParamWithUnits if self.units else AR.ArrheniusParam)(a["A"], a["Ea"])
            else:
                ps = (EY.EyringParamWithUnits if self.units else EY.EyringParam)(a["dH"], a["dS"])
            ma = ps.as_RateExpr(unique_keys=uk)
            # without keys the parameter set itself is the reaction's param (Reaction.rate_expr converts it)
            rate_fns(ma, ps if uk is None else None)
            return fns
        raise KeyError(cls)

    def project(self, results):
        """results of one evaluation -> per component a list of floats (one per array lane); in units
        mode in the unit the case names"""
        import numpy as np
        out = []
        if len(results) != len(self.result_units):
            raise ValueError("arity: %d results for %d components" % (len(results), len(self.result_units)))
        for r, ustr in zip(results, self.result_units):
            if self.units:
                from chempy.units import to_unitless
                r = to_unitless(r, _unit(ustr))
            if self.nlanes > 1:
                if hasattr(r, "magnitude"):
                    r = r.magnitude
                arr = np.broadcast_to(np.asarray(r, dtype=float), (self.nlanes,))
                out.append([float(x) for x in arr])
            else:
                out.append([_float(r)])
        return out


def _snapshot(V):
    """structural snapshot of a variables mapping: per key (type name, unit text, values)"""
    import numpy as np
    from chempy.util._expr import Expr as _E
    out = {}
    for k, v in V.items():
        if isinstance(v, _E):
            out[k] = [type(v).__name__, "expr", repr(v)]
            continue
        try:
            unit = str(getattr(v, "dimensionality", ""))
            mag = getattr(v, "magnitude", v)
            out[k] = [type(v).__name__, unit, [float(x) for x in np.atleast_1d(np.asarray(mag, dtype=float))]]
        except Exception:       # whatever the code under test left there: an observation, never a crash
            out[k] = [type(v).__name__, "unprojectable", repr(v)[:200]]
    return out


def _fit_obs(case):
    """fits / regressions on the exact synthetic data of the case, once per variant the case lists"""
    import numpy as np
    from chempy.kinetics.arrhenius import fit_arrhenius_equation, ArrheniusParam
    from chempy.kinetics.eyring import fit_eyring_equation
    from chempy.util.regression import least_squares, irls, least_squares_units
    from chempy.units import default_units as u, to_unitless
    c = case["in"]
    x = np.array([float(terms.eval_term(t, {}, prec=30)) for t in c["data_x"]])
    y = np.array([float(terms.eval_term(t, {}, prec=30)) for t in c["data_y"]])
    errs = {"kerr=None": None, "kerr=1%": 0.01 * y, "kerr=mixed": y * np.linspace(0.01, 0.2, len(y)),
            "nonlinear": None, "nonlinear-kerr": 0.01 * y, "from_fit_of_data": 0.01 * y}
    weights = {"ols": None, "weighted": np.full(len(y), 4.0), "weighted-mixed": np.linspace(0.5, 2.0, len(y))}
    out = {}
    for tag in c["variants"]:
        try:
            import warnings
            with warnings.catch_warnings():
                warnings.simplefilter("ignore")
                if c["cls"] in ("FitArrhenius", "FitEyring"):
                    fit = fit_arrhenius_equation if c["cls"] == "FitArrhenius" else fit_eyring_equation
                    if tag == "from_fit_of_data":
                        p = ArrheniusParam.from_fit_of_data(x, y, errs[tag])
                        r = [p.A, p.Ea]
                    elif tag.startswith("nonlinear"):
                        r, pcov = fit(x, y, errs[tag], linearized=False)
                    else:
                        r = fit(x, y, errs[tag], linearized=True)
                elif tag == "irls":
                    r, cov, info = irls(x, y)
                elif tag == "irls-gaussian-itermax3":
                    r, cov, info = irls(x, y, irls.gaussian, itermax=3, rmsdwtol=1e-6)
                elif tag == "irls-exp":
                    r, cov, info = irls(x, y, irls.exp)
                elif tag == "units":
                    beta, vcv, r2 = least_squares_units(x * u.second, y * u.metre)
                    r = [to_unitless(beta[0], u.metre), to_unitless(beta[1], u.metre / u.second)]
                else:
                    w = weights[tag]
                    r, vcv, r2 = least_squares(x, y) if w is None else least_squares(x, y, w)
            out[tag] = [float(v) for v in r]
        except Exception as e:
            out[tag] = _exc(e)
    return out


def laws_case(case):
    c = case["in"]
    if c["cls"] in ("FitArrhenius", "FitEyring", "LeastSquares"):
        return {"fits": _fit_obs(case)}
    law = _Law(case)
    import warnings
    with warnings.catch_warnings():
        warnings.simplefilter("ignore")
        try:
            fns = law.make()
            V = law.variables()
        except Exception as e:
            import traceback
            return {"raise": _exc(e), "tb": traceback.format_exc()[-600:], "step": 0}
        if law.mode == "numpy":
            import numpy as np
            from chempy.util._expr import Expr as _E
            for k in list(V):
                if not isinstance(V[k], _E):
                    V[k] = np.float64(V[k])
        before = _snapshot(V)
        first_before = before
        steps = []
        moved = []
        for i, who in enumerate(c["hist"], 1):
            if who == "setarg":
                # the caller assigns a new first argument to the expression object itself
                try:
                    nm = c["argnames"][0]
                    tgt = law.target
                    tgt.args = [law.val(nm, c["alt"][nm])] + list(tgt.args[1:])
                    steps.append({"who": who})
                except Exception as e:
                    steps.append({"who": who, "raise": _exc(e)})
                continue
            if who == "update":
                # the caller changes a variable: everything else must still be what was passed in
                now = _snapshot(V)
                moved += [k for k in before if before[k] != now.get(k)]
                r = c["ramp"]
                V["time"] = law.plain(r["time1"], "s") if law.mode != "numpy" else __import__("numpy").float64(law.plain(r["time1"], "s"))
                before = _snapshot(V)
                steps.append({"who": who})
                continue
            try:
                steps.append({"who": who, "vals": law.project(fns[who](V))})   # projected at once: no aliasing
            except Exception as e:
                import traceback
                steps.append({"who": who, "raise": _exc(e), "tb": traceback.format_exc()[-600:]})
        after = _snapshot(V)
    return {"steps": steps, "changed": sorted(set(moved) | set(k for k in before if before[k] != after.get(k))),
            "store_keys_changed": sorted(set(before) ^ set(after)),
            "before": {k: before[k] for k in before if before[k] != after.get(k)},
            "after": {k: after[k] for k in before if before[k] != after.get(k)}}


def _range_of(exp, term, exact):
    if exact["st"] == "q":
        q = Fraction(*exact["q"])
        return q, q
    names = sorted(exp["brackets"])
    envs = [dict(zip(names, combo)) for combo in itertools.product(*[exp["brackets"][n] for n in names])]
    return terms.bracket(term, envs or [{}], prec=30)


def _expected_range(case, i):
    exp = case["exp"]
    return _range_of(exp, exp["terms"][i], exp["exact"][i])


def judge_laws(case, obs):
    exp = case["exp"]
    rtol = float(Fraction(exp["rtol"]))
    bad = []
    if "fits" in obs:
        for tag, o in sorted(obs["fits"].items()):
            if isinstance(o, dict):
                bad.append(({"clause": "raises", "exc": o["raised"], "variant": tag}, {"observed": o, "expected": "parameters"}))
                continue
            if len(o) != len(exp["terms"]):
                bad.append(({"clause": "arity", "variant": tag}, {"observed": o, "expected": len(exp["terms"])}))
                continue
            for i in range(len(exp["terms"])):
                lo, hi = _expected_range(case, i)
                if not terms.within(o[i], lo, hi, rtol, rtol * 1e-3):
                    bad.append(({"clause": "value", "variant": tag, "component": i},
                                {"observed": o, "expected": [str(lo), str(hi)]}))
        return bad
    if "raise" in obs:
        return [({"clause": "raises", "exc": obs["raise"]["raised"], "step": 0}, {"observed": obs, "expected": "a value"})]
    if exp.get("raises"):
        # evaluation must be refused at every step (any exception class), and the store stays untouched
        for n, st in enumerate(obs["steps"], 1):
            if "raise" not in st:
                bad.append(({"clause": "missing-raise", "step": n}, {"observed": st, "expected": {"raises": True}}))
        if obs["changed"] or obs["store_keys_changed"]:
            bad.append(({"clause": "frame"}, {"observed": obs["changed"], "expected": "variables unchanged"}))
        return bad
    for n, (st, est) in enumerate(zip(obs["steps"], exp["steps"]), 1):
        if est["who"] in ("update", "setarg"):
            continue
        key = {"step": n, "who": est["who"], "hist": "-".join(case["in"]["hist"])}
        if "raise" in st:
            bad.append((dict(key, clause="raises", exc=st["raise"]["raised"]), {"observed": st, "expected": "a value"}))
            continue
        done = False
        for l, lane in enumerate(est["lanes"]):
            for i, term in enumerate(lane["terms"]):
                lo, hi = _range_of(exp, term, lane["exact"][i])
                o = st["vals"][i][l]
                if isinstance(o, complex) or not terms.within(o, lo, hi, rtol, 0):
                    bad.append((dict(key, clause="value", component=i, lane=l),
                                {"observed": repr(st["vals"]), "expected": [str(lo), str(hi)],
                                 "term": terms.term_str(term)}))
                    done = True
                    break
            if done:
                break
    # frame condition: evaluation does not modify the mapping it was given
    if exp["frame"] == "variables-unchanged" and (obs["changed"] or obs["store_keys_changed"]):
        bad.append(({"clause": "frame", "hist": "-".join(case["in"]["hist"])},
                    {"observed": {"changed": obs["changed"], "before": obs["before"], "after": obs["after"],
                                  "keys": obs["store_keys_changed"]},
                     "expected": "the caller's variables unchanged after %d evaluation(s)" % len(obs["steps"])}))
    return bad


# ----------------------------------------------------------------------------- driver
def observe(case):
    part = case["in"]["part"]
    try:
        if part == "resolve":
            return resolve_case(case)
        if part == "algebra":
            return algebra_case(case)
        return laws_case(case)
    except Exception:
        import traceback
        return {"HARNESS": traceback.format_exc()}


def judge(case, obs):
    part = case["in"]["part"]
    if part == "resolve":
        return judge_resolve(case, obs)
    if part == "algebra":
        return judge_algebra(case, obs)
    return judge_laws(case, obs)


def _key(case, extra):
    i = case["in"]
    k = {"part": i["part"]}
    if i["part"] == "laws":
        k.update(cls=i["cls"], mode=i["mode"], order=i["order"], pattern=i["pattern"])
    elif i["part"] == "resolve":
        k.update(cfg="n%d d%d g%d u%d %s" % (i["n"], i["d"], i["g"], i["u"], i["form"]))
    else:
        k.update(tree=tree_str(i["tree"]))
    k.update(extra)
    return k


def tree_str(t):
    k = t["k"]
    if k == "C":
        return "C(%d)" % t["v"]
    if k == "S":
        return "S(%s)" % t["name"]
    if k == "i":
        return "%d" % t["v"]
    if k == "s":
        return "'%s'" % t["name"]
    if k == "neg":
        return "-(%s)" % tree_str(t["a"])
    sym = {"add": "+", "sub": "-", "mul": "*", "div": "/", "pow": "**"}[k]
    return "(%s %s %s)" % (tree_str(t["a"]), sym, tree_str(t["b"]))


def _nontrivial(case):
    i = case["in"]
    if i["part"] == "algebra":
        return i["tree"]["k"] not in ("C", "S")
    if i["part"] == "resolve":
        return i["u"] > 0 or i["d"] > 0
    return True


SLICES_Q = [("resolve_q", ["SetClass", "GenArgs", "GenKeys", "GenVars", "GenResolve"], 500),
            ("algebra_q", ["GenLeaf", "GenOp", "GenNeg", "FinishTree"], 600),
            ("laws_q", ["ChooseLaw", "GenPset", "GenTemp", "Evaluate", "GenStep", "GenFinishHist"], 2100)]
SLICES_T = [("resolve_t", [], None), ("algebra_t", [], 40000), ("algebra_t4", [], 40000), ("laws_t", [], None)]


def _tlc_all(ctx, slices):
    """run the slices' TLC configs concurrently (they are independent), then do the accounting and the
    vacuity checks of core.Context.tlc in the main thread, slice by slice"""
    import concurrent.futures
    import core
    import tlc as _tlc

    def one(item):
        sl, acts, nsel = item
        try:
            return _tlc.run_tlc("ExprTree_MC", "ExprTree_MC_%s.cfg" % sl, coverage=bool(acts), timeout=2400,
                                workers=8 if ctx.quick else 16)
        except _tlc.TLCError as e:
            return e
    # thorough outputs are hundreds of MB each: one at a time there
    with concurrent.futures.ThreadPoolExecutor(max_workers=len(slices) if ctx.quick else 1) as ex:
        results = list(ex.map(one, slices))
    out = {}
    for (sl, acts, nsel), res in zip(slices, results):
        cfg = "ExprTree_MC_%s.cfg" % sl
        if isinstance(res, Exception):
            raise core.MachineryFailure(str(res))
        ctx.states += res.distinct
        ctx.transitions += res.generated
        ctx.tlc_runs.append(dict(module="ExprTree_MC", cfg=cfg, **res.summary()))
        for a in acts:
            t = sum(res.coverage.get(n, (0, 0))[1] for n in {a, a[3:] if a.startswith("Gen") else a})
            ctx.coverage_actions["ExprTree_MC!%s" % a] = t
            if t == 0:
                raise core.MachineryFailure("vacuity: action %s of ExprTree_MC never taken under %s" % (a, cfg))
        if len(res.cases) < 100:
            raise core.MachineryFailure("vacuity: ExprTree_MC/%s produced %d cases (< 100)" % (cfg, len(res.cases)))
        out[sl] = res
    return out


def run(ctx):
    import core
    slices = SLICES_Q if ctx.quick else SLICES_T
    tlc_results = _tlc_all(ctx, slices)
    for sl, acts, nsel in slices:
        res = tlc_results.pop(sl)
        # TLC prints cases in a worker-dependent order: sort first so that the sample depends on the seed only;
        # the handful of fit / regression cases is always replayed
        cases = sorted(res.cases, key=lambda c: core.stable_hash(c["in"]))
        sel = ctx.pick(cases, nsel, always=lambda c: c["in"].get("cls") in ("FitArrhenius", "FitEyring", "LeastSquares"))
        outs = ctx.pmap(observe, sel)
        ctx.cases_replayed += len(sel)
        nmodes = {"resolve": 1, "algebra": len(MODES), "laws": 1}
        for case, obs in zip(sel, outs):
            if "HARNESS" in obs:
                raise core.MachineryFailure("binding failed on %r: %s" % (case["in"], obs["HARNESS"]))
            ctx.ran({"in": case["in"]}, nontrivial=_nontrivial(case), n=nmodes[case["in"]["part"]])
            if case["in"]["part"] == "resolve":
                nun = sum(1 for e in case["exp"]["res"] if e["src"] == "unspecified")
                if nun:
                    ctx.skip("resolve: argument without any source (unspecified)", nun)
            for extra, detail in judge(case, obs):
                d = {"direction": "spec->code", "case": case, "tlc_cfg": "ExprTree_MC_%s.cfg" % sl}
                d.update(detail)
                ctx.counters["disagree:%s:%s" % (case["in"].get("cls", case["in"]["part"]), extra.get("clause"))] += 1
                ctx.violation(_key(case, extra), d)
        if sel:
            s0 = sel[len(sel) // 2]
            ctx.sample({"slice": sl, "in": s0["in"], "exp": s0["exp"]}, cap=6)
    ctx.exhaustive = False if ctx.quick else None
    _trace_direction(ctx)


# ----------------------------------------------------------------------------- code -> spec
def _gen_rpn(rng, max_leaves, max_depth):
    """seeded reverse-Polish construction respecting the guards of ExprTree!Op (values defined at the
    sample points, small exact exponents) - checked with the generic evaluator, not with chempy"""
    envs = [{"x": Fraction(2), "y": Fraction(3)}, {"x": Fraction(1, 2), "y": Fraction(-3)}, {"x": Fraction(4, 9), "y": Fraction(1)}]

    def leaf():
        r = rng.random()
        if r < 0.3:
            return {"k": "C", "v": rng.choice([0, 1, 2, 3, -1, -2, 5])}
        if r < 0.55:
            return {"k": "i", "v": rng.choice([0, 1, 2, 3, -1, 4])}
        if r < 0.8:
            return {"k": "S", "name": rng.choice(["x", "y"])}
        return {"k": "s", "name": rng.choice(["x", "y"])}

    def term_of(t):
        k = t["k"]
        if k in ("C", "i"):
            return {"op": "const", "q": [t["v"], 1]}
        if k in ("S", "s"):
            return {"op": "var", "name": t["name"]}
        if k == "neg":
            return {"op": "neg", "args": [term_of(t["a"])]}
        if k == "sub":
            return {"op": "add", "args": [term_of(t["a"]), {"op": "neg", "args": [term_of(t["b"])]}]}
        return {"op": k, "args": [term_of(t["a"]), term_of(t["b"])]}

    def depth(t):
        if t["k"] in ("C", "S", "i", "s"):
            return 0
        if t["k"] == "neg":
            return 1 + depth(t["a"])
        return 1 + max(depth(t["a"]), depth(t["b"]))

    def values(t):
        out = []
        for e in envs:
            try:
                out.append(terms.eval_term(term_of(t), e, mode="fraction"))
            except terms.NotRational:
                out.append("irr")
            except terms.Undefined:
                return None
        return out

    def ok(t, op=None, b=None):
        vs = values(t)
        if vs is None:
            return False
        # keep everything exactly rational and inside 31 bits so that TLC can judge it
        if any(v == "irr" or abs(v.numerator) >= 2 ** 20 or v.denominator >= 2 ** 20 for v in vs):
            return False
        if op == "pow":
            eb = values(b)
            if eb is None or any(v == "irr" or v.denominator != 1 or abs(v) > 3 for v in eb):
                return False
        return True

    for _ in range(200):
        stack, events, nleaves = [], [], 0
        target = rng.randint(2, max_leaves)
        while True:
            can_op = len(stack) >= 2
            if nleaves < target and (not can_op or rng.random() < 0.5):
                t = leaf()
                stack.append(t)
                events.append({"k": "leaf", "t": t})
                nleaves += 1
                continue
            if can_op:
                a, b = stack[-2], stack[-1]
                op = rng.choice(["add", "sub", "mul", "div", "pow", "add", "mul", "sub"])
                w = {"k": op, "a": a, "b": b}
                if (a["k"] in "is" and b["k"] in "is") or depth(w) > max_depth or not ok(w, op, b):
                    break
                stack[-2:] = [w]
                events.append({"k": "op", "op": op})
                if rng.random() < 0.25 and depth(w) < max_depth:
                    stack[-1] = {"k": "neg", "a": w}
                    events.append({"k": "neg"})
            if len(stack) == 1 and nleaves >= target:
                if stack[0]["k"] in "is":
                    break
                events.append({"k": "finish"})
                return stack[0], events
            if not can_op and nleaves >= target:
                break
    t = {"k": "add", "a": {"k": "S", "name": "x"}, "b": {"k": "i", "v": 0}}
    return t, [{"k": "leaf", "t": t["a"]}, {"k": "leaf", "t": t["b"]}, {"k": "op", "op": "add"}, {"k": "finish"}]


def _enc_q(v):
    """observed number -> [n, d] exactly if it is (numerically) a small rational, else [0, 0]"""
    if isinstance(v, Fraction):
        q = v
    else:
        if v != v or v in (float("inf"), float("-inf")):
            return [0, 0]
        q = Fraction(v).limit_denominator(10 ** 6)
        if abs(float(q) - v) > 1e-12 * max(1.0, abs(v)):
            return [0, 0]
    if abs(q.numerator) >= 2 ** 31 or q.denominator >= 2 ** 31:
        return [0, 0]
    return [q.numerator, q.denominator]


def _trace_of(item):
    tree, events = item
    case = {"in": {"tree": tree, "envs": [{"x": [2, 1], "y": [3, 1]}, {"x": [1, 2], "y": [-3, 1]}, {"x": [4, 9], "y": [1, 1]}]}}
    obs = algebra_case(case)
    res = {"k": "result", "raised": "build" in obs}
    if "build" not in obs:
        res["struct"] = obs["struct"] if isinstance(obs["struct"], dict) and "op" in obs["struct"] else {"op": "var", "name": "unprojectable"}
        for mode in MODES:
            res[mode] = [_enc_q(Fraction(o[1], o[2]) if o[0] == "q" else (o[1] if o[0] == "f" else float("nan"))) for o in obs["vals"][mode]]
    return list(events) + [res], obs


def _trace_direction(ctx):
    import core
    n = 200 if ctx.quick else 6000
    items = [_gen_rpn(ctx.rng, 6 if ctx.quick else 8, 5) for _ in range(n)]
    outs = ctx.pmap(_trace_of, items)
    traces = [t for t, o in outs]
    verdicts = ctx.validate_traces("ExprTreeTrace", "ExprTreeTrace.cfg", traces)
    for (tree, events), (tr, obs), (v, pos, clause) in zip(items, outs, verdicts):
        ctx.ran({"tree": tree}, nontrivial=True, n=len(MODES))
        if v == "accept":
            continue
        if clause.startswith("step:") or clause == "no-result-event":
            raise core.MachineryFailure("generated trace outside the model: %s at %d: %s" % (clause, pos, tree_str(tree)))
        if clause.startswith("unencodable"):
            ctx.skip("unencodable-observation")
            continue
        ctx.violation({"part": "algebra", "tree": tree_str(tree), "clause": "trace:" + clause},
                      {"direction": "code->spec", "trace": tr, "observed": tr[-1],
                       "verdict": {"verdict": v, "pos": pos, "clause": clause}, "tlc_cfg": "ExprTreeTrace.cfg"})
    if traces:
        ctx.sample({"trace": traces[0]}, cap=8)


def replay(ctx, rec):
    if rec.get("direction") == "spec->code":
        case = rec["case"]
        obs = observe(case)
        for extra, detail in judge(case, obs):
            if extra.get("clause") == rec["key"].get("clause"):
                ctx.violation(rec["key"], detail)
    else:
        events = [e for e in rec["trace"] if e["k"] != "result"]
        tree = None
        stack = []
        for e in events:
            if e["k"] == "leaf":
                stack.append(e["t"])
            elif e["k"] == "op":
                b = stack.pop()
                a = stack.pop()
                stack.append({"k": e["op"], "a": a, "b": b})
            elif e["k"] == "neg":
                stack.append({"k": "neg", "a": stack.pop()})
        tree = stack[0]
        tr, obs = _trace_of((tree, events))
        v, pos, clause = ctx.validate_traces("ExprTreeTrace", "ExprTreeTrace.cfg", [tr])[0]
        if v != "accept":
            ctx.violation(rec["key"], {"observed": tr[-1], "verdict": {"verdict": v, "pos": pos, "clause": clause}})
