"""C17 - closed-form integrated rate laws solve their rate equations from the given start.

spec/Integrated.tla holds, per function, the documented mechanism, the argument -> initial
concentration map, the returned species and the advertised backends; it derives the rate
equation after the conservation closure (a term over y1, y2), the exact initial value and the
exact initial slope, and enumerates function x backend x rational grid x time (Integrated_MC).

spec -> code : every terminal state is a case.  The binding layer calls the real function with
               the sympy backend on the case's rational arguments, differentiates w.r.t. t with
               sympy, evaluates  d/dt f - RHS(f)  (RHS = the case's term, evaluated by the
               generic eval_term) with 50 digits, compares f(t_init) with the case's initial
               value, f'(t_init) with the case's exact slope, and the value obtained under the
               case's backend (floats) with the 50-digit value.  Tolerances come with the case.
code -> spec : seeded rational arguments beyond the grid; the recorded f(t_init), f'(t_init) are
               judged by TLC (IntegratedTrace: exact rational comparison with InitialValue /
               RHS(initial) computed by the spec).
"""
import math
import types
from fractions import Fraction

import terms

LEVEL = "exploration"
RULE = ("cases = terminal states of Integrated_MC (function x backend x rational parameter grid x "
        "time), each judged on: initial value (exact, TLC), initial slope (exact, TLC), ODE residual "
        "d/dt f - RHS(f) at the grid point (RHS term from TLC, 50-digit arithmetic), evaluation under "
        "the advertised backend; plus seeded off-grid argument sets judged by TLC trace validation; "
        "distinct = distinct (function, arguments, time, backend); non-trivial = time > t_init or "
        "non-zero initial product")
ASSUMPTIONS = [
    "the derivative with respect to t is taken by sympy (CAS) on the expression returned by the real "
    "function under the sympy backend; 'identically in time' is sampled at the grid times",
    "binary_irrev_cstr cannot be called with backend=sympy on the pinned tree (known finding); its "
    "residual is obtained through a namespace that re-exports sympy's functions plus arctanh=atanh",
    "mass-action convention of C03: rate r = k*prod(c^nu), d[X]/dt = net stoichiometry * r",
]

DPS = 50


def _fn(name):
    import chempy.kinetics.integrated as m
    return getattr(m, name)


def _backend_kw(tag):
    """case backend tag -> kwargs for the real call"""
    import numpy
    import sympy
    if tag in ("plain", "default"):
        return {}
    name, how = tag.split(":")
    if how == "str":
        return {"backend": name}
    return {"backend": {"numpy": numpy, "math": math, "sympy": sympy}[name]}


def _sympy_shim():
    import sympy
    class _Shim(object):
        """sympy's functions under the names math / numpy use (arctanh, expm1, log1p, ...), so that the
        ODE identity can still be checked when the function cannot be called with backend=sympy
        (that failure itself is judged by the backend cases)."""
        arctanh, arcsinh, arccosh = sympy.atanh, sympy.asinh, sympy.acosh
        arctan, arcsin, arccos = sympy.atan, sympy.asin, sympy.acos
        expm1 = staticmethod(lambda x: sympy.exp(x) - 1)
        log1p = staticmethod(lambda x: sympy.log(1 + x))
        log10 = staticmethod(lambda x: sympy.log(x) / sympy.log(10))
        log2 = staticmethod(lambda x: sympy.log(x) / sympy.log(2))
        power = staticmethod(lambda a, b: a ** b)
        square = staticmethod(lambda a: a ** 2)

        def __getattr__(self, name):
            return getattr(sympy, name)
    return _Shim()


def _call_args(case, conv):
    a = case["in"]["args"]
    out, kw = [], {}
    for name in case["in"]["sig"]:
        v = conv(terms.to_fraction(a[name]))
        if name in ("n", "t0"):
            kw[name] = v
        else:
            out.append(v)
    return out, kw


def _call_form(case, form, tag):
    """one spelling of the case's call -> rows (label, 'at-t' | 'at-tinit' | expected frame, observed)"""
    import numpy as np
    import sympy
    fn = _fn(case["in"]["fn"])
    sig = case["in"]["sig"]
    a = {n: terms.to_fraction(case["in"]["args"][n]) for n in sig}
    tq = terms.to_fraction(case["in"]["t"])
    bkw = _backend_kw(tag)
    num = float
    if form == "native-ints":
        num = lambda q: int(q) if q.denominator == 1 else float(q)  # noqa: E731
    if form == "symbolic-args":
        syms = {n: sympy.Symbol(n, positive=True) for n in sig}
        ts = sympy.Symbol("t", positive=True)
        pos = [syms[n] for n in sig if n not in case["in"]["defaulted"]]
        kw = {n: syms[n] for n in sig if n in case["in"]["defaulted"]}
        kw.update(bkw)
        out = _as_tuple(fn(ts, *pos, **kw))
        sub = {syms[n]: sympy.Rational(a[n].numerator, a[n].denominator) for n in sig}
        sub[ts] = sympy.Rational(tq.numerator, tq.denominator)
        return [("t", "at-t", tuple(complex(sympy.N(sympy.sympify(e).subs(sub), 30)) for e in out))]
    if form == "keyword":
        kw = {n: num(a[n]) for n in sig}
        kw.update(bkw)
        return [("t", "at-t", _as_tuple(fn(t=num(tq), **kw)))]
    names = [n for n in sig if not (form == "implicit-defaults" and n in case["in"]["defaulted"])]
    pos = [num(a[n]) for n in names if n not in case["in"]["defaulted"]]
    kw = {n: num(a[n]) for n in names if n in case["in"]["defaulted"]}
    kw.update(bkw)
    if form in ("array-args", "array-args-native"):
        def arr(q):
            if form == "array-args-native" and q.denominator == 1:
                return np.array([int(q), int(q)])
            return np.array([float(q), float(q)])
        objs = [arr(a[n]) for n in names if n not in case["in"]["defaulted"]]
        before = [o.tolist() for o in objs]
        rows = []
        for call in ("call1", "call2"):          # the same argument objects are handed over twice
            out = _as_tuple(fn(float(tq), *objs, **kw))
            cols = [np.broadcast_to(np.asarray(o), (2,)) for o in out]
            rows += [(call + "[0]", "at-t", tuple(col[0] for col in cols)), (call + "[1]", "at-t", tuple(col[1] for col in cols))]
        rows.append(("frame", before, [o.tolist() for o in objs]))
        return rows
    if form == "array-t":
        tarr = np.array([float(terms.to_fraction(x)) for x in case["in"]["tarray"]])
        before = tarr.tolist()
        out = _as_tuple(fn(tarr, *pos, **kw))
        cols = [np.broadcast_to(np.asarray(o), tarr.shape) for o in out]
        return [("t", "at-t", tuple(col[0] for col in cols)), ("tinit", "at-tinit", tuple(col[1] for col in cols)),
                ("frame", before, tarr.tolist())]
    return [("t", "at-t", _as_tuple(fn(num(tq), *pos, **kw)))]


def _cplx(v):
    """total projection of a returned value to a complex number (nan for anything that is not a number)"""
    try:
        return complex(v)
    except Exception:
        return complex(float("nan"), 0.0)


def _mp(x):
    """sympy number -> mpmath mpc with DPS digits (structural conversion)"""
    import mpmath
    import sympy
    re, im = sympy.N(x, DPS).as_real_imag()
    return mpmath.mpc(mpmath.mpf(str(re)), mpmath.mpf(str(im)))


def _as_tuple(v):
    return tuple(v) if isinstance(v, (tuple, list)) else (v,)


def _symbolic(case):
    """the real function under the sympy backend on rational arguments -> (exprs, how, err)"""
    import sympy
    t = sympy.Symbol("t")
    fn = _fn(case["in"]["fn"])
    args, kw = _call_args(case, lambda q: sympy.Rational(q.numerator, q.denominator))
    if case["in"]["fn"] != "dimerization_irrev":
        kw = dict(kw, backend=sympy)
    try:
        return _as_tuple(fn(t, *args, **kw)), "sympy", None, t
    except AttributeError as e:
        # the sympy backend itself is judged by the backend cases; keep the ODE identity checked
        kw["backend"] = _sympy_shim()
        return _as_tuple(fn(t, *args, **kw)), "shim", type(e).__name__, t


def check_group(group):
    """group: cases that share (fn, args, t).  Returns (list of (case, key-extra, detail), info)."""
    import mpmath
    import sympy
    mpmath.mp.dps = DPS
    case0 = group[0]
    exp = case0["exp"]
    fnname = case0["in"]["fn"]
    tq = terms.to_fraction(case0["in"]["t"])
    t0q = terms.to_fraction(case0["in"]["tinit"])
    bad = []
    ncomp = len(exp["ret"])
    main0 = ([c for c in group if c["in"]["backend"] in ("sympy:mod", "plain")] or group)[0]
    try:
        exprs, how, err, t = _symbolic(case0)
        tS = sympy.Rational(tq.numerator, tq.denominator)
        t0S = sympy.Rational(t0q.numerator, t0q.denominator)
        if len(exprs) != ncomp:
            raise ValueError("arity: %d components returned, %d documented" % (len(exprs), ncomp))
        _probe = [(_mp(e.subs(t, tS)), _mp(sympy.diff(e, t).subs(t, tS)), _mp(e.subs(t, t0S))) for e in exprs]
    except Exception as e:
        # whatever the function returned under the sympy backend could not be evaluated: an observation
        return [(main0, {"clause": "symbolic-unevaluable", "exc": type(e).__name__},
                 {"observed": {"raised": type(e).__name__, "msg": str(e)[:200]}, "expected": "a differentiable expression"})], \
            {"value": [], "how": "failed"}
    scale = float(terms.to_fraction(exp["scale"]))
    cscale = [float(terms.to_fraction(q)) for q in exp["comp_scale"]]
    vals = [_mp(e.subs(t, tS)) for e in exprs]
    derivs = [_mp(sympy.diff(e, t).subs(t, tS)) for e in exprs]
    ref = {"value": [str(v) for v in vals], "how": how}
    main = [c for c in group if c["in"]["backend"] in ("sympy:mod", "plain")]
    if main:
        c = main[0]
        if len(exprs) != ncomp:
            bad.append((c, {"clause": "arity"}, {"observed": len(exprs), "expected": ncomp}))
        rt_i, rt_r = float(Fraction(exp["rtol_init"])), float(Fraction(exp["rtol_residual"]))
        # initial value, decided exactly by TLC
        for i in range(min(ncomp, len(exprs))):
            f0 = _mp(exprs[i].subs(t, t0S))
            want = terms.to_fraction(exp["init"][i])
            w = mpmath.mpf(want.numerator) / want.denominator
            if not abs(f0 - w) <= rt_i * cscale[i]:
                bad.append((c, {"clause": "init", "component": exp["ret"][i]},
                            {"observed": str(f0), "expected": str(want), "at_t": str(t0q)}))
            s0 = exp["slope0"][i]
            if s0["st"] == "q":
                d0 = _mp(sympy.diff(exprs[i], t).subs(t, t0S))
                sw = terms.to_fraction(s0["q"])
                if not abs(d0 - mpmath.mpf(sw.numerator) / sw.denominator) <= rt_r * max(scale, abs(float(sw))):
                    bad.append((c, {"clause": "slope0", "component": exp["ret"][i]},
                                {"observed": str(d0), "expected": str(sw), "at_t": str(t0q)}))
        # the rate equation at the grid point
        env = {"y%d" % (i + 1): vals[i].real for i in range(len(vals))}
        imag = max([abs(v.imag) for v in vals] + [0])
        if imag > rt_r * scale:
            bad.append((c, {"clause": "complex-value"}, {"observed": [str(v) for v in vals]}))
        for i in range(min(ncomp, len(exprs))):
            rhs = terms.eval_term(exp["rhs"][i], env, prec=DPS)
            res = derivs[i] - rhs
            size = max(abs(derivs[i]), abs(rhs), mpmath.mpf(scale))
            if not abs(res) <= rt_r * size:
                bad.append((c, {"clause": "residual", "component": exp["ret"][i]},
                            {"observed": {"dfdt": str(derivs[i]), "f": str(vals[i]), "residual": str(res)},
                             "expected": {"rhs": str(rhs), "rhs_term": terms.term_str(exp["rhs"][i])},
                             "at_t": str(tq)}))
    # evaluation under each advertised backend, in every call form the case lists
    init_f = [float(terms.to_fraction(q)) for q in exp["init"]]
    for c in group:
        tag = c["in"]["backend"]
        rt_b = float(Fraction(c["exp"]["rtol_backend"]))
        for form in sorted(c["in"]["callforms"]):
            try:
                import warnings
                with warnings.catch_warnings():
                    warnings.simplefilter("ignore")
                    rows = _call_form(c, form, tag)      # list of (label, expected list, observed tuple)
            except Exception as e:  # projection: exception -> class name
                bad.append((c, {"clause": "raises", "exc": type(e).__name__, "form": form},
                            {"observed": {"raised": type(e).__name__, "msg": str(e)[:200]},
                             "expected": {"raises": False}}))
                continue
            for label, want, out in rows:
                if label == "frame":
                    if want != out:
                        bad.append((c, {"clause": "frame", "form": form},
                                    {"observed": out, "expected": want}))
                    continue
                refs = vals if want == "at-t" else init_f
                obs = [_cplx(v) for v in out]
                for i in range(min(ncomp, len(obs))):
                    o = obs[i]
                    r = complex(refs[i])
                    tol = rt_b * max(abs(r), cscale[i])
                    kind = "nan" if (o != o) else ("complex" if abs(o.imag) > tol else "number")
                    if kind != "number" or not abs(o.real - r.real) <= tol:
                        bad.append((c, {"clause": "value", "observed_kind": kind, "component": c["exp"]["ret"][i],
                                        "form": form, "at": label},
                                    {"observed": repr(out[i]), "expected": str(r.real), "rtol": rt_b}))
    return bad, ref


def _work(group):
    try:
        return check_group(group)
    except Exception as e:  # a failure of the binding itself, not of chempy
        import traceback
        return "HARNESS:" + traceback.format_exc(), None


def _key(case, extra):
    k = {"fn": case["in"]["fn"], "backend": case["in"]["backend"], "regime": case["exp"]["regime"],
         "product0": case["exp"]["product0"], "t": str(terms.to_fraction(case["in"]["t"]))}
    k.update(extra)
    return k


def _groups(cases):
    by = {}
    for c in cases:
        gk = (c["in"]["fn"], tuple(sorted((k, tuple(v)) for k, v in c["in"]["args"].items())), tuple(c["in"]["t"]))
        by.setdefault(gk, []).append(c)
    return [by[k] for k in sorted(by)]


# ------------------------------------------------------------------ code -> spec
def _trace_for(item):
    """seeded off-grid arguments -> trace: fn, params..., result(f(t_init), f'(t_init)) as exact rationals"""
    import sympy
    fnname, sig, args = item
    case = {"in": {"fn": fnname, "sig": sig, "args": args}}
    try:
        return _trace_events(item, case)
    except Exception as e:       # total observation: the call itself failed -> a result event no spec accepts
        evs = [{"k": "fn", "fn": fnname}, {"k": "backend", "b": "plain" if fnname == "dimerization_irrev" else "sympy:mod"}]
        evs += [{"k": "par", "name": n, "v": args[n]} for n in sig]
        evs += [{"k": "time", "d": [0, 1]}, {"k": "result", "f0": [], "d0": [], "raised": type(e).__name__}]
        return evs


def _trace_events(item, case):
    import sympy
    fnname, sig, args = item
    exprs, how, err, t = _symbolic(case)
    t0 = terms.to_fraction(args.get("t0", [0, 1]))
    t0S = sympy.Rational(t0.numerator, t0.denominator)
    f0, d0 = [], []
    for e in exprs:
        v = sympy.nsimplify(sympy.simplify(e.subs(t, t0S)))
        d = sympy.nsimplify(sympy.simplify(sympy.diff(e, t).subs(t, t0S)))
        f0.append(_enc(v))
        d0.append(_enc(d))
    evs = [{"k": "fn", "fn": fnname}, {"k": "backend", "b": "plain" if fnname == "dimerization_irrev" else "sympy:mod"}]
    evs += [{"k": "par", "name": n, "v": args[n]} for n in sig]
    evs += [{"k": "time", "d": [0, 1]}]
    evs += [{"k": "result", "f0": f0, "d0": d0}]
    return evs


def _enc(v):
    """sympy number -> [n, d] if it is an exact rational with 31-bit parts, else the string 'x'"""
    import sympy
    if isinstance(v, sympy.Rational) and abs(v.p) < 2 ** 31 and v.q < 2 ** 31:
        return [int(v.p), int(v.q)]
    return [0, 0]      # un-encodable marker (denominator 0 is never a rational)


def _gen_items(rng, n):
    sigs = {
        "dimerization_irrev": ["kf", "initial_C", "t0"],
        "pseudo_irrev": ["kf", "prod", "major", "minor"],
        "pseudo_rev": ["kf", "kb", "prod", "major", "minor"],
        "binary_irrev": ["kf", "prod", "major", "minor"],
        "unary_irrev_cstr": ["k", "r", "p", "fr", "fp", "fv"],
    }
    names = sorted(sigs)
    out = []
    for i in range(n):
        f = names[i % len(names)]
        args = {}
        for a in sigs[f]:
            num, den = rng.randint(1, 40), rng.randint(1, 12)
            if a in ("prod", "p", "t0") and rng.random() < 0.3:
                num = 0
            args[a] = [num, den]
        if f == "binary_irrev" and Fraction(*args["major"]) == Fraction(*args["minor"]):
            args["major"] = [args["major"][0] + 1, args["major"][1]]
        for a in args:
            q = Fraction(*args[a])
            args[a] = [q.numerator, q.denominator]
        out.append((f, sigs[f], args))
    return out


def run(ctx):
    import core
    cfg = "Integrated_MC_q.cfg" if ctx.quick else "Integrated_MC_t.cfg"
    res = ctx.tlc("Integrated_MC", cfg, require_actions=["ChooseFn", "ChooseBackend", "GenParam", "ChooseTime"],
                  require_cases=1000, timeout=1500)
    groups = _groups(res.cases)
    if ctx.quick:
        # stratified by class over groups: keep every (fn, regime, product0, t0) class
        reps = [dict(g[0], _g=i) for i, g in enumerate(groups)]
        for r in reps:
            r["cls"] = ":".join(r["cls"].split(":")[:3]) + (":t0" if r["cls"].endswith(":t0") else "")
        sel = ctx.pick(reps, 160)
        groups = [groups[r["_g"]] for r in sel]
    # stiff / late slice (diffusion-limited constants, mM concentrations, 0.5 ms .. 1000 s): always in full
    res_s = ctx.tlc("Integrated_MC", "Integrated_MC_stiff.cfg", require_cases=100, timeout=600)
    for c in res_s.cases:
        c["slice"] = "stiff"
    groups = groups + _groups(res_s.cases)
    # excess slice (one reactant 5e10 .. 2e12 times the other): always in full
    res_x = ctx.tlc("Integrated_MC", "Integrated_MC_excess.cfg", require_cases=100, timeout=600)
    for c in res_x.cases:
        c["slice"] = "excess"
    groups = groups + _groups(res_x.cases)
    # zero slice (kb, prod, r, fr, fp exactly 0): always in full
    res_z = ctx.tlc("Integrated_MC", "Integrated_MC_zero.cfg", require_cases=50, timeout=600)
    for c in res_z.cases:
        c["slice"] = "zero"
    groups = groups + _groups(res_z.cases)
    ctx.exhaustive = not ctx.quick
    outs = ctx.pmap(_work, groups)
    for g, (bad, ref) in zip(groups, outs):
        if isinstance(bad, str):
            raise core.MachineryFailure("binding failed on %s: %s" % (g[0]["in"], bad))
        ctx.cases_replayed += len(g)
        for c in g:
            nontriv = c["in"]["t"] != c["in"]["tinit"] or c["exp"]["product0"]
            ctx.ran({"in": c["in"]}, nontrivial=nontriv)
        for c, extra, detail in bad:
            d = {"direction": "spec->code", "case": c,
                 "tlc_cfg": "Integrated_MC_%s.cfg" % c["slice"] if c.get("slice") else cfg}
            extra = dict(extra, slice=c.get("slice", "grid"))
            d.update(detail)
            ctx.counters["disagree:%s:%s:%s" % (c["in"]["fn"], extra.get("clause"), c["in"]["backend"].split(":")[0])] += 1
            ctx.violation(_key(c, extra), d)
        if not bad and len(ctx.samples) < 4 and g[0]["in"]["t"] != g[0]["in"]["tinit"]:
            ctx.sample({"in": g[0]["in"], "init": g[0]["exp"]["init"], "slope0": g[0]["exp"]["slope0"],
                        "rhs": [terms.term_str(x) for x in g[0]["exp"]["rhs"]], "f(t) [50 digits]": ref["value"],
                        "backends_agreeing": sorted(c["in"]["backend"] for c in g)}, cap=4)

    # ---- code -> spec: off-grid rational arguments, f(t_init) and f'(t_init) judged exactly by TLC
    items = _gen_items(ctx.rng, 150 if ctx.quick else 1500)
    traces = ctx.pmap(_trace_for, items)
    verdicts = ctx.validate_traces("IntegratedTrace", "IntegratedTrace.cfg", traces)
    for it, tr, (v, pos, clause) in zip(items, traces, verdicts):
        ctx.ran({"trace": tr[:-1]}, nontrivial=True)
        if v == "accept":
            continue
        if clause.startswith("step:") or clause in ("no-result-event",):
            raise core.MachineryFailure("generated trace outside the model: %s at %d: %r" % (clause, pos, tr))
        if clause == "unencodable":
            ctx.skip("unencodable-observation")
            continue
        ctx.violation({"fn": it[0], "backend": "sympy:mod", "clause": "trace:" + clause,
                       "product0": bool(it[2].get("prod", it[2].get("p", [0, 1]))[0])},
                      {"direction": "code->spec", "trace": tr, "observed": tr[-1],
                       "verdict": {"verdict": v, "pos": pos, "clause": clause}, "tlc_cfg": "IntegratedTrace.cfg"})
    if traces:
        ctx.sample({"trace": traces[0]}, cap=6)


def replay(ctx, rec):
    import core
    if rec.get("direction") == "spec->code":
        bad, ref = check_group([rec["case"]])
        for c, extra, detail in bad:
            k = _key(c, extra)
            if all(str(k.get(x)) == str(rec["key"].get(x)) for x in ("clause", "component") if x in rec["key"]):
                ctx.violation(rec["key"], detail)
    else:
        tr = rec["trace"]
        fnname = tr[0]["fn"]
        sig = [e["name"] for e in tr if e["k"] == "par"]
        args = {e["name"]: e["v"] for e in tr if e["k"] == "par"}
        tr2 = _trace_for((fnname, sig, args))
        v, pos, clause = ctx.validate_traces("IntegratedTrace", "IntegratedTrace.cfg", [tr2])[0]
        if v != "accept":
            ctx.violation(rec["key"], {"observed": tr2[-1], "verdict": {"verdict": v, "pos": pos, "clause": clause}})
