"""C18 - ionic strength and Debye-Hueckel terms follow their definitions in any units.

spec/Electrolytes.tla (+ Electrolytes_MC / _MCT slices, ElectrolytesTrace).  Directions:
  spec -> code : part 1: every terminal state of the ion-list machine (lists built by AddIon and
                 changed by Permute / Merge / ScaleAll) is a case with the exact value of
                 2*I (pico-molal, BigNat) and the warning class; it is replayed through
                 ionic_strength in every input form the spec lists (plain list, mapping with
                 charges read from the formulas, quantity array / list / mapping in scaled units).
                 part 2: every DH point (limiting / extended / Davies, A / B, activity products)
                 is a case with the exact rational value where TLC could compute it, else the
                 instantiated term (evaluated by harness/terms.py); replayed in every call
                 configuration the spec lists (plain, math backend, units, scaled units,
                 constants object).
  code -> spec : seeded ion lists and histories beyond the exhaustive bounds are run through
                 ionic_strength; TLC (ElectrolytesTrace) replays the events and judges value and
                 warning.
"""
import math
from fractions import Fraction

import core
import physq
import terms

LEVEL = "exploration"
# nested term evaluation (EvalQR over product terms) is deep recursion for TLC: give its threads room
JAVA_OPTS = ["-Xss64m"]
RULE = ("cases = terminal states of the Electrolytes_MC slices (ion lists with histories; DH points) "
        "x the call forms listed in the case + seeded ion-list traces judged by ElectrolytesTrace; "
        "distinct = distinct (case input, form); non-trivial = ionic strength > 0 with >= 2 ions, or a "
        "DH point with non-zero ionic strength / any A,B point")
ASSUMPTIONS = [
    "physical constants F, N_A, eps0, k_B, pi pinned in spec/Electrolytes.tla (CODATA 2014); A and B are "
    "compared with rtol 2e-5 (both code paths sit at -2.2e-6 from the pinned values); activity products with rtol 5e-3",
    "the formulas for A, B, limiting/extended/Davies log-gamma are typed from the cited textbook form "
    "(Atkins & De Paula) and the function docstrings, not re-fetched",
    "neutrality warning: undecided guard band 0 < |net| < 1e-12 * sum(b z^2) around the code's 1e-14 "
    "float tolerance; warnings observed = UserWarnings whose text contains 'charge neutral'",
    "molalities are exact multiples of 1e-12 mol/kg in the spec; floats handed to the code are the "
    "correctly rounded doubles of those decimals; ionic strength compared with rtol 1e-12",
    "unit names in the spec are bound to `quantities` units in harness/physq.py",
]

WARN_WORDS = ("charge neutral",)


# ------------------------------------------------------------------ part 1: ionic strength
def _mag(b_int, exp10):
    return float(Fraction(b_int) * Fraction(10) ** exp10)


def _registry(subs, keys):
    """the registry order the form prescribes (spec: Electrolytes!Registry) - list surgery only"""
    keys = list(keys)
    if subs.get("order") == "rev":
        keys = keys[::-1]
    elif subs.get("order") == "rot" and len(keys) > 1:
        keys = keys[1:] + keys[:1]
    return ([subs["front"]] if subs.get("front") else []) + keys + ([subs["back"]] if subs.get("back") else [])


def _substances_arg(form, keys, factory=None):
    """the `substances` argument of a mapping form: not given / string of keys / key -> Substance"""
    subs = form.get("subs") or {"kind": "none"}
    if subs["kind"] == "none":
        return {}
    reg = _registry(subs, keys)
    if subs["kind"] == "str":
        return {"substances": " ".join(reg)}
    from collections import OrderedDict
    from chempy import Substance
    return {"substances": OrderedDict((k, (factory or Substance.from_formula)(k)) for k in reg)}


class _Sub(object):
    """what a user-supplied substance_factory returns: an object with a charge"""
    def __init__(self, charge):
        self.charge = charge


def _call_ions(ions, keys, form, fkeys=()):
    """ions: [(b_int, z)]; returns the observation dict (value in mol/kg)."""
    from chempy.electrolytes import ionic_strength
    from chempy.units import default_units as u
    import numpy as np
    f = form["form"]
    zs = [z for _, z in ions]
    opts = form.get("opts") or {}
    okw = {}
    if opts.get("warn", "default") != "default":
        okw["warn"] = opts["warn"] == "on"
    if opts.get("ukw"):
        okw["units"] = u
    if opts.get("factory"):  # opaque keys; the charges come from the factory
        keys = list(fkeys)
        table = dict(zip(keys, zs))
        okw["substance_factory"] = lambda k: _Sub(table[k])
    subs = form.get("subs") or {}
    alias = subs.get("kind") == "aliasdict"
    if alias:  # the mapping is keyed by the alias names; the registry maps alias -> real Substance
        from collections import OrderedDict
        from chempy import Substance
        formula_of = dict(zip(fkeys, keys))
        keys = list(fkeys)
        alias_reg = OrderedDict((k, Substance.from_formula(formula_of[k])) for k in _registry(subs, keys))
    if f == "list":
        args = ([_mag(b, form["exp10"]) for b, _ in ions], zs)
        kw = {}
    elif f == "nparray":
        args = (np.array([_mag(b, form["exp10"]) for b, _ in ions]), np.array(zs, dtype=int))
        kw = {}
    elif f == "qarray":
        args = (np.array([_mag(b, form["exp10"]) for b, _ in ions]) * physq.UNITS[form["unit"]], zs)
        kw = {}
    elif f == "qlist":
        args = ([_mag(b, form["exp10"]) * physq.UNITS[form["unit"]] for b, _ in ions], zs)
        kw = {}
    elif f == "qmixed":
        ms = []
        for i, (b, _) in enumerate(ions):
            if i % 2 == 0:
                ms.append(_mag(b, form["exp10"]) * physq.UNITS[form["unit"]])
            else:
                ms.append(_mag(b, form["exp10b"]) * physq.UNITS[form["unit2"]])
        args = (ms, zs)
        kw = {}
    elif f == "dict":
        from collections import OrderedDict
        args = (OrderedDict((k, _mag(b, form["exp10"])) for k, (b, _) in zip(keys, ions)),)
        kw = {"substances": alias_reg} if alias else _substances_arg(form, keys, okw.get("substance_factory"))
    elif f == "qdict":
        from collections import OrderedDict
        d = OrderedDict()
        for i, (k, (b, _)) in enumerate(zip(keys, ions)):
            if i % 2 == 0:
                d[k] = _mag(b, form["exp10"]) * physq.UNITS[form["unit"]]
            else:
                d[k] = _mag(b, form["exp10b"]) * physq.UNITS[form["unit2"]]
        args = (d,)
        kw = {"substances": alias_reg} if alias else _substances_arg(form, keys, okw.get("substance_factory"))
    else:
        raise core.MachineryFailure("unknown form %r" % (f,))
    kw = dict(kw, **okw)
    before = physq.snapshot((args, {k: v for k, v in kw.items() if k != "substance_factory"}))
    if opts.get("twice"):  # an earlier call with the very same argument objects
        physq.observe(lambda: ionic_strength(*args, **kw), WARN_WORDS)
    o = physq.observe(lambda: ionic_strength(*args, **kw), WARN_WORDS)
    after = physq.snapshot((args, {k: v for k, v in kw.items() if k != "substance_factory"}))
    out = dict(raised=o["raised"], exc=o["exc"], warned=o["warned"], messages=o["messages"][:1], value=None,
               inputs_unchanged=(before == after))
    if not o["raised"]:
        try:
            out["value"] = physq.magnitude_in(o["value"], "mol/kg")
            out["has_unit"] = physq.is_quantity(o["value"])
        except Exception as e:
            out["raised"] = True
            out["exc"] = "projection: %s: %s" % (type(e).__name__, e)
    return out


def _form_name(form):
    subs = (form.get("subs") or {}).get("kind", "none")
    opts = form.get("opts") or {}
    return form["form"] + (":" + form["unit"] if form["unit"] != "none" else "") + \
        ("+substances-" + subs if subs != "none" else "") + \
        ("+warn-" + opts["warn"] if opts.get("warn", "default") != "default" else "") + \
        ("+units-kw" if opts.get("ukw") else "") + ("+factory" if opts.get("factory") else "") + \
        ("+twice" if opts.get("twice") else "")


def _judge_ions(obs, exp, form):
    """which clause of the expectation fails, or None"""
    if obs["raised"]:
        return "raised"
    want = Fraction(physq.limbs_to_int(exp["twiceI_pico"]), 2 * 10 ** 12)
    rtol = 10.0 ** exp["rtol_exp10"]
    if not physq.close(obs["value"], float(want), rtol):
        return "value"
    if form["unit"] != "none" and not obs.get("has_unit"):
        return "unit-lost"
    if exp.get("inputs_unchanged") and not obs.get("inputs_unchanged", True):
        return "input-mutated"
    want_warn = exp.get("warn_off", "no") if (form.get("opts") or {}).get("warn") == "off" else exp["warn"]
    if want_warn == "yes" and not obs["warned"]:
        return "missing-warning"
    if want_warn == "no" and obs["warned"]:
        return "spurious-warning"
    return None


def replay_ion_case(case):
    ions = [(physq.limbs_to_int(i["b"]), i["z"]) for i in case["in"]["ions"]]
    bad = []
    n = 0
    for form in case["in"]["forms"]:
        obs = _call_ions(ions, case["in"]["keys"], form, case["in"].get("fkeys", ()))
        n += 1
        why = _judge_ions(obs, case["exp"], form)
        if why:
            bad.append((_form_name(form), why, obs))
    return n, bad


def _ion_expected_view(exp):
    return dict(I=str(Fraction(physq.limbs_to_int(exp["twiceI_pico"]), 2 * 10 ** 12)), warn=exp["warn"],
                rtol="1e%d" % exp["rtol_exp10"])


# ------------------------------------------------------------------ part 2: DH terms
def _expected_value(exp):
    if exp["st"] == "q":
        return float(physq.frac(exp["q"]))
    return float(terms.eval_term(exp["term"], {}, prec=30))


def _backend(name):
    return {"default": None, "math": math, "sympy": "sympy"}[name]


def _make(value, arg, mode):
    """physq.make, or a two-element array of it for the array-valued configurations"""
    x = physq.make(value, arg)
    if mode["mode"] != "nparray":
        return x
    import numpy as np
    if physq.is_quantity(x):
        return np.array([float(x.magnitude)] * 2) * x.units
    return np.array([x, x])


def _call_dh(case, mode, omit=()):
    if mode.get("alias"):  # the deprecated alias module (import warns; the functions must be the same)
        import warnings as _w
        with _w.catch_warnings():
            _w.simplefilter("ignore")
            import chempy.debye_huckel as el
    else:
        import chempy.electrolytes as el
    from chempy.units import default_units as u, default_constants as consts
    kind = case["in"]["kind"]
    pt = case["in"]["pt"]
    F = physq.frac
    if kind in ("lim", "ext", "dav"):
        IS = _make(F(pt["IS"]), mode["IS"], mode)
        I0 = physq.make(F(pt["I0"]), mode["I0"])
        z = int(F(pt["z"]))
        A = float(F(pt["A"]))
        be = _backend(mode["backend"])
        kw = {"backend": be}
        if "I0" not in omit:
            kw["I0"] = I0
        if kind != "lim" and "C" not in omit:
            kw["C"] = float(F(pt["C"]))
        if kind == "lim":
            fn = lambda: el.limiting_log_gamma(IS, z, A, **kw)
        elif kind == "ext":
            a = physq.make(F(pt["a"]), mode["a"])
            B = physq.make(F(pt["B"]), mode["B"])
            fn = lambda: el.extended_log_gamma(IS, z, a, A, B, **kw)
        else:
            fn = lambda: el.davies_log_gamma(IS, z, A, **kw)
        unit = "1"
    elif kind in ("A", "B"):
        T = _make(F(pt["T"]), mode["T"], mode)
        rho = _make(F(pt["rho"]), mode["rho"], mode)
        eps = float(F(pt["eps"]))
        f = el.A if kind == "A" else el.B
        kw = {}
        if "b0" not in omit:
            kw["b0"] = physq.make(F(pt["b0"]), mode["b0"])
        if mode.get("backend", "default") != "default":
            kw["backend"] = _backend(mode["backend"])
        if mode["mode"] not in ("plain", "nparray") or mode.get("consts") or mode.get("uobj"):
            kw["constants"] = consts if mode["consts"] else None
            kw["units"] = u if mode.get("uobj", True) else None
        fn = lambda: f(eps, T, rho, **kw)
        unit = "1" if kind == "A" else "1/m"
    else:
        IS = float(F(pt["IS"]))
        nus = [float(F(x)) for x in pt["nus"]]
        zs = [int(F(x)) for x in pt["zs"]]
        sizes = [float(Fraction(int(x)) * Fraction(10) ** case["in"]["size_exp10"]) for x in pt["pm"]]
        T, eps, rho = float(F(pt["T"])), float(F(pt["eps"])), float(F(pt["rho"]))
        be = _backend(mode["backend"])
        ckw = {} if ("C" in omit or kind == "lap") else {"C": float(F(pt["C"]))}
        if mode["mode"] in ("class", "classreuse"):
            conc = [float(F(x)) for x in case["in"]["conc"]]
            before = [float(F(x)) for x in case["in"].get("conc_before", [])]
            reuse = mode["mode"] == "classreuse"
            if not conc or kind == "dap":
                return None
            if kind == "lap":
                mk = lambda: el.LimitingDebyeHuckelActivityProduct(nus, zs, T, eps, rho)
            else:
                cargs = (ckw["C"],) if ckw else ()
                mk = lambda: el.ExtendedDebyeHuckelActivityProduct(nus, zs, sizes, T, eps, rho, *cargs)

            def fn():
                obj = mk()
                if reuse:
                    obj(before)  # an earlier call of the same instance
                return obj(conc)
        elif kind == "lap":
            fn = lambda: el.limiting_activity_product(IS, nus, zs, T, eps, rho, backend=be)
        elif kind == "eap":
            fn = lambda: el.extended_activity_product(IS, nus, zs, sizes, T, eps, rho, backend=be, **ckw)
        else:
            fn = lambda: el.davies_activity_product(IS, nus, zs, sizes, T, eps, rho, backend=be, **ckw)
        unit = "1"
    o = physq.observe(fn, WARN_WORDS)
    out = dict(raised=o["raised"], exc=o["exc"], value=None, dims=None)
    if not o["raised"]:
        try:
            v = o["value"]
            if mode["mode"] == "nparray":  # every element of an array-valued result is judged
                import numpy as np
                if np.size(v) != 2:
                    raise ValueError("array-valued input gave a result of size %d" % np.size(v))
                out["dims"] = physq.dims(v)
                out["value2"] = physq.magnitude_in(v[1], unit) if out["dims"] is not None else float(v[1])
                v = v[0]
            out["dims"] = physq.dims(v) if mode["mode"] != "nparray" else out["dims"]
            out["value"] = physq.magnitude_in(v, unit) if (out["dims"] is not None) else float(v)
        except Exception as e:  # the result cannot be expressed in the documented unit
            out["projection_failed"] = True
            out["exc"] = "projection: %s: %s" % (type(e).__name__, e)
    return out


def _mode_name(mode):
    return mode["mode"] + ("+constants" if mode.get("consts") else "") + \
        ("-unitsarg" if mode.get("consts") and not mode.get("uobj", True) else "") + \
        ("+" + mode["backend"] if mode.get("backend", "default") != "default" else "") + \
        ("+defaults-implicit" if mode.get("implicit") else "") + ("+alias-module" if mode.get("alias") else "")


def replay_dh_case(case):
    exp = case["exp"]
    want = _expected_value(exp)
    rtol = float(physq.frac(exp["rtol"]))
    bad = []
    n = 0
    omits = case["in"].get("omits") or [[] for _ in case["in"]["modes"]]
    for mode, omit in zip(case["in"]["modes"], omits):
        obs = _call_dh(case, mode, omit)
        if obs is None:
            continue
        n += 1
        why = None
        if obs["raised"]:
            why = "raised"
        elif obs.get("projection_failed") or (
                obs["dims"] is not None and sorted(map(list, obs["dims"])) != sorted([d[0], float(d[1])] for d in exp["dim"])):
            why = "dimension"
        elif not physq.close(obs["value"], want, rtol, atol=0.0) or (
                "value2" in obs and not physq.close(obs["value2"], want, rtol, atol=0.0)):
            why = "value"
        if why:
            obs = dict(obs)
            obs["expected_value"] = want
            bad.append((_mode_name(mode), why, obs))
    return n, bad


def replay_case(case):
    if case["in"]["kind"] == "ions":
        return replay_ion_case(case)
    return replay_dh_case(case)


def _expected_view(case):
    if case["in"]["kind"] == "ions":
        return _ion_expected_view(case["exp"])
    return dict(value=_expected_value(case["exp"]), rtol=case["exp"]["rtol"], exact=case["exp"]["st"] == "q",
                dim=case["exp"]["dim"])


def _short_in(case):
    i = case["in"]
    if i["kind"] == "ions":
        return dict(kind="ions", ions=[[physq.limbs_to_int(x["b"]), x["z"]] for x in i["ions"]], hist=i["hist"])
    return dict(kind=i["kind"], pt={k: v for k, v in i["pt"].items() if k != "kind"})


# ------------------------------------------------------------------ seeded traces (code -> spec)
_FORMS = [
    dict(form="list", unit="none", exp10=-12, unit2="none", exp10b=-12),
    dict(form="qarray", unit="mmol/kg", exp10=-9, unit2="mmol/kg", exp10b=-9),
    dict(form="qmixed", unit="mol/g", exp10=-15, unit2="umol/kg", exp10b=-6),
]


def gen_trace(rng):
    """a seeded ion list + history as trace events (structure only; no value is computed here)"""
    n = rng.randint(1, 8)
    ions = []
    style = rng.random()
    for _ in range(n):
        mant = rng.choice([1, 2, 5, rng.randint(1, 9999)])
        e = rng.randint(-12, 0) if style < 0.6 else rng.choice([-3, -2])
        ions.append([mant * 10 ** (12 + e), rng.choice([-4, -3, -2, -1, 1, 2, 3, 4, 0] if rng.random() < 0.2
                                                      else [-2, -1, 1, 2])])
    if style >= 0.6 and n >= 2:
        # try to close the charge balance exactly with the last ion (structure: integer division)
        net = sum(b * z for b, z in ions[:-1])
        z = ions[-1][1]
        if z != 0 and net * z < 0 and (-net) % z == 0:
            ions[-1][0] = (-net) // z
    evs = [{"k": "add", "b": physq.int_to_limbs(b), "z": z} for b, z in ions]
    cur = [list(x) for x in ions]
    for _ in range(rng.randint(0, 3)):
        r = rng.random()
        if r < 0.4 and len(cur) >= 2:
            i, j = sorted(rng.sample(range(1, len(cur) + 1), 2))
            cur[i - 1], cur[j - 1] = cur[j - 1], cur[i - 1]
            evs.append({"k": "permute", "i": i, "j": j})
        elif r < 0.7:
            pairs = [(i, j) for i in range(1, len(cur) + 1) for j in range(i + 1, len(cur) + 1)
                     if cur[i - 1][1] == cur[j - 1][1]]
            if pairs:
                i, j = rng.choice(pairs)
                cur[i - 1][0] += cur[j - 1][0]
                del cur[j - 1]
                evs.append({"k": "merge", "i": i, "j": j})
        else:
            f = rng.choice([2, 3, 7, 10, 1000])
            for x in cur:
                x[0] *= f
            evs.append({"k": "scale", "f": f})
    evs.append({"k": "finish"})
    return evs, cur, rng.choice(_FORMS)


def run_trace(item):
    evs, final, form = item
    obs = _call_ions([(b, z) for b, z in final], [], form)
    if obs["raised"]:
        return None, obs
    # TOTAL encoding: whatever the code returned travels to TLC; nan / inf / negative / non-numbers
    # get ok=False (an observation that equals no expectation -> verdict reject, clause unencodable-value)
    ok, twice = physq.quantise(obs["value"], 18, bound=None)
    twice *= 2
    if ok and twice < 0:
        ok, twice = False, 0
    res = {"k": "result", "ok": ok, "twice": physq.int_to_limbs(twice), "warned": obs["warned"], "form": _form_name(form),
           "final": [{"b": physq.int_to_limbs(b), "z": z} for b, z in final]}
    return evs + [res], obs


# ------------------------------------------------------------------ driver
ION_ACTIONS = ["GenAddIon", "GenPermute", "GenMerge", "GenScaleAll", "Finish"]
SLICES_Q = [("Electrolytes_MC", "ions_q", ION_ACTIONS, 500),
            ("Electrolytes_MC", "dh_q", ["GenChooseDH"], 330)]
SLICES_T = [("Electrolytes_MC", "ions_q", ION_ACTIONS, 2000),
            ("Electrolytes_MC", "ions_t", [], 2000),
            ("Electrolytes_MC", "ionsw_t", [], 2000),
            ("Electrolytes_MC", "ions4_t", [], 2000),
            ("Electrolytes_MCT", "dh_t", ["GenChooseDH"], 5000)]
DH_CLASSES = {"lim-q", "lim-irr", "ext-q", "ext-irr", "dav-q", "dav-irr", "A-irr", "B-irr", "lap-irr", "eap-irr",
              "dap-irr", "eap-irr-samez", "eap-irr-neutral", "lap-irr-samez", "dap-irr-neutral", "dap-irr-c", "eap-irr-c",
              "dap-irr-samez-c", "eap-irr-neutral-c"}


def _nontrivial(case):
    i = case["in"]
    if i["kind"] == "ions":
        return len(i["ions"]) >= 2 and case["exp"]["twiceI_pico"] != []
    if i["kind"] in ("A", "B"):
        return True
    return physq.frac(i["pt"]["IS"]) != 0


def run(ctx):
    import chempy  # noqa
    total_cases = 0
    for module, sl, actions, cap in (SLICES_Q if ctx.quick else SLICES_T):
        cfg = "Electrolytes_MC_%s.cfg" % sl
        res = ctx.tlc(module, cfg, require_actions=actions, require_cases=20, timeout=1500, java_opts=JAVA_OPTS)
        table = [c for c in res.cases if c["in"]["kind"] == "formtable"]
        cases = [c for c in res.cases if c["in"]["kind"] != "formtable"]
        if sl.startswith("ions"):
            if len(table) != 1:
                raise core.MachineryFailure("slice %s exported %d form tables" % (sl, len(table)))
            for c in cases:  # the forms of a case: the first `nforms` entries of the exported table
                c["in"]["forms"] = table[0]["in"]["forms"][:c["in"]["nforms"]]
        total_cases += len(cases)
        classes = sorted({c["cls"] for c in cases})
        ctx.counters["classes_" + sl] = len(classes)
        if sl.startswith("ions"):
            # the guard band needs three ions (two opposite charges that cancel + a trace ion)
            need = {"I-neutral", "I-charged"} | ({"I-band"} if sl != "ionsw_t" else set())
            have = {"-".join(c.split("-")[:2]) for c in classes}
            if not need <= have:
                raise core.MachineryFailure("vacuity: slice %s lacks classes %s" % (sl, sorted(need - have)))
        if sl.startswith("dh") and not (DH_CLASSES <= set(classes)):
            raise core.MachineryFailure("vacuity: slice %s lacks classes %s" % (sl, sorted(DH_CLASSES - set(classes))))
        # quick: every neutral / guard-band case of the (small) slice is replayed; thorough slices are
        # large, there the stratified sample keeps every class represented
        sel = ctx.pick(cases, cap, always=lambda c: ctx.quick and (c["cls"].startswith("I-neutral")
                                                                   or c["cls"].startswith("I-band")))
        outs = ctx.pmap(replay_case, sel)
        ctx.cases_replayed += len(sel)
        for case, (n, bad) in zip(sel, outs):
            ident = core.stable_hash(_short_in(case))
            ctx.ran(ident, nontrivial=_nontrivial(case), n=max(n, 1))
            for form, why, obs in bad:
                fn = "ionic_strength" if case["in"]["kind"] == "ions" else case["in"]["kind"]
                ctx.violation({"fn": fn, "mode": form, "clause": why, "cls": case["cls"]},
                              {"direction": "spec->code", "case": case, "observed": obs,
                               "expected": _expected_view(case), "tlc_cfg": cfg, "form": form})
        if sel:
            ctx.sample({"slice": sl, "in": _short_in(sel[0]), "exp": _expected_view(sel[0])}, cap=8)
    ctx.exhaustive = not ctx.quick
    ctx.counters["tlc_cases"] = total_cases

    # ---- code -> spec: seeded ion lists beyond the bounds, judged by TLC
    n = 600 if ctx.quick else 4000
    items = [gen_trace(ctx.rng) for _ in range(n)]
    outs = ctx.pmap(run_trace, items)
    traces, keep = [], []
    for item, (tr, o) in zip(items, outs):
        if tr is None:
            ctx.violation({"fn": "ionic_strength", "mode": _form_name(item[2]), "clause": "raised"},
                          {"direction": "code->spec", "trace": item[0], "observed": o, "verdict": "call raised"})
            continue
        traces.append(tr)
        keep.append(o)
    verdicts = ctx.validate_traces("ElectrolytesTrace", "ElectrolytesTrace.cfg", traces)
    for tr, o, (v, pos, clause) in zip(traces, keep, verdicts):
        ctx.ran(core.stable_hash(tr[:-1] + [tr[-1]["form"]]), nontrivial=len(tr) > 3)
        if v == "accept":
            continue
        if clause.startswith("step:") or clause in ("notdone", "no-result-event", "final-list"):
            raise core.MachineryFailure("generated trace outside the model: %s at %d: %r" % (clause, pos, tr))
        ctx.violation({"fn": "ionic_strength", "mode": tr[-1]["form"], "clause": clause},
                      {"direction": "code->spec", "trace": tr, "observed": o,
                       "verdict": {"verdict": v, "pos": pos, "clause": clause}, "tlc_cfg": "ElectrolytesTrace.cfg"})
    if traces:
        ctx.sample({"trace": traces[0]}, cap=8)


def replay(ctx, rec):
    if rec.get("direction") == "spec->code":
        n, bad = replay_case(rec["case"])
        for form, why, obs in bad:
            if form == rec.get("form", form):
                ctx.violation(rec["key"], {"observed": obs, "expected": _expected_view(rec["case"])})
    else:
        tr = rec["trace"]
        evs = [e for e in tr if e["k"] != "result"]
        final = [(physq.limbs_to_int(x["b"]), x["z"]) for x in tr[-1]["final"]] if tr and tr[-1]["k"] == "result" else None
        if final is None:
            raise core.MachineryFailure("replay record without a result event")
        form = [f for f in _FORMS if _form_name(f) == tr[-1]["form"]][0]
        tr2, o = run_trace((evs, [list(x) for x in final], form))
        if tr2 is None:
            ctx.violation(rec["key"], {"observed": o, "verdict": "call raised"})
            return
        v, pos, clause = ctx.validate_traces("ElectrolytesTrace", "ElectrolytesTrace.cfg", [tr2])[0]
        if v != "accept":
            ctx.violation(rec["key"], {"observed": o, "verdict": {"verdict": v, "pos": pos, "clause": clause}})
