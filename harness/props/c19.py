"""C19 - physical-chemistry relations give unit-independent values in their valid ranges.

spec/PhysProps.tla (+ PhysProps_MC / _MCT point sets, PhysPropsTrace).  Directions:
  spec -> code : every terminal state Choose(fn, args); Call(mode) is a case: the arguments as
                 handed over in that mode (magnitude + unit per argument), the expected value in
                 the documented result unit (exact decimal quotient, exact rational, or an
                 instantiated term evaluated by harness/terms.py), the tolerance, the result
                 dimension and the warning class.  The case is replayed through the real function.
  code -> spec : the values the code returns along the spec's temperature grids (unitless mode) are
                 quantised and handed to TLC (PhysPropsTrace), which replays Choose/Call for every
                 sample and judges the exact laws, the anchors and the shape facts (density
                 maximum near 4 C, viscosity and permittivity falling) on the OBSERVED series.
"""
from fractions import Fraction

import core
import physq
import terms

LEVEL = "exploration"
# nested term evaluation (EvalQR over product terms) is deep recursion for TLC: give its threads room
JAVA_OPTS = ["-Xss64m"]
RULE = ("cases = terminal states (relation, point, mode) of the PhysProps_MC point sets replayed through the "
        "real functions + observed series judged by PhysPropsTrace; distinct = distinct (relation, arguments, "
        "mode); every case is non-trivial (a relation evaluated at a grid point in one call mode)")
ASSUMPTIONS = [
    "literature coefficients (Tanaka 2001, Korson 1969, Holz 2000, Bradley & Pitzer 1979, Myhre 1998, Schumpe "
    "1993 subset) and physical constants (R, F, e, k_B: CODATA 2014) are pinned in spec/PhysProps.tla, typed "
    "from the chempy docstrings / modules that cite them - they cannot be re-fetched offline; anchor values "
    "are the table values quoted in the repository's tests and docstrings",
    "validity ranges are the documented ones (docstrings / warning texts); pressure for the permittivity "
    "correlation counts as inside up to 2000 bar, the warning clause is only decided on the temperature",
    "range warnings observed = UserWarnings whose text contains 'outside' or 'range' (the fluoride data-quality "
    "warning of lg_solubility_ratio is not a range warning)",
    "tolerances carried in the cases: 1e-9 relative for closed forms, 1e-8 for the degree-10 Myhre polynomial, "
    "1e-5 where a constants object of another CODATA vintage is passed, 0.05 kg/m3 absolute for the fixed-point "
    "inverse (its stopping criterion is 1e-3 kg/m3)",
    "unit names in the spec are bound to `quantities` units in harness/physq.py; scaled temperature means "
    "millikelvin (multiplicative), offset scales are out of the model",
]
WARN_WORDS = ("outside", "range")


def _given(case):
    """`given` as a dict (ToJson writes a function with an empty domain - nothing passed - as [])"""
    g = case["in"]["given"]
    return g if isinstance(g, dict) else {}


def _arg(case, name):
    if name in case.get("_override", ()):  # array-valued input of a series call
        return case["_override"][name]
    g = _given(case)[name]
    mag = float(physq.frac(g["mag"]))
    if case["in"]["mode"]["name"] in ("uarray", "qarray"):  # every argument as a two-element array
        import numpy as np
        mag = np.array([mag, mag])
    val = mag if g["unit"] == "none" else mag * physq.UNITS[g["unit"]]
    case.setdefault("_made", []).append(val)  # kept to observe that the call leaves its inputs unchanged
    return val


def _opt(case, **names):
    """optional arguments: passed (under the code's keyword) only if the case hands them over"""
    return {kw: _arg(case, a) for kw, a in names.items() if a in _given(case)}


def _plain(case, name):
    return physq.frac(case["in"]["args"][name])


_BACKENDS = {"math": lambda: __import__("math"), "numpy": lambda: __import__("numpy"), "sympy": lambda: "sympy"}


def _build(case):
    """the call, as a thunk.  Arguments are passed (by keyword) only if the case hands them over
    (`given`); the `warn` / `backend` keywords only if the case sets them (`opts`)."""
    from chempy.units import default_units as u, default_constants as consts
    i = case["in"]
    fn = i["fn"]
    mode = i["mode"]
    opts = i.get("opts") or {}
    # the units object is passed iff the configuration says so (for relations without a `constants`
    # argument: whenever the inputs are quantities)
    units = u if mode.get("uobj", mode["name"] != "unitless") else None
    wkw = {} if opts.get("warn", "default") == "default" else {"warn": opts["warn"] == "on"}
    bkw = {} if opts.get("backend", "default") == "default" else {"backend": _BACKENDS[opts["backend"]]()}
    if fn == "water_density":
        from chempy.properties.water_density_tanaka_2001 import water_density
        kw = _opt(case, T="T", T0="Tz")
        kw.update(wkw)
        if opts.get("coef"):
            kw["a"] = water_density(just_return_a=True, units=units)
        return lambda: water_density(units=units, **kw)
    if fn == "water_viscosity":
        from chempy.properties.water_viscosity_korson_1969 import water_viscosity
        kw = _opt(case, T="T", eta20="eta20")
        kw.update(wkw)
        return lambda: water_viscosity(units=units, **kw)
    if fn == "water_diffusion":
        from chempy.properties.water_diffusivity_holz_2000 import water_self_diffusion_coefficient
        kw = _opt(case, T="T")
        kw.update(wkw)
        if opts.get("err_mult"):
            kw["err_mult"] = (float(_plain(case, "em0")), float(_plain(case, "em1")))
        return lambda: water_self_diffusion_coefficient(units=units, **kw)
    if fn == "water_permittivity":
        from chempy.properties.water_permittivity_bradley_pitzer_1979 import water_permittivity
        kw = _opt(case, T="T", P="P")
        kw.update(wkw)
        kw.update(bkw)
        if opts.get("coef"):
            kw["U"] = water_permittivity(just_return_U=True, units=units)
        return lambda: water_permittivity(units=units, **kw)
    if fn == "sulfuric_acid_density":
        from chempy.properties.sulfuric_acid_density_myhre_1998 import sulfuric_acid_density
        w = float(_plain(case, "w"))
        kw = _opt(case, T="T", T0="Tz")
        kw.update(wkw)
        return lambda: sulfuric_acid_density(w, units=units, **kw)
    if fn == "density_from_concentration":
        from chempy.properties.sulfuric_acid_density_myhre_1998 import density_from_concentration
        c = i["conc"]
        cval = physq.bigdec(c["bdq"]["num"]) / physq.bigdec(c["bdq"]["den"]) * physq.frac(c["mul"])
        conc = float(cval) if c["unit"] == "none" else float(cval) * physq.UNITS[c["unit"]]
        kw = _opt(case, T="T", atol="atol", molar_mass="M", T0="Tz")  # T0 travels through **kwargs to rho_cb
        kw.update(wkw)
        return lambda: density_from_concentration(conc, units=units, maxiter=60, **kw)
    if fn == "lg_solubility_ratio":
        from collections import OrderedDict
        from chempy.properties.gas_sol_electrolytes_schumpe_1993 import lg_solubility_ratio
        ions = i["names"]["ions"]
        d = OrderedDict((k, _arg(case, a)) for k, a in zip(ions, ("c1", "c2", "c3")))
        gas = i["names"]["gas"]
        return lambda: lg_solubility_ratio(d, gas, units=units, **wkw)
    if fn.startswith("henry"):
        from chempy.henry import Henry, HenryWithUnits, Henry_H_at_T
        T, H0, Td = _arg(case, "T"), _arg(case, "H0"), _arg(case, "Td")
        kw = _opt(case, T0="T0")
        via = opts.get("via", "class")
        if via == "function":  # the module-level function
            if fn != "henry_H":
                raise core.MachineryFailure("via=function only for henry_H")
            return lambda: Henry_H_at_T(T, H0, Td, units=units, **dict(kw, **bkw))
        if via in ("reuse", "unitskw"):
            kw["ref"] = "verif"  # the free-text reference field of the record
        obj = Henry(H0, Td, **kw) if units is None else HenryWithUnits(H0, Td, **kw)
        if via == "plainunits" and units is not None:
            # the plain class given quantities; the units object is passed with every call
            obj = Henry(H0, Td, **kw)
            bkw = dict(bkw, units=units)
        if via == "unitskw" and units is not None:
            bkw = dict(bkw, units=units)  # the units object passed explicitly instead of HenryWithUnits' default
        if via == "reuse":  # the instance has answered for another temperature before
            physq.observe(lambda: obj(T * 1.05), WARN_WORDS)
        if fn == "henry_H":
            if via == "alias":
                return lambda: obj.get_kH_at_T(T, **bkw)
            return lambda: obj(T, **bkw)
        if fn == "henry_c":
            P = _arg(case, "P")
            return lambda: obj.get_c_at_T_and_P(T, P, **bkw)
        if fn == "henry_P":
            c1 = _arg(case, "c1")
            return lambda: obj.get_P_at_T_and_c(T, c1, **bkw)
        P = _arg(case, "P")
        return lambda: obj.get_P_at_T_and_c(T, obj.get_c_at_T_and_P(T, P, **bkw), **bkw)
    if fn == "nernst":
        from chempy.electrochemistry.nernst import nernst_potential
        T, c1, c2 = _arg(case, "T"), _arg(case, "c1"), _arg(case, "c2")
        z = int(_plain(case, "z"))
        k = consts if mode["consts"] else None
        return lambda: nernst_potential(c1, c2, z, T, constants=k, units=units, **bkw)
    if fn == "mobility":
        from chempy.einstein_smoluchowski import electrical_mobility_from_D
        T, D = _arg(case, "T"), _arg(case, "D")
        z = int(_plain(case, "z"))
        k = consts if mode["consts"] else None
        return lambda: electrical_mobility_from_D(D, z, T, constants=k, units=units)
    raise core.MachineryFailure("unknown relation %r" % (fn,))


def _expected_value(exp):
    if exp["kind"] == "q":
        return float(physq.frac(exp["q"]))
    if exp["kind"] == "bdq":
        return float(physq.bigdec(exp["bdq"]["num"]) / physq.bigdec(exp["bdq"]["den"]))
    return float(terms.eval_term(exp["term"], {}, prec=30))


def _dimdict(pairs):
    return {str(k): float(v) for k, v in pairs if abs(float(v)) > 1e-12}


def observe_case(case):
    """call the real function; structural projection of the outcome"""
    thunk = _build(case)
    before = physq.snapshot(case.get("_made", []))
    o = physq.observe(thunk, WARN_WORDS)
    after = physq.snapshot(case.get("_made", []))
    case.pop("_made", None)
    out = dict(raised=o["raised"], exc=o["exc"], warned=o["warned"], messages=o["messages"][:2], value=None,
               dims=None, has_unit=False, inputs_unchanged=(before == after))
    if o["raised"]:
        return out
    v = o["value"]
    out["has_unit"] = physq.is_quantity(v)
    try:
        if out["has_unit"]:
            out["dims"] = physq.dims(v)
            out["repr"] = str(v)[:80]
    except Exception as e:
        out["raised"] = True
        out["exc"] = "projection(dims): %s: %s" % (type(e).__name__, e)
        return out
    out["_raw"] = v
    return out


def judge(case, obs):
    exp = case["exp"]
    mode = case["in"]["mode"]
    if obs["raised"]:
        if exp.get("refusal") and (obs["exc"] or "").startswith(exp["refusal"]):
            return "refused"
        if exp["kind"] == "term":
            try:
                _expected_value(exp)
            except terms.Undefined:
                # the law has no real value at this (out-of-range) point: an arithmetic error of the
                # backend (math.log of a negative number) is as good as numpy's nan; not judged
                return "undefined"
        return "raised"
    v = obs.pop("_raw")
    want_dims = _dimdict(exp["dim"])
    if mode["name"] not in ("unitless", "uarray"):
        have = _dimdict(obs["dims"]) if obs["has_unit"] else {}
        if have != want_dims:
            return "dimension"
    if exp.get("inputs_unchanged") and not obs.get("inputs_unchanged", True):
        return "input-mutated"
    # array-valued call, unless every argument was left at its default (nothing handed over)
    is_arr = mode["name"] in ("uarray", "qarray") and bool(_given(case))
    try:
        if is_arr:  # an array-valued call: two elements, each judged
            import numpy as np
            if np.size(v) != 2:
                obs["exc"] = "array-valued input gave a result of size %d" % np.size(v)
                return "shape"
            obs["value2"] = physq.magnitude_in(v[1], exp["unit"]) if obs["has_unit"] else float(v[1])
            v = v[0]
        obs["value"] = physq.magnitude_in(v, exp["unit"]) if obs["has_unit"] else float(v)
    except Exception as e:
        obs["exc"] = "projection(value): %s: %s" % (type(e).__name__, e)
        return "dimension"
    try:
        want = _expected_value(exp)
    except terms.Undefined:
        # the law has no real value at this (out-of-range) point: only the warning is judged
        want = None
    obs["expected_value"] = want
    if want is not None and not physq.close(obs["value"], want, float(physq.frac(exp["rtol"])),
                                            float(physq.frac(exp["atol"]))):
        return "value"
    if want is not None and "value2" in obs and not physq.close(obs["value2"], want, float(physq.frac(exp["rtol"])),
                                                                float(physq.frac(exp["atol"]))):
        return "value"
    if exp["warn"] == "yes" and not obs["warned"]:
        return "missing-warning"
    if exp["warn"] == "no" and obs["warned"]:
        return "spurious-warning"
    return None


def replay_case(case):
    obs = observe_case(case)
    why = judge(case, obs)
    obs.pop("_raw", None)
    return why, obs


def _key(case, why):
    m = case["in"]["mode"]
    return {"fn": case["in"]["fn"], "mode": m["name"], "constants": "object" if m["consts"] else "none",
            "units_arg": "object" if m.get("uobj", m["name"] != "unitless") else "none",
            "opts": "+".join("%s=%s" % (k, v) for k, v in sorted((case["in"].get("opts") or {}).items())
                             if v not in ("default", "class", False)),
            "clause": why}


def _short_in(case):
    i = case["in"]
    return dict(fn=i["fn"], mode=i["mode"], args=i["args"], sel=i["sel"], impl=i.get("impl", True),
                opts=i.get("opts"),
                given={k: [v["mag"], v["unit"]] for k, v in _given(case).items()})


def _expected_view(case):
    e = case["exp"]
    try:
        val = _expected_value(e)
    except terms.Undefined:
        val = "undefined"
    return dict(value=val, unit=e["unit"], rtol=e["rtol"], atol=e["atol"], dim=e["dim"],
                warn=e["warn"], exact=e["kind"] != "term")


# ------------------------------------------------------------------ observed series (code -> spec)
SERIES = {
    # relation -> (quantum exponent q: y = round(value * 10^q))
    "water_density": 6, "water_viscosity": 8, "water_permittivity": 6, "sulfuric_acid_density": 5,
    "water_diffusion": 15,
}


def series_trace(item):
    """item: (fn, fixed args, [T hundredths...], mode, arr) -> trace events with the observed quantised values.
    arr=False: one call per temperature; arr=True: ONE call with the whole temperature array."""
    import numpy as np
    item = tuple(item) + ("unitless", False)[len(item) - 3:]
    fn, fixed, ts, mode, arr = item[:5]
    unit = {"water_density": "kg/m3", "water_viscosity": "cP", "water_permittivity": "1",
            "sulfuric_acid_density": "kg/m3", "water_diffusion": "m2/s"}[fn]

    def mk(tval, mode=mode):
        args = dict(fixed)
        args["T"] = tval
        given = {}
        for k, v in args.items():
            if k in ("T", "P"):
                given[k] = {"mag": v, "unit": "none" if mode == "unitless" else {"T": "K", "P": "bar"}[k], "mul": [1, 1]}
        return {"in": {"fn": fn, "mode": {"name": mode, "consts": False, "uobj": mode != "unitless"}, "args": args,
                       "sel": 0, "given": given, "names": {"ions": [], "gas": ""}, "conc": None, "opts": {}}}

    evs = []
    if not arr:
        obs = []
        for n, t in enumerate(ts):
            # "alternate": the same relation is called with and without units in turn (history across modes)
            md = mode if mode != "alternate" else ("units" if n % 2 == 0 else "unitless")
            o = physq.observe(_build(mk([t, 100], md)), WARN_WORDS)
            if o["raised"]:
                return None, dict(fn=fn, T=t, exc=o["exc"])
            try:
                obs.append((physq.magnitude_in(o["value"], unit), o["warned"]))
            except Exception as e:  # wrong dimension / not a number: an observation, not a crash
                return None, dict(fn=fn, T=t, exc="projection: %s: %s" % (type(e).__name__, str(e)[:100]))
        warned_call = False
    else:
        case = mk([0, 1])
        tarr = np.array([float(Fraction(t, 100)) for t in ts])
        if mode != "unitless":
            tarr = tarr * physq.UNITS["K"]
        # the array replaces the scalar temperature of the case (structure only)
        case["_override"] = {"T": tarr}
        call = _build(case)
        o = physq.observe(call, WARN_WORDS)
        if o["raised"]:
            return None, dict(fn=fn, T="array", exc=o["exc"])
        v = o["value"]
        try:
            if physq.is_quantity(v):
                r = (v / physq.UNITS[unit]).simplified
                if dict(r.dimensionality):
                    raise ValueError("incompatible dimension %s" % (v.dimensionality,))
                vals = r.magnitude
            else:
                vals = v
            vals = list(np.asarray(vals).ravel())
        except Exception as e:
            return None, dict(fn=fn, T="array", exc="projection: %s: %s" % (type(e).__name__, str(e)[:100]))
        if len(vals) != len(ts):
            return None, dict(fn=fn, T="array", exc="result has %d elements for %d temperatures" % (len(vals), len(ts)))
        obs = [(x, False) for x in vals]
        warned_call = o["warned"]
    for n, (t, (val, w)) in enumerate(zip(ts, obs)):
        ok, y = physq.quantise(val, SERIES[fn])  # total: nan / inf / complex / too large -> ok=False
        md = mode if mode != "alternate" else ("units" if n % 2 == 0 else "unitless")
        evs.append({"k": "sample", "ok": ok, "fn": fn, "mode": md, "arr": bool(arr), "T": [t, 100],
                    "P": fixed.get("P", [0, 1]), "w": fixed.get("w", [0, 1]),
                    "y": y, "qexp": SERIES[fn], "warned": w})
    evs.append({"k": "result", "n": len(ts), "arr": bool(arr), "warned": warned_call})
    return evs, None


# ------------------------------------------------------------------ driver
def run(ctx):
    import chempy  # noqa
    module, cfg = ("PhysProps_MC", "PhysProps_MC_q.cfg") if ctx.quick else ("PhysProps_MCT", "PhysProps_MC_t.cfg")
    res = ctx.tlc(module, cfg, require_actions=["GenChoose", "GenCall"], require_cases=300, timeout=1500,
                  java_opts=JAVA_OPTS)
    catalog = [c for c in res.cases if c["in"]["fn"] == "series-catalog"]
    cases = [c for c in res.cases if c["in"]["fn"] != "series-catalog"]
    if len(catalog) != 1:
        raise core.MachineryFailure("expected one series catalog, got %d" % len(catalog))
    classes = sorted({c["cls"] for c in cases})
    ctx.counters["classes"] = len(classes)
    fns = {c["in"]["fn"] for c in cases}
    if len(fns) < 13:
        raise core.MachineryFailure("vacuity: only %d relations produced cases" % len(fns))
    # every accepted (constants x units object x input form) configuration of the relations taking `constants`
    for f, n_cfg in (("nernst", 13), ("mobility", 10)):
        have = {(c["in"]["mode"]["name"], c["in"]["mode"]["consts"], c["in"]["mode"]["uobj"])
                for c in cases if c["in"]["fn"] == f}
        if len(have) != n_cfg:
            raise core.MachineryFailure("vacuity: %s has %d call configurations, expected %d" % (f, len(have), n_cfg))
    for need in ("Toutside", "inside", "otheroutside"):
        if not any(c.endswith(need) for c in classes):
            raise core.MachineryFailure("vacuity: no case of range class %s" % need)
    outs = ctx.pmap(replay_case, cases)
    ctx.cases_replayed += len(cases)
    seen_fn = set()
    for case, (why, obs) in zip(cases, outs):
        ctx.ran(core.stable_hash(_short_in(case)))
        if why == "refused":
            ctx.skip("documented-refusal (NoConvergence) accepted by the spec at this point")
            continue
        if why == "undefined":
            ctx.skip("law-undefined-at-point: the call raised (backend domain error); not judged")
            continue
        if not why and not obs["raised"] and obs.get("expected_value") is None:
            ctx.skip("law-undefined-at-point: value not judged (warning judged)")
        if why:
            ctx.violation(_key(case, why), {"direction": "spec->code", "case": case, "observed": obs,
                                            "expected": _expected_view(case), "tlc_cfg": cfg})
        elif case["in"]["fn"] not in seen_fn and case["in"]["mode"]["name"] != "unitless":
            seen_fn.add(case["in"]["fn"])
            ctx.sample({"in": _short_in(case), "exp": _expected_view(case),
                        "observed": {k: obs.get(k) for k in ("value", "dims", "warned")}}, cap=14)
    ctx.exhaustive = True

    # ---- code -> spec: observed series judged by TLC
    step = 250 if ctx.quick else 50
    items = [
        ("water_density", {}, list(range(27315, 31315 + 1, step))),
        ("water_density", {}, [27315, 27715, 28315, 28815, 29315, 29815, 30315, 31315]),
        ("water_viscosity", {}, list(range(27315, 37315 + 1, 2 * step))),
        ("water_permittivity", {"P": [1, 1]}, list(range(27315, 62315 + 1, 4 * step))),
        ("water_permittivity", {"P": [1000, 1]}, list(range(27315, 62315 + 1, 4 * step))),
        ("sulfuric_acid_density", {"w": [1, 2]}, list(range(27315, 32315 + 1, 2 * step))),
        ("sulfuric_acid_density", {"w": [1, 10]}, [27315, 29800, 32315]),
        # the same series in default units, and as ONE array-valued call (plain and with units),
        # including arrays that leave the validity range (a warning for the whole call)
        ("water_density", {}, list(range(27315, 31315 + 1, 2 * step)), "units", False),
        ("water_density", {}, list(range(27315, 31315 + 1, 2 * step)), "alternate", False),
        ("water_viscosity", {}, list(range(27315, 37315 + 1, 4 * step)), "alternate", False),
        ("water_diffusion", {}, list(range(27315, 37315 + 1, 4 * step)), "alternate", False),
        ("water_permittivity", {"P": [1, 1]}, list(range(27315, 62315 + 1, 8 * step)), "alternate", False),
        ("sulfuric_acid_density", {"w": [1, 2]}, list(range(27315, 32315 + 1, 4 * step)), "alternate", False),
        ("water_density", {}, list(range(27315, 31315 + 1, step)), "unitless", True),
        ("water_density", {}, list(range(27315, 31315 + 1, 2 * step)) + [31400, 32000], "units", True),
        ("water_viscosity", {}, list(range(27315, 37315 + 1, 2 * step)), "units", True),
        ("water_viscosity", {}, [27000] + list(range(27315, 37315 + 1, 4 * step)), "unitless", True),
        ("water_permittivity", {"P": [1, 1]}, list(range(27315, 62315 + 1, 4 * step)), "units", True),
        ("water_permittivity", {"P": [1000, 1]}, list(range(27315, 62315 + 1, 8 * step)) + [63000], "unitless", True),
    ]
    # array-valued calls from the spec's catalog (every below / inside / above combination of each
    # documented range), in plain numbers and as quantity arrays
    pats = set()
    for ent in catalog[0]["in"]["series"]:
        fixed = {"P": ent["P"]} if ent["fn"] == "water_permittivity" else {}
        pats.add(ent["pat"])
        for md in ("unitless", "units"):
            items.append((ent["fn"], fixed, list(ent["Ts"]), md, True))
    if not {"inside", "below+inside", "inside+above", "below+upper-half"} <= pats:
        raise core.MachineryFailure("vacuity: series catalog lacks patterns: %s" % sorted(pats))
    traces = []
    for it in items:
        tr, err = series_trace(it)
        if tr is None:
            ctx.violation({"fn": it[0], "mode": (it[3] if len(it) > 3 else "unitless") + ("+array" if len(it) > 4 and it[4] else ""),
                           "constants": "none", "clause": "raised"},
                          {"direction": "code->spec", "trace": [], "observed": err, "verdict": "call raised"})
            continue
        traces.append(tr)
    verdicts = ctx.validate_traces("PhysPropsTrace", "PhysPropsTrace.cfg", traces)
    for tr, (v, pos, clause) in zip(traces, verdicts):
        ctx.ran(core.stable_hash([tr[0]["fn"], tr[0]["P"], tr[0]["w"], tr[0]["mode"], tr[0]["arr"], len(tr)]), n=len(tr) - 1)
        if v == "accept":
            continue
        if clause.startswith("step:") or clause in ("no-result-event", "count"):
            raise core.MachineryFailure("series trace outside the model: %s at %d" % (clause, pos))
        ctx.violation({"fn": tr[0]["fn"], "mode": tr[0].get("mode", "unitless") + ("+array" if tr[0].get("arr") else ""),
                       "constants": "none", "clause": clause},
                      {"direction": "code->spec", "trace": tr, "observed": tr[min(pos, len(tr)) - 1],
                       "verdict": {"verdict": v, "pos": pos, "clause": clause}, "tlc_cfg": "PhysPropsTrace.cfg"})
    if traces:
        ctx.sample({"series": traces[0][:3]}, cap=16)


def replay(ctx, rec):
    if rec.get("direction") == "spec->code":
        why, obs = replay_case(rec["case"])
        if why and why not in ("refused", "undefined"):
            ctx.violation(rec["key"], {"observed": obs, "expected": _expected_view(rec["case"])})
    else:
        tr = rec["trace"]
        if not tr:
            raise core.MachineryFailure("empty series trace in replay record")
        fixed = {}
        if tr[0]["fn"] == "water_permittivity":
            fixed["P"] = tr[0]["P"]
        if tr[0]["fn"] == "sulfuric_acid_density":
            fixed["w"] = tr[0]["w"]
        tr2, err = series_trace((tr[0]["fn"], fixed, [e["T"][0] for e in tr if e["k"] == "sample"],
                                 tr[0].get("mode", "unitless"), tr[0].get("arr", False)))
        if tr2 is None:
            ctx.violation(rec["key"], {"observed": err, "verdict": "call raised"})
            return
        v, pos, clause = ctx.validate_traces("PhysPropsTrace", "PhysPropsTrace.cfg", [tr2])[0]
        if v != "accept":
            ctx.violation(rec["key"], {"observed": tr2[min(pos, len(tr2)) - 1],
                                       "verdict": {"verdict": v, "pos": pos, "clause": clause}})
