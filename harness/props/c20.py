# -*- coding: utf-8 -*-
"""C20 - printed numbers and parameters denote the value they were given.

spec/Numbers.tla (+ Decimal.tla, Numbers_MC slices, NumbersTrace).  Directions:
  spec -> code : every terminal state of the exhaustive slices (<= 3 digits x decades -6..6, the
                 +-300 decades slice, precisions 1..4; the uncertainty slice; Roman 1..3999) is a
                 case; it is fed to number_to_scientific_latex/unicode/html (and, for 3 digits,
                 to Reaction.string(with_param=True)); the un-presented output must be one of the
                 roundings TLC lists (exact comparison of digit sequences) ...
  code -> spec : ... and every observation - of the cases above and of seeded 15-digit floats
                 over +-300 decades, precisions 1..10, uncertainties 1e-8..0.5 relative,
                 quantities in compound units - is judged by TLC (NumbersTrace: NumberOK /
                 UncertOK / RomanOK on exact decimals).
"""
import math

import numbers_common as nc

LEVEL = "model_checking"
RULE = ("cases = terminal states of the Numbers_MC slices (TLC) and seeded calls, each judged by TLC "
        "(NumbersTrace); distinct = distinct (function, value, precision/uncertainty, unit) calls; "
        "non-trivial = the value has at least two significant digits or is rounded / carries a unit / "
        "an uncertainty / is a Roman numeral above 10")
ASSUMPTIONS = [
    "a float is identified with the exact decimal of its repr(); TLC allows one unit of the 15th significant "
    "digit (DBL_DIG) for the binary representation and the formatter's float arithmetic (Decimal!BinSlack)",
    "the unit text expected after the number is the text the same unit renders to on its own "
    "(latex_of_unit / unicode_of_unit / html_of_unit / str(dimensionality)); unit rendering itself is not judged here",
    "the length of an uncertainty layout is measured in the plain 'e' notation (3.142(3)e9) also when the "
    "power of ten is presented as LaTeX / Unicode / HTML",
]

KINDS = ("latex", "unicode", "html")
ALLK = ("latex", "unicode", "html", "plain")
QUICK = ["small_q", "decades_q", "uncert_q", "conv_q", "opts_q", "roman"]
THOROUGH = ["small_t", "decades_t", "uncert_t", "conv_q", "opts_q", "roman"]


# ---------------------------------------------------------------- calling chempy
def _fn(kind):
    from chempy.printing import numbers as N
    return {"latex": N.number_to_scientific_latex, "unicode": N.number_to_scientific_unicode,
            "html": N.number_to_scientific_html}[kind]


def _pq():
    import quantities
    return quantities


def _unit(name):
    from chempy.units import default_units as u
    return {
        "m/s": u.m / u.s,
        "mol/dm3/s": u.mol / u.dm3 / u.s,
        "1/M/s": 1 / u.molar / u.s,
        "kg*m2/s2": u.kg * u.m ** 2 / u.s ** 2,
        "J/K/mol": u.joule / u.kelvin / u.mol,
        "1/s": 1 / u.s,
        "M": u.molar,
        # units of the conversion table of spec/Numbers.tla (ConvTable)
        "km": u.km, "m": u.m, "cm": u.cm, "mm": u.mm,
        "m3/mol/s": u.m ** 3 / u.mol / u.s,
        "mol/m3": u.mol / u.m ** 3,
        "kJ/mol": u.kilojoule / u.mol, "J/mol": u.joule / u.mol,
        "g": u.gram, "kg": u.kg, "ms": u.ms, "s": u.s, "hour": u.hour, "min": u.minute,
        # pure numbers in scaled ratio units ("1" = the dimensionless unit)
        "1": _pq().dimensionless, "percent": u.percent, "mM/M": u.mM / u.M, "cm/m": u.cm / u.m, "mm/km": u.mm / u.km,
    }[name]


# (from, to) pairs of Numbers!ConvTable the seeded generator draws from; the factor is the spec's
CONVS = [("km", "m"), ("m", "km"), ("m", "cm"), ("cm", "m"), ("mm", "m"), ("m3/mol/s", "1/M/s"),
         ("1/M/s", "m3/mol/s"), ("M", "mol/m3"), ("mol/m3", "M"), ("kJ/mol", "J/mol"), ("g", "kg"),
         ("kg", "g"), ("ms", "s"), ("hour", "s"), ("min", "s"), ("hour", "min"), ("hour", "ms"), ("s", "ms"), ("km", "cm"),
         ("1", "percent"), ("percent", "1"), ("mM/M", "percent"), ("percent", "mM/M"), ("cm/m", "percent"),
         ("mM/M", "1"), ("1", "mM/M"), ("mm/km", "mM/M"), ("cm/m", "mm/km")]


def _unit_text(kind, unit):
    from chempy.units import latex_of_unit, unicode_of_unit, html_of_unit
    if kind == "plain":
        return str(unit.dimensionality)
    return {"latex": latex_of_unit, "unicode": unicode_of_unit, "html": html_of_unit}[kind](unit)


DEFAULT_OPT = {"api": "number", "impl": False, "fsty": "g", "xty": "float", "uname": "", "ucv": {"from": "", "to": ""},
               "tbl": "", "pset": ""}
TABLE_KEYS = ["H2O", "H+", "OH-"]      # substances of the per-substance table (rows in this order)


def _typed(x, xty):
    """The number in the type the case asks for."""
    if xty == "int":
        return int(x)
    if xty == "npint":
        import numpy as np
        return np.int64(int(x))
    if xty == "npfloat":
        import numpy as np
        return np.float64(x)
    if xty == "nparray":
        import numpy as np
        return np.array(x)
    return x


def _efmt(n):
    return lambda v, *a: ("%%.%de" % (n - 1)) % v


class CallFailed(Exception):
    """chempy raised; carries the input events so that TLC can still say whether the input is in the model."""

    def __init__(self, events, exc):
        Exception.__init__(self, "%s: %s" % (type(exc).__name__, str(exc)[:200]))
        self.events = events


def call(spec):
    ev = []
    try:
        return _call(spec, ev)
    except CallFailed:
        raise
    except Exception as e:
        raise CallFailed(list(ev), e)


def _input_events(spec, opt, utext, fname, uname, src):
    ev = [{"k": "value", "x": nc.dec_of(spec["x"])}]
    if opt != DEFAULT_OPT:
        ev.append({"k": "options", "o": opt})
    if utext:
        ev.append({"k": "unit", "u": utext})
    if fname:
        ev.append({"k": "convert", "from": fname, "to": uname})
    if "xe" in spec:
        ev += [{"k": "uncert", "xe": nc.dec_of(spec["xe"]), "p": spec["p"], "src": src}, {"k": "formatu"}]
    else:
        ev += [{"k": "prec", "n": spec["n"]}, {"k": "format"}]
    return ev


def _expected_unit_text(fn, printer, unit, pset=""):
    """What the unit renders to on its own in the presentation at hand."""
    if unit is None or fn == "uncert_plain":
        return ""
    if fn == "table":
        return _unit_text("html", unit)
    if fn == "plain" and pset == "unitfmt":
        return "[%s]" % unit.dimensionality
    if printer in ("string", "html"):
        return str(unit.dimensionality)
    if printer == "unicode":
        return unit.dimensionality.unicode
    if printer == "latex":
        from chempy.units import _latex_from_dimensionality
        return _latex_from_dimensionality(unit.dimensionality)
    return _unit_text(fn, unit)


def _call(spec, evout):
    """spec: {"fn": kind | "plain" | "rxn-unicode" | "rxn-latex" | "rxn-html" | "uncert_plain" | "arrh" |
    "roman", "x", "n" | ("xe", "p", "src"), "unit", "from", "opt"}: x (and xe) are given in unit "from"
    (default: "unit") and printed in "unit"; src "attr": the uncertainty is carried by the number itself
    (UncertainQuantity) instead of being passed; opt: Numbers!DefaultOpt fields (precision left
    implicit, caller-supplied formatter, type of the number, unit of the uncertainty).
    -> (trace, printed text) ; the trace ends with the lexed observation."""
    fn = spec["fn"]
    opt = dict(DEFAULT_OPT, **(spec.get("opt") or {}))
    if fn == "roman":
        from chempy.printing.numbers import roman
        txt = roman(_typed(spec["n"], opt["xty"]))
        return [{"k": "roman", "n": spec["n"], "ty": opt["xty"] if opt["xty"] == "npint" else "int"},
                {"k": "result", "obs": nc.lex_roman(txt)}], txt
    x = spec["x"]
    uname = spec.get("unit") or ""
    unit = _unit(uname) if uname else None
    fname = spec.get("from") or ""
    given = _unit(fname) if fname else unit      # the unit the input is expressed in
    src = spec.get("src", "arg")
    xv = _typed(x, opt["xty"])
    if opt["xty"] == "uq":
        # a quantity carrying an uncertainty (one percent of the value); needs its unit
        xv = _pq().UncertainQuantity(x, unit, abs(x) * 0.01)
    printer = {"plain": "string", "rxn-unicode": "unicode", "rxn-latex": "latex", "rxn-html": "html"}.get(
        fn, spec.get("printer") if fn == "arrh" else None)
    utext = _expected_unit_text(fn, printer, unit, opt["pset"])
    ev = _input_events(spec, opt, utext, fname, uname, src)
    evout.extend(ev)
    lexkind = fn
    which = None
    if fn in ("plain", "rxn-unicode", "rxn-latex", "rxn-html", "arrh"):
        # the parameter of a printed reaction: Reaction.string (default three significant digits, or
        # the magnitude_fmt setting) and Reaction.unicode / latex / html (five)
        from chempy import Reaction, Substance
        subst = {"A": Substance("A"), "B": Substance("B")}
        if fn == "arrh":
            from chempy.kinetics.arrhenius import ArrheniusParam
            param = ArrheniusParam(spec["A"], spec["Ea"])
            which = spec["which"]
            printer = spec["printer"]
        else:
            param = xv if opt["xty"] == "uq" else (xv * unit if unit is not None else xv)
            printer = {"plain": "string", "rxn-unicode": "unicode", "rxn-latex": "latex", "rxn-html": "html"}[fn]
        pset = opt["pset"]
        r = Reaction({"A": 1}, {"B": 1}, param, checks=(), name="r7" if pset == "named" else None)
        utext = ""
        if printer == "string":
            kw = {} if (opt["impl"] or fn == "arrh") else {"magnitude_fmt": lambda v, n=spec["n"]: ("%%.%dg" % n) % v}
            sep = "; "
            if pset == "unitfmt":
                kw["unit_fmt"] = lambda dim: "[%s]" % dim
            elif pset == "sep":
                kw["Reaction_param_separator"] = sep = " | "
            elif pset == "named":
                kw["with_name"] = True
            s = r.string(with_param=True, **kw)
            if pset == "named" and s.endswith(sep + "r7"):
                s = s[:-len(sep + "r7")]          # the name follows the parameter
            lexkind = "plain"
            if unit is not None:
                utext = _unit_text("plain", unit)
        elif printer == "unicode":
            s = r.unicode(subst, with_param=True)
            sep = "; "
            lexkind = "unicode"
            if unit is not None:
                utext = unit.dimensionality.unicode
        elif printer == "latex":
            from chempy.units import _latex_from_dimensionality
            s = r.latex(subst, with_param=True)
            sep = "; "
            lexkind = "latex-rxn"
            if unit is not None:
                utext = _latex_from_dimensionality(unit.dimensionality)
        else:
            s = r.html(subst, with_param=True)
            sep = "&#59; "
            lexkind = "html"
            if unit is not None:
                utext = str(unit.dimensionality)
        txt = s.split(sep, 1)[1] if sep in s else s
    elif fn == "table":
        # as_per_substance_html_table: one row per substance, the number given FOR THAT substance
        from collections import OrderedDict
        from chempy import Substance
        from chempy.printing.table import as_per_substance_html_table
        perm = opt["tbl"]
        # rows are looked up by the KEYS of the substances mapping; with "alias" they differ from the names
        tkeys = ["water", "proton", "hydroxide"] if perm == "alias" else list(TABLE_KEYS)
        substances = OrderedDict((k, Substance.from_formula(f)) for k, f in zip(tkeys, TABLE_KEYS))
        vals = [(_typed(v, opt["xty"]) * unit if unit is not None else _typed(v, opt["xty"])) for v in spec["tvals"]]
        pairs = list(zip(tkeys, vals))
        if perm in ("reversed", "alias"):
            pairs = pairs[::-1]
        elif perm == "rotated":
            pairs = pairs[1:] + pairs[:1]
        elif perm == "extra":
            pairs = [("Na+", vals[1] * 3)] + pairs[::-1] + [("Cl-", vals[0] * 5)]
        cont = [v for k, v in pairs] if perm == "list" else OrderedDict(pairs)
        if perm == "nosubst":
            # no substances mapping: the rows follow the container (keys are formulas)
            pairs = pairs[1:] + pairs[:1]
            cont = OrderedDict(pairs)
            tab = as_per_substance_html_table(cont, header="c")
            order = [k for k, v in pairs]
        else:
            tab = as_per_substance_html_table(cont, substances)
            order = list(tkeys)
        want_key = tkeys[spec["row"]]
        ri = order.index(want_key)
        row = tab.rows[ri] if ri < len(tab.rows) else (None, "no-such-row")
        label, txt = row[0], row[1]
        if len(tab.rows) != len(TABLE_KEYS) or label != substances[want_key].html_name:
            txt = "row-of-another-substance: %r" % (row,)      # equals no number: TLC rejects it
        utext = _unit_text("html", unit) if unit is not None else ""
        lexkind = "html"
    elif fn == "uncert_plain":
        from chempy.printing.numbers import _float_str_w_uncert
        txt = _float_str_w_uncert(xv, spec["xe"]) if opt["impl"] else _float_str_w_uncert(xv, spec["xe"], spec["p"])
        utext = ""
        lexkind = "plain"
    else:
        f = _fn(fn)
        utext = _unit_text(fn, unit) if unit is not None else ""
        kw = {"unit": unit} if fname else {}
        if not opt["impl"]:
            if "xe" in spec:
                kw["fmt"] = spec["p"]
            else:
                kw["fmt"] = _efmt(spec["n"]) if opt["fsty"] == "e" else spec["n"]
        if "xe" in spec:
            ugiven = _unit(opt["ucv"]["from"]) if opt["ucv"]["from"] else given
            if given is not None and src == "attr":
                import quantities as pq
                args = (pq.UncertainQuantity(xv, given, spec["xe"]),)
            elif given is not None:
                args = (xv * given, spec["xe"] * ugiven)
            else:
                args = (xv, spec["xe"])
        else:
            args = (xv * given if given is not None else xv,)
        # history: called twice on the same objects - same text, arguments left as they were
        before = [repr(a) for a in args]
        txt = f(*args, **kw)
        again = f(*args, **kw)
        if again != txt or [repr(a) for a in args] != before:
            txt = "second-call-differs-or-argument-changed: %r / %r" % (txt, again)
    if which is not None:
        # a rate expression: the numbers written inside it, in order (pre-exponential factor, activation energy)
        found = nc.lex_embedded(txt, lexkind)
        obs = found[which] if len(found) == 2 else nc.lex_number("", lexkind)
    else:
        obs = nc.lex_number(txt, lexkind)
    obs.pop("text", None)
    obs.pop("consumed", None)
    ev.append({"k": "result", "obs": obs})
    return ev, txt


def _call_safe(spec):
    try:
        tr, txt = call(spec)
        return {"trace": tr, "txt": txt}
    except CallFailed as e:  # a formatter that raises on an in-domain value is reported, not hidden
        return {"exc": str(e), "inputs": e.events}
    except Exception as e:
        return {"exc": "%s: %s" % (type(e).__name__, str(e)[:200]), "inputs": []}


# ---------------------------------------------------------------- seeded inputs beyond the bounds
def _rand_sig(rng, maxd=15):
    k = rng.choice([1, 2, 3, 4, 5, 6, 8, 10, 12, 15, maxd])
    u = rng.random()
    if u < 0.12:      # all nines then a tail: carries into a new decade
        m = rng.randint(1, k)
        ds = [9] * m + [rng.randint(0, 9) for _ in range(k - m)]
    elif u < 0.22:    # one, zeros, tail: the "significand exactly 1" boundary
        m = rng.randint(1, k)
        ds = [1] + [0] * (m - 1) + [rng.randint(0, 9) for _ in range(k - m)]
    elif u < 0.30:    # ...5 : ties of the decimal text
        ds = [rng.randint(1, 9)] + [rng.randint(0, 9) for _ in range(max(0, k - 2))] + [5]
    else:
        ds = [rng.randint(1, 9)] + [rng.randint(0, 9) for _ in range(k - 1)]
    return ds[:maxd]


def _rand_exp(rng):
    u = rng.random()
    if u < 0.35:
        return rng.randint(-7, 8)
    if u < 0.5:
        return rng.choice([-5, -4, 14, 15, 16, 17, 21, 22, 23, -300, 300, -299, 299, 99, 100, -100])
    return rng.randint(-300, 300)


def _rand_value(rng):
    ds = _rand_sig(rng)
    e = _rand_exp(rng)
    s = "%s%d.%se%d" % ("-" if rng.random() < 0.3 else "", ds[0], "".join(map(str, ds[1:])) or "0", e)
    return float(s)


def _rand_uncert(rng, x):
    rel = 10 ** rng.uniform(-8, math.log10(0.5))
    ds = _rand_sig(rng, maxd=rng.choice([1, 2, 3, 6]))
    raw = abs(x) * rel
    if raw <= 0 or raw != raw:
        return None
    e = int(math.floor(math.log10(raw)))
    xe = float("%d.%se%d" % (ds[0], "".join(map(str, ds[1:])) or "0", e))
    while 2 * xe > abs(x):
        xe = xe / 10
    if xe < abs(x) * 1e-9 or xe < 1e-305 or xe == 0:
        return None
    return xe


UNITS = ["m/s", "mol/dm3/s", "1/M/s", "kg*m2/s2", "J/K/mol", "1/s", "M", "percent", "mM/M", "cm/m", "mm/km", "1"]


def _rand_float17(rng):
    """A float with a random 53-bit significand (its repr has 16-17 digits)."""
    m = rng.getrandbits(52) | (1 << 52)
    x = float(m) * 2.0 ** (rng.randint(-1000, 940) - 52)
    return -x if rng.random() < 0.3 else x


def _rand_opt(rng, has_unc, unit, frm):
    o = dict(DEFAULT_OPT)
    o["ucv"] = {"from": "", "to": ""}
    u = rng.random()
    if u < 0.35:
        o["impl"] = True
    elif u < 0.5 and not has_unc:
        o["fsty"] = "e"
    elif u < 0.7:
        o["xty"] = rng.choice(["npfloat", "nparray"])
    return o


def seeded_specs(rng, n):
    out = []
    while len(out) < n:
        x = _rand_float17(rng) if rng.random() < 0.2 else _rand_value(rng)
        if x == 0 or abs(x) < 1e-300 or abs(x) > 1e305:
            continue
        u = rng.random()
        unit = rng.choice(UNITS) if rng.random() < 0.3 else ""
        frm = ""
        if rng.random() < 0.2 and abs(x) < 1e290 and abs(x) > 1e-290:
            frm, unit = rng.choice(CONVS)       # given in one unit, shown in another
        opt = _rand_opt(rng, u >= 0.6, unit, frm) if rng.random() < 0.3 else dict(DEFAULT_OPT)
        if u < 0.5:
            nn = 5 if opt["impl"] else rng.randint(1, 10)
            out.append({"fn": rng.choice(KINDS), "x": x, "n": nn, "unit": unit, "from": frm, "opt": opt})
        elif u < 0.56:
            impl = rng.random() < 0.5
            out.append({"fn": "plain", "x": x, "n": 3 if impl else rng.randint(1, 8), "unit": "" if frm else unit,
                        "opt": dict(DEFAULT_OPT, api="rxnstring", impl=impl)})
        elif u < 0.6:
            out.append({"fn": rng.choice(["rxn-unicode", "rxn-latex", "rxn-html"]), "x": x, "n": 5,
                        "unit": "" if frm else unit, "opt": dict(DEFAULT_OPT, impl=True)})
        elif u < 0.615:
            tu = rng.choice(["", "M", "1/s"])
            topt = dict(DEFAULT_OPT, api="table", impl=True, tbl=rng.choice(["same", "reversed", "rotated", "extra", "list", "alias", "nosubst"]),
                        uname=tu)
            out += _table_specs({"opt": topt, "unit": tu, "from": "", "n": 5}, x, len(out))
        elif u < 0.63 and unit:
            uopt = dict(DEFAULT_OPT, api="rxnstring", impl=True, xty="uq", uname=unit)
            out.append({"fn": "plain", "x": x, "n": 3, "unit": unit, "opt": uopt})
        elif u < 0.64:
            # a rate expression as parameter: both numbers of an Arrhenius expression must be shown
            A, Ea = abs(x), abs(_rand_value(rng))
            if not (1e-290 < Ea < 1e290):
                continue
            pr = rng.choice(["string", "unicode", "html", "latex"])
            for which, val in ((0, A), (1, Ea)):
                out.append({"fn": "arrh", "printer": pr, "which": which, "A": A, "Ea": Ea, "x": val, "n": 5,
                            "unit": "", "opt": dict(DEFAULT_OPT, impl=True)})
        else:
            xe = _rand_uncert(rng, x)
            if xe is None:
                continue
            opt["fsty"] = "g"
            p = 2 if opt["impl"] else rng.randint(1, 10)
            if rng.random() < 0.3:
                out.append({"fn": "uncert_plain", "x": x, "xe": xe, "p": p, "unit": "", "opt": dict(opt, xty="float")})
            else:
                src = "attr" if (unit and rng.random() < 0.5) else "arg"
                if unit and not frm and src == "arg" and rng.random() < 0.3:
                    # the uncertainty handed over in another unit than the number
                    cands = [c for c in CONVS if c[1] == unit]
                    if cands:
                        uf = rng.choice(cands)[0]
                        opt = dict(opt, uname=unit, ucv={"from": uf, "to": unit})
                        xe = None
                if xe is None:
                    # expressed in the other unit the uncertainty must still be at most half the value:
                    # draw it there (1e-8 .. 1e-2 of the value after conversion is not known here - the
                    # spec's guard decides; calls it does not admit are skipped)
                    xe = _rand_uncert(rng, x)
                    if xe is None:
                        continue
                out.append({"fn": rng.choice(KINDS), "x": x, "xe": xe, "p": p, "unit": unit, "from": frm,
                            "src": src, "opt": opt})
    return out


# ---------------------------------------------------------------- cases -> calls
def _opt_of(i):
    o = i.get("opt") or {}
    ucv = o.get("ucv") or {}
    return {"api": o.get("api", "number"), "impl": bool(o.get("impl", False)), "fsty": o.get("fsty", "g"),
            "xty": o.get("xty", "float"), "uname": o.get("uname", ""), "tbl": o.get("tbl", ""), "pset": o.get("pset", ""),
            "ucv": {"from": ucv.get("from", ""), "to": ucv.get("to", "")}}


def _table_specs(base, x, idx):
    """The value of the case sits in one row (rotating), two other values in the other rows; every row
    is judged against the value given for ITS substance."""
    j = idx % len(TABLE_KEYS)
    tvals = [x * 7.25, x / 3.5, x * 1.75]
    tvals[j] = x
    return [dict(base, fn="table", row=r, tvals=list(tvals), x=tvals[r], primary=(r == j)) for r in range(len(TABLE_KEYS))]


def case_specs(case, idx):
    """The chempy calls that exercise one TLC case."""
    i = case["in"]
    opt = _opt_of(i)
    if i["mode"] == "roman":
        return [{"fn": "roman", "n": i["n"], "opt": opt}]
    x = nc.float_of(i["x"])
    cv = i.get("conv") or {"from": "", "to": ""}
    base = {"x": x, "opt": opt, "unit": cv["to"] if cv["from"] else opt["uname"], "from": cv["from"]}
    if i["mode"] == "number":
        base["n"] = i["n"]
        if opt["api"] == "rxnstring":
            return [dict(base, fn="plain")]
        if opt["api"] == "table":
            return _table_specs(base, x, idx)
        if opt["xty"] == "uq":
            return [dict(base, fn=k) for k in ("rxn-unicode", "rxn-latex", "rxn-html")]
        kinds = list(KINDS)
        if opt == DEFAULT_OPT and not cv["from"] and i["n"] == 3:
            kinds.append("plain")
        if opt["impl"] and opt["fsty"] == "g" and not cv["from"] and opt["xty"] != "nparray":
            kinds += ["rxn-unicode", "rxn-latex", "rxn-html"]     # built on the same formatters, default precision
        return [dict(base, fn=k) for k in kinds]
    base.update(xe=nc.float_of(i["xe"]), p=i["p"], src=i.get("usrc") or "arg")
    if base["src"] == "attr" and not base["unit"]:
        base["unit"] = "m/s"            # an UncertainQuantity needs a unit: shown in its own unit
    kinds = list(KINDS)
    if not base["unit"] and base["src"] == "arg":
        kinds.append("uncert_plain")
    return [dict(base, fn=k) for k in kinds]


def _denoted(obs):
    """Normalised (neg, digs, e) read off an observation: significand times ten to the exponent
    (pure re-bracketing of the lexed digits, the same reading as Numbers!NumDenoted)."""
    if obs["omitted"]:
        return {"neg": False, "digs": [1], "e": obs["exp"]}
    digs = list(obs["digs"])
    e = len(digs) - obs["ndec"] - 1 + (obs["exp"] if obs["hasexp"] else 0)
    while digs and digs[0] == 0:
        digs.pop(0)
        e -= 1
    while digs and digs[-1] == 0:
        digs.pop()
    if not digs:
        return {"neg": False, "digs": [], "e": 0}
    return {"neg": obs["neg"], "digs": digs, "e": e}


def _spec_key(spec):
    return {k: (repr(v) if isinstance(v, float) else v) for k, v in sorted(spec.items())}


def _nontrivial(spec):
    if spec["fn"] == "roman":
        return spec["n"] > 10
    return True


def _judge(ctx, specs, outs, cases=None, cfg="NumbersTrace.cfg"):
    """Validate all observations with TLC; report rejections."""
    import core
    traces, keep = [], []
    # calls that raised although their uncertainty is expressed in another unit: TLC says whether the
    # input is inside the quantifier at all (2u <= |x| in the display unit, guard of Numbers!ChooseUncert)
    doubt = [j for j, (sp, o) in enumerate(zip(specs, outs))
             if "exc" in o and o.get("inputs") and (sp.get("opt") or {}).get("ucv", {}).get("from")]
    outside = set()
    if doubt:
        dummy = {"k": "result", "obs": dict(nc.lex_number("", "plain"), text=None)}
        for d in doubt:
            dummy["obs"].pop("text", None)
        vs = ctx.validate_traces("NumbersTrace", cfg, [outs[j]["inputs"] + [dummy] for j in doubt], count=False)
        outside = set(j for j, (v, pos, clause) in zip(doubt, vs) if clause == "step:uncert")
    for j, (sp, o) in enumerate(zip(specs, outs)):
        if j in outside:
            ctx.skip("uncertainty-above-half-value-after-conversion")
            continue
        if "exc" in o:
            key = {"fn": sp["fn"], "what": "raises", "exc": o["exc"].split(":")[0]}
            if "xe" in sp:
                # position of the uncertainty's last kept digit (keying of known findings only)
                key["last_kept_digit"] = "below-1e-308" if nc.dec_of(sp["xe"])["e"] - sp["p"] + 1 < -308 else "representable"
            ctx.violation(key,
                          {"direction": "code->spec", "spec": _spec_key(sp), "observed": o["exc"],
                           "expected": "a printed number"})
            continue
        traces.append(o["trace"])
        keep.append(j)
    verdicts = ctx.validate_traces("NumbersTrace", cfg, traces, chunk=40000)
    for j, (v, pos, clause) in zip(keep, verdicts):
        sp, o = specs[j], outs[j]
        ctx.ran(_spec_key(sp), nontrivial=_nontrivial(sp))
        if v == "accept":
            continue
        if clause == "step:uncert" and (sp.get("opt") or {}).get("ucv", {}).get("from"):
            # seeded call whose uncertainty, converted to the display unit, exceeds half the value:
            # outside the quantifier (the guard of Numbers!ChooseUncert), not judged
            ctx.skip("uncertainty-above-half-value-after-conversion")
            continue
        if clause.startswith("step:") or clause in ("notdone", "no-result-event", "mode"):
            raise core.MachineryFailure("trace outside the model: %s at %d: %r" % (clause, pos, _spec_key(sp)))
        vkey = {"fn": sp["fn"], "clause": clause, "mode": "uncert" if "xe" in sp else ("roman" if sp["fn"] == "roman" else "number")}
        if sp["fn"] == "arrh":
            vkey["printer"] = sp["printer"]
        ctx.violation(vkey,
                      {"direction": "code->spec", "spec": _spec_key(sp), "trace": o["trace"],
                       "observed": o["txt"], "verdict": {"verdict": v, "pos": pos, "clause": clause},
                       "tlc_cfg": cfg})


# classes that must be present among the cases of a slice (vacuity guard without -coverage)
NEED = {
    "small": ["num-fixed", "num-sci", "-carry", "-tie", "-one", "-neg"],
    "decades": ["num-sci", "-carry", "-one"],
    "uncert": ["unc-plain", "unc-exp", "-carry", "-ucarry", "-int"],
    "roman": ["roman"],
    "conv": ["-conv", "-attr", "-arg", "num-", "unc-", "-ratio"],
    "opts": ["-impl", "-e", "-int", "-npfloat", "-nparray", "-npint", "-rxnstring", "-ucv", "roman", "-conv", "-ratio", "-uq",
             "-table-same", "-table-reversed", "-table-rotated", "-table-extra", "-table-list", "-table-alias",
             "-table-nosubst", "-unitfmt", "-sep", "-named"],
}


def run(ctx):
    import chempy  # noqa
    import core
    # every action of the machine is taken: thorough tier measured with -coverage on a tiny
    # configuration; quick tier through the case classes every action leaves (NEED)
    if not ctx.quick:
        ctx.tlc("Numbers_MC", "Numbers_MC_cover.cfg", require_cases=50, timeout=600, require_actions=[
            "GenValue", "GenOptions", "GenUnit", "GenConvert", "GenPrecision", "Format", "GenUncert", "FormatUncert",
            "GenRoman", "RomanStep", "RomanFinish"])
    slices = QUICK if ctx.quick else THOROUGH
    all_specs, all_outs = [], []
    by_slice = {}
    if ctx.quick:
        # one TLC run explores all quick slices (the slice is a variable fixed in the initial state)
        res = ctx.tlc("Numbers_MC", "Numbers_MC_quick.cfg", require_cases=100, timeout=1500)
        for c in res.cases:
            by_slice.setdefault(c["in"]["slice"], []).append(c)
        if set(by_slice) != set(slices):
            raise core.MachineryFailure("quick configuration explores %s, expected %s" % (sorted(by_slice), slices))
    for sl in slices:
        if ctx.quick:
            cases = by_slice.pop(sl)
        else:
            cases = ctx.tlc("Numbers_MC", "Numbers_MC_%s.cfg" % sl, require_cases=100, timeout=1500).cases
        classes = set(c["cls"] for c in cases)
        for need in NEED[sl.split("_")[0]]:
            if not any(need in c for c in classes):
                raise core.MachineryFailure("vacuity: no case of class *%s* in slice %s" % (need, sl))
        sel = cases if (sl == "roman" or not ctx.quick) else ctx.pick(cases, 450)
        # every selected case: all presentations are called and compared with the roundings TLC lists
        # (number cases); which of the calls are additionally judged by the trace specification:
        # everything in small selections, one presentation per case (rotating) in large ones, and
        # for the very large number slices that for a stratified sample of the cases
        big = len(sel) > 10000
        traced = None
        if big and sel and sel[0]["in"]["mode"] == "number":
            traced = set(id(c) for c in ctx.pick(sel, 25000))
        specs, owner = [], []
        for ci, c in enumerate(sel):
            for sp in case_specs(c, ci):
                specs.append(sp)
                owner.append(ci)
        outs = ctx.pmap(_call_safe, specs)
        ctx.cases_replayed += len(sel)
        for sp, o, ci in zip(specs, outs, owner):
            c = sel[ci]
            if "exc" not in o and c["in"]["mode"] == "number" and sp.get("primary", True):
                # spec -> code: exact comparison with the roundings TLC lists for the case
                obs = o["trace"][-1]["obs"]
                ok = obs["lexed"] and _denoted(obs) in c["exp"]["allowed"] and (not obs["omitted"] or c["exp"]["omit_ok"])
                if not ok:
                    ctx.violation({"fn": sp["fn"], "cls": c["cls"], "mode": "number", "dir": "spec->code"},
                                  {"direction": "spec->code", "spec": _spec_key(sp), "case": c, "observed": o["txt"],
                                   "expected": {"allowed": c["exp"]["allowed"], "omit_ok": c["exp"]["omit_ok"]},
                                   "tlc_cfg": "Numbers_MC_%s.cfg" % sl})
            if big and "exc" not in o and c["in"]["mode"] != "roman":
                rot = ALLK[ci % len(ALLK)]
                mine = sp["fn"] == rot or (rot == "plain" and (
                    sp["fn"] == "uncert_plain" or (c["in"]["mode"] == "number" and c["in"]["n"] != 3 and sp["fn"] == "latex")))
                if not mine or (traced is not None and id(c) not in traced):
                    ctx.ran(_spec_key(sp))
                    continue
            all_specs.append(sp)
            all_outs.append(o)
        if sel:
            ctx.sample({"slice": sl, "in": sel[0]["in"], "exp": {k: v for k, v in sel[0]["exp"].items() if k != "model"},
                        "printed": outs[0].get("txt")}, cap=8)
    ctx.exhaustive = not ctx.quick

    # ---- code -> spec beyond the bounds: seeded 15-digit floats, precisions 1..10, uncertainties,
    # quantities in compound units
    n = 1200 if ctx.quick else 40000
    specs = seeded_specs(ctx.rng, n)
    outs = ctx.pmap(_call_safe, specs)
    for sp, o in list(zip(specs, outs))[:2]:
        ctx.sample({"seeded": _spec_key(sp), "printed": o.get("txt")}, cap=8)
    # every observation (cases and seeded calls) is judged by TLC
    _judge(ctx, all_specs + specs, all_outs + outs)


def replay(ctx, rec):
    sp = dict(rec["spec"])
    for k in ("x", "xe", "A", "Ea"):
        if k in sp and isinstance(sp[k], str):
            sp[k] = float(sp[k])
    o = _call_safe(sp)
    if "exc" in o:
        ctx.violation(rec["key"], {"observed": o["exc"], "expected": "a printed number"})
        return
    if rec.get("direction") == "spec->code":
        c = rec["case"]
        obs = o["trace"][-1]["obs"]
        ok = obs["lexed"] and _denoted(obs) in c["exp"]["allowed"] and (not obs["omitted"] or c["exp"]["omit_ok"])
        if not ok:
            ctx.violation(rec["key"], {"observed": o["txt"], "expected": rec.get("expected")})
        return
    v, pos, clause = ctx.validate_traces("NumbersTrace", "NumbersTrace.cfg", [o["trace"]])[0]
    if v != "accept":
        ctx.violation(rec["key"], {"observed": o["txt"], "verdict": {"verdict": v, "pos": pos, "clause": clause}})
