# -*- coding: utf-8 -*-
"""C20 - printed numbers and parameters denote the value they were given.

spec/Numbers.tla (+ Decimal.tla, Numbers_MC slices, NumbersTrace).  Directions:
  spec -> code : every terminal state of the exhaustive slices (<= 3 digits x decades -6..6, the
                 +-300 decades slice, precisions 1..4; the uncertainty slice; Roman 1..3999) is a
                 case; it is fed to number_to_scientific_latex/unicode/html (and, for 3 digits,
                 to Reaction.string(with_param=True)); the un-presented output must be one of the
                 roundings TLC lists (exact comparison of digit sequences) ...
  code -> spec : ... and every observation - of the cases above and of seeded 15-digit floats
                 over +-300 decades, precisions 1..10, uncertainties 1e-8..0.5 relative,
                 quantities in compound units - is judged by TLC (NumbersTrace: NumberOK /
                 UncertOK / RomanOK on exact decimals).
"""
import math

import numbers_common as nc

LEVEL = "model_checking"
RULE = ("cases = terminal states of the Numbers_MC slices (TLC) and seeded calls, each judged by TLC "
        "(NumbersTrace); distinct = distinct (function, value, precision/uncertainty, unit) calls; "
        "non-trivial = the value has at least two significant digits or is rounded / carries a unit / "
        "an uncertainty / is a Roman numeral above 10")
ASSUMPTIONS = [
    "a float is identified with the exact decimal of its repr(); TLC allows one unit of the 15th significant "
    "digit (DBL_DIG) for the binary representation and the formatter's float arithmetic (Decimal!BinSlack)",
    "the unit text expected after the number is the text the same unit renders to on its own "
    "(latex_of_unit / unicode_of_unit / html_of_unit / str(dimensionality)); unit rendering itself is not judged here",
    "the length of an uncertainty layout is measured in the plain 'e' notation (3.142(3)e9) also when the "
    "power of ten is presented as LaTeX / Unicode / HTML",
]

KINDS = ("latex", "unicode", "html")
ALLK = ("latex", "unicode", "html", "plain")
QUICK = ["small_q", "decades_q", "uncert_q", "conv_q", "roman"]
THOROUGH = ["small_t", "decades_t", "uncert_t", "conv_q", "roman"]


# ---------------------------------------------------------------- calling chempy
def _fn(kind):
    from chempy.printing import numbers as N
    return {"latex": N.number_to_scientific_latex, "unicode": N.number_to_scientific_unicode,
            "html": N.number_to_scientific_html}[kind]


def _unit(name):
    from chempy.units import default_units as u
    return {
        "m/s": u.m / u.s,
        "mol/dm3/s": u.mol / u.dm3 / u.s,
        "1/M/s": 1 / u.molar / u.s,
        "kg*m2/s2": u.kg * u.m ** 2 / u.s ** 2,
        "J/K/mol": u.joule / u.kelvin / u.mol,
        "1/s": 1 / u.s,
        "M": u.molar,
        # units of the conversion table of spec/Numbers.tla (ConvTable)
        "km": u.km, "m": u.m, "cm": u.cm, "mm": u.mm,
        "m3/mol/s": u.m ** 3 / u.mol / u.s,
        "mol/m3": u.mol / u.m ** 3,
        "kJ/mol": u.kilojoule / u.mol, "J/mol": u.joule / u.mol,
        "g": u.gram, "kg": u.kg, "ms": u.ms, "s": u.s,
    }[name]


# (from, to) pairs of Numbers!ConvTable the seeded generator draws from; the factor is the spec's
CONVS = [("km", "m"), ("m", "km"), ("m", "cm"), ("cm", "m"), ("mm", "m"), ("m3/mol/s", "1/M/s"),
         ("1/M/s", "m3/mol/s"), ("M", "mol/m3"), ("mol/m3", "M"), ("kJ/mol", "J/mol"), ("g", "kg"),
         ("kg", "g"), ("ms", "s")]


def _unit_text(kind, unit):
    from chempy.units import latex_of_unit, unicode_of_unit, html_of_unit
    if kind == "plain":
        return str(unit.dimensionality)
    return {"latex": latex_of_unit, "unicode": unicode_of_unit, "html": html_of_unit}[kind](unit)


def call(spec):
    """spec: {"fn": kind | "plain" | "uncert_plain" | "roman", "x", "n" | ("xe", "p", "src"), "unit",
    "from"}: x (and xe) are given in unit "from" (default: "unit") and printed in "unit"; src "attr":
    the uncertainty is carried by the number itself (UncertainQuantity) instead of being passed.
    -> (trace, printed text) ; the trace ends with the lexed observation."""
    fn = spec["fn"]
    if fn == "roman":
        from chempy.printing.numbers import roman
        txt = roman(spec["n"])
        return [{"k": "roman", "n": spec["n"]}, {"k": "result", "obs": nc.lex_roman(txt)}], txt
    x = spec["x"]
    uname = spec.get("unit") or ""
    unit = _unit(uname) if uname else None
    fname = spec.get("from") or ""
    given = _unit(fname) if fname else unit      # the unit the input is expressed in
    src = spec.get("src", "arg")
    ev = [{"k": "value", "x": nc.dec_of(x)}]
    lexkind = fn
    if fn in ("plain", "rxn-unicode"):
        # the parameter of a printed reaction: Reaction.string (three significant digits) and
        # Reaction.unicode (five)
        from chempy import Reaction, Substance
        param = x * unit if unit is not None else x
        r = Reaction({"A": 1}, {"B": 1}, param, checks=())
        if fn == "plain":
            s = r.string(with_param=True)
            utext = _unit_text("plain", unit) if unit is not None else ""
        else:
            s = r.unicode({"A": Substance("A"), "B": Substance("B")}, with_param=True)
            utext = unit.dimensionality.unicode if unit is not None else ""
            lexkind = "unicode"
        txt = s.split("; ", 1)[1] if "; " in s else s
    elif fn == "uncert_plain":
        from chempy.printing.numbers import _float_str_w_uncert
        txt = _float_str_w_uncert(x, spec["xe"], spec["p"])
        utext = ""
        lexkind = "plain"
    else:
        f = _fn(fn)
        utext = _unit_text(fn, unit) if unit is not None else ""
        kw = {"unit": unit} if fname else {}
        if "xe" in spec:
            if given is not None and src == "attr":
                import quantities as pq
                txt = f(pq.UncertainQuantity(x, given, spec["xe"]), fmt=spec["p"], **kw)
            elif given is not None:
                txt = f(x * given, spec["xe"] * given, fmt=spec["p"], **kw)
            else:
                txt = f(x, spec["xe"], fmt=spec["p"])
        else:
            txt = f(x * given if given is not None else x, fmt=spec["n"], **kw)
    if utext:
        ev.append({"k": "unit", "u": utext})
    if fname:
        ev.append({"k": "convert", "from": fname, "to": uname})
    if "xe" in spec:
        ev += [{"k": "uncert", "xe": nc.dec_of(spec["xe"]), "p": spec["p"], "src": src}, {"k": "formatu"}]
    else:
        ev += [{"k": "prec", "n": spec["n"]}, {"k": "format"}]
    obs = nc.lex_number(txt, lexkind)
    obs.pop("text", None)
    ev.append({"k": "result", "obs": obs})
    return ev, txt


def _call_safe(spec):
    try:
        tr, txt = call(spec)
        return {"trace": tr, "txt": txt}
    except Exception as e:  # a formatter that raises on an in-domain value is reported, not hidden
        return {"exc": "%s: %s" % (type(e).__name__, str(e)[:200])}


# ---------------------------------------------------------------- seeded inputs beyond the bounds
def _rand_sig(rng, maxd=15):
    k = rng.choice([1, 2, 3, 4, 5, 6, 8, 10, 12, 15, maxd])
    u = rng.random()
    if u < 0.12:      # all nines then a tail: carries into a new decade
        m = rng.randint(1, k)
        ds = [9] * m + [rng.randint(0, 9) for _ in range(k - m)]
    elif u < 0.22:    # one, zeros, tail: the "significand exactly 1" boundary
        m = rng.randint(1, k)
        ds = [1] + [0] * (m - 1) + [rng.randint(0, 9) for _ in range(k - m)]
    elif u < 0.30:    # ...5 : ties of the decimal text
        ds = [rng.randint(1, 9)] + [rng.randint(0, 9) for _ in range(max(0, k - 2))] + [5]
    else:
        ds = [rng.randint(1, 9)] + [rng.randint(0, 9) for _ in range(k - 1)]
    return ds[:maxd]


def _rand_exp(rng):
    u = rng.random()
    if u < 0.35:
        return rng.randint(-7, 8)
    if u < 0.5:
        return rng.choice([-5, -4, 14, 15, 16, 17, 21, 22, 23, -300, 300, -299, 299, 99, 100, -100])
    return rng.randint(-300, 300)


def _rand_value(rng):
    ds = _rand_sig(rng)
    e = _rand_exp(rng)
    s = "%s%d.%se%d" % ("-" if rng.random() < 0.3 else "", ds[0], "".join(map(str, ds[1:])) or "0", e)
    return float(s)


def _rand_uncert(rng, x):
    rel = 10 ** rng.uniform(-8, math.log10(0.5))
    ds = _rand_sig(rng, maxd=rng.choice([1, 2, 3, 6]))
    raw = abs(x) * rel
    if raw <= 0 or raw != raw:
        return None
    e = int(math.floor(math.log10(raw)))
    xe = float("%d.%se%d" % (ds[0], "".join(map(str, ds[1:])) or "0", e))
    while 2 * xe > abs(x):
        xe = xe / 10
    if xe < abs(x) * 1e-9 or xe < 1e-305 or xe == 0:
        return None
    return xe


UNITS = ["m/s", "mol/dm3/s", "1/M/s", "kg*m2/s2", "J/K/mol", "1/s", "M"]


def seeded_specs(rng, n):
    out = []
    while len(out) < n:
        x = _rand_value(rng)
        if x == 0 or abs(x) < 1e-300 or abs(x) > 1e305:
            continue
        u = rng.random()
        unit = rng.choice(UNITS) if rng.random() < 0.3 else ""
        frm = ""
        if rng.random() < 0.2 and abs(x) < 1e290 and abs(x) > 1e-290:
            frm, unit = rng.choice(CONVS)       # given in one unit, shown in another
        if u < 0.5:
            out.append({"fn": rng.choice(KINDS), "x": x, "n": rng.randint(1, 10), "unit": unit, "from": frm})
        elif u < 0.57:
            out.append({"fn": "plain", "x": x, "n": 3, "unit": "" if frm else unit})
        elif u < 0.6:
            out.append({"fn": "rxn-unicode", "x": x, "n": 5, "unit": "" if frm else unit})
        else:
            xe = _rand_uncert(rng, x)
            if xe is None:
                continue
            p = rng.randint(1, 10)
            if rng.random() < 0.3:
                out.append({"fn": "uncert_plain", "x": x, "xe": xe, "p": p, "unit": ""})
            else:
                out.append({"fn": rng.choice(KINDS), "x": x, "xe": xe, "p": p, "unit": unit, "from": frm,
                            "src": "attr" if (unit and rng.random() < 0.5) else "arg"})
    return out


# ---------------------------------------------------------------- cases -> calls
def case_specs(case, idx):
    """The chempy calls that exercise one TLC case."""
    i = case["in"]
    if i["mode"] == "roman":
        return [{"fn": "roman", "n": i["n"]}]
    x = nc.float_of(i["x"])
    cv = i.get("conv") or {"from": "", "to": ""}
    if i["mode"] == "number":
        if cv["from"]:
            return [{"fn": k, "x": x, "n": i["n"], "unit": cv["to"], "from": cv["from"]} for k in KINDS]
        kinds = list(KINDS) + (["plain"] if i["n"] == 3 else [])
        return [{"fn": k, "x": x, "n": i["n"], "unit": ""} for k in kinds]
    xe = nc.float_of(i["xe"])
    src = i.get("usrc") or "arg"
    if cv["from"]:
        return [{"fn": k, "x": x, "xe": xe, "p": i["p"], "unit": cv["to"], "from": cv["from"], "src": src} for k in KINDS]
    if src == "attr":
        # an UncertainQuantity needs a unit: shown in its own unit
        return [{"fn": k, "x": x, "xe": xe, "p": i["p"], "unit": "m/s", "src": src} for k in KINDS]
    return [{"fn": k, "x": x, "xe": xe, "p": i["p"], "unit": ""} for k in list(KINDS) + ["uncert_plain"]]


def _denoted(obs):
    """Normalised (neg, digs, e) read off an observation: significand times ten to the exponent
    (pure re-bracketing of the lexed digits, the same reading as Numbers!NumDenoted)."""
    if obs["omitted"]:
        return {"neg": False, "digs": [1], "e": obs["exp"]}
    digs = list(obs["digs"])
    e = len(digs) - obs["ndec"] - 1 + (obs["exp"] if obs["hasexp"] else 0)
    while digs and digs[0] == 0:
        digs.pop(0)
        e -= 1
    while digs and digs[-1] == 0:
        digs.pop()
    if not digs:
        return {"neg": False, "digs": [], "e": 0}
    return {"neg": obs["neg"], "digs": digs, "e": e}


def _spec_key(spec):
    return {k: (repr(v) if isinstance(v, float) else v) for k, v in sorted(spec.items())}


def _nontrivial(spec):
    if spec["fn"] == "roman":
        return spec["n"] > 10
    return True


def _judge(ctx, specs, outs, cases=None, cfg="NumbersTrace.cfg"):
    """Validate all observations with TLC; report rejections."""
    import core
    traces, keep = [], []
    for j, (sp, o) in enumerate(zip(specs, outs)):
        if "exc" in o:
            key = {"fn": sp["fn"], "what": "raises", "exc": o["exc"].split(":")[0]}
            if "xe" in sp:
                # position of the uncertainty's last kept digit (keying of known findings only)
                key["last_kept_digit"] = "below-1e-308" if nc.dec_of(sp["xe"])["e"] - sp["p"] + 1 < -308 else "representable"
            ctx.violation(key,
                          {"direction": "code->spec", "spec": _spec_key(sp), "observed": o["exc"],
                           "expected": "a printed number"})
            continue
        traces.append(o["trace"])
        keep.append(j)
    verdicts = ctx.validate_traces("NumbersTrace", cfg, traces, chunk=40000)
    for j, (v, pos, clause) in zip(keep, verdicts):
        sp, o = specs[j], outs[j]
        ctx.ran(_spec_key(sp), nontrivial=_nontrivial(sp))
        if v == "accept":
            continue
        if clause.startswith("step:") or clause in ("notdone", "no-result-event", "mode"):
            raise core.MachineryFailure("trace outside the model: %s at %d: %r" % (clause, pos, _spec_key(sp)))
        ctx.violation({"fn": sp["fn"], "clause": clause, "mode": "uncert" if "xe" in sp else ("roman" if sp["fn"] == "roman" else "number")},
                      {"direction": "code->spec", "spec": _spec_key(sp), "trace": o["trace"],
                       "observed": o["txt"], "verdict": {"verdict": v, "pos": pos, "clause": clause},
                       "tlc_cfg": cfg})


# classes that must be present among the cases of a slice (vacuity guard without -coverage)
NEED = {
    "small": ["num-fixed", "num-sci", "-carry", "-tie", "-one", "-neg"],
    "decades": ["num-sci", "-carry", "-one"],
    "uncert": ["unc-plain", "unc-exp", "-carry", "-ucarry", "-int"],
    "roman": ["roman"],
    "conv": ["-conv", "-attr", "-arg", "num-", "unc-"],
}


def run(ctx):
    import chempy  # noqa
    import core
    # every action of the machine is taken (tiny configuration, -coverage on)
    ctx.tlc("Numbers_MC", "Numbers_MC_cover.cfg", require_cases=50, timeout=600, require_actions=[
        "GenValue", "GenUnit", "GenConvert", "GenPrecision", "Format", "GenUncert", "FormatUncert",
        "GenRoman", "RomanStep", "RomanFinish"])
    slices = QUICK if ctx.quick else THOROUGH
    all_specs, all_outs = [], []
    for sl in slices:
        res = ctx.tlc("Numbers_MC", "Numbers_MC_%s.cfg" % sl, require_cases=100, timeout=1500)
        cases = res.cases
        classes = set(c["cls"] for c in cases)
        for need in NEED[sl.split("_")[0]]:
            if not any(need in c for c in classes):
                raise core.MachineryFailure("vacuity: no case of class *%s* in slice %s" % (need, sl))
        sel = cases if (sl == "roman" or not ctx.quick) else ctx.pick(cases, 900)
        # every selected case: all presentations are called and compared with the roundings TLC lists
        # (number cases); which of the calls are additionally judged by the trace specification:
        # everything in small selections, one presentation per case (rotating) in large ones, and
        # for the very large number slices that for a stratified sample of the cases
        big = len(sel) > 10000
        traced = None
        if big and sel and sel[0]["in"]["mode"] == "number":
            traced = set(id(c) for c in ctx.pick(sel, 25000))
        specs, owner = [], []
        for ci, c in enumerate(sel):
            for sp in case_specs(c, ci):
                specs.append(sp)
                owner.append(ci)
        outs = ctx.pmap(_call_safe, specs)
        ctx.cases_replayed += len(sel)
        for sp, o, ci in zip(specs, outs, owner):
            c = sel[ci]
            if "exc" not in o and c["in"]["mode"] == "number":
                # spec -> code: exact comparison with the roundings TLC lists for the case
                obs = o["trace"][-1]["obs"]
                ok = obs["lexed"] and _denoted(obs) in c["exp"]["allowed"] and (not obs["omitted"] or c["exp"]["omit_ok"])
                if not ok:
                    ctx.violation({"fn": sp["fn"], "cls": c["cls"], "mode": "number", "dir": "spec->code"},
                                  {"direction": "spec->code", "spec": _spec_key(sp), "case": c, "observed": o["txt"],
                                   "expected": {"allowed": c["exp"]["allowed"], "omit_ok": c["exp"]["omit_ok"]},
                                   "tlc_cfg": "Numbers_MC_%s.cfg" % sl})
            if big and "exc" not in o and c["in"]["mode"] != "roman":
                rot = ALLK[ci % len(ALLK)]
                mine = sp["fn"] == rot or (rot == "plain" and (
                    sp["fn"] == "uncert_plain" or (c["in"]["mode"] == "number" and c["in"]["n"] != 3 and sp["fn"] == "latex")))
                if not mine or (traced is not None and id(c) not in traced):
                    ctx.ran(_spec_key(sp))
                    continue
            all_specs.append(sp)
            all_outs.append(o)
        if sel:
            ctx.sample({"slice": sl, "in": sel[0]["in"], "exp": {k: v for k, v in sel[0]["exp"].items() if k != "model"},
                        "printed": outs[0].get("txt")}, cap=8)
    ctx.exhaustive = not ctx.quick

    # ---- code -> spec beyond the bounds: seeded 15-digit floats, precisions 1..10, uncertainties,
    # quantities in compound units
    n = 2000 if ctx.quick else 40000
    specs = seeded_specs(ctx.rng, n)
    outs = ctx.pmap(_call_safe, specs)
    for sp, o in list(zip(specs, outs))[:2]:
        ctx.sample({"seeded": _spec_key(sp), "printed": o.get("txt")}, cap=8)
    # every observation (cases and seeded calls) is judged by TLC
    _judge(ctx, all_specs + specs, all_outs + outs)


def replay(ctx, rec):
    sp = dict(rec["spec"])
    for k in ("x", "xe"):
        if k in sp and isinstance(sp[k], str):
            sp[k] = float(sp[k])
    o = _call_safe(sp)
    if "exc" in o:
        ctx.violation(rec["key"], {"observed": o["exc"], "expected": "a printed number"})
        return
    if rec.get("direction") == "spec->code":
        c = rec["case"]
        obs = o["trace"][-1]["obs"]
        ok = obs["lexed"] and _denoted(obs) in c["exp"]["allowed"] and (not obs["omitted"] or c["exp"]["omit_ok"])
        if not ok:
            ctx.violation(rec["key"], {"observed": o["txt"], "expected": rec.get("expected")})
        return
    v, pos, clause = ctx.validate_traces("NumbersTrace", "NumbersTrace.cfg", [o["trace"]])[0]
    if v != "accept":
        ctx.violation(rec["key"], {"observed": o["txt"], "verdict": {"verdict": v, "pos": pos, "clause": clause}})
