"""pytest plugin: record calls that the repository's own tests make to selected public functions.

Loaded from outside the repository (`-p pytest_recorder` with PYTHONPATH=/verif/harness); it is
inert unless CHEMPY_VERIF_TRACE=<file> is set.  CHEMPY_VERIF_TARGETS is a comma separated list of
`module:attr` names.  Each call appends one JSON line {fn, args, kwargs, ok, result | exc}.
Nothing in /repo is modified: the wrappers replace module attributes at import time (in every
loaded chempy module that holds a reference to the original function).
"""
import functools
import importlib
import json
import os
import sys
from fractions import Fraction

_DEPTH = [0]


def _safe(x, depth=0):
    if depth > 4:
        return {"repr": repr(x)[:120]}
    if x is None or isinstance(x, (bool, int, str)):
        return x
    if isinstance(x, float):
        return x if x == x and abs(x) != float("inf") else {"repr": repr(x)}
    if isinstance(x, Fraction):
        return {"frac": [x.numerator, x.denominator]}
    if isinstance(x, (list, tuple)):
        return [_safe(y, depth + 1) for y in x]
    if isinstance(x, (set, frozenset)):
        try:
            return {"set": sorted(_safe(y, depth + 1) for y in x)}
        except TypeError:
            return {"repr": repr(x)[:120]}
    if isinstance(x, dict):
        try:
            items = sorted(x.items(), key=lambda kv: (str(type(kv[0])), kv[0]))
        except TypeError:
            items = list(x.items())
        return {"dict": [[_safe(k, depth + 1), _safe(v, depth + 1)] for k, v in items]}
    return {"repr": repr(x)[:120], "type": type(x).__name__}


def _wrap(name, fn, out):
    @functools.wraps(fn)
    def wrapper(*args, **kwargs):
        _DEPTH[0] += 1
        try:
            try:
                res = fn(*args, **kwargs)
            except Exception as e:
                if _DEPTH[0] == 1:
                    out({"fn": name, "args": _safe(args), "kwargs": _safe(kwargs), "ok": False,
                         "exc": type(e).__name__})
                raise
            if _DEPTH[0] == 1:   # nested calls between recorded functions are not logged
                out({"fn": name, "args": _safe(args), "kwargs": _safe(kwargs), "ok": True, "result": _safe(res)})
            return res
        finally:
            _DEPTH[0] -= 1
    wrapper.__verif_wrapped__ = fn
    return wrapper


def install(path, targets):
    fh = open(path, "a")

    def out(rec):
        fh.write(json.dumps(rec) + "\n")
        fh.flush()
    import chempy  # noqa: F401  (load the package so that references can be found)
    for t in targets:
        modname, attr = t.split(":")
        try:
            mod = importlib.import_module(modname)
            fn = getattr(mod, attr)
        except Exception:
            out({"fn": t, "not_observed": True})
            continue
        w = _wrap(t, fn, out)
        for m in list(sys.modules.values()):
            if m is None or not getattr(m, "__name__", "").startswith("chempy"):
                continue
            for k, v in list(vars(m).items()):
                if v is fn:
                    try:
                        setattr(m, k, w)
                    except Exception:
                        pass


def pytest_configure(config):
    path = os.environ.get("CHEMPY_VERIF_TRACE")
    if not path:
        return
    targets = [t for t in os.environ.get("CHEMPY_VERIF_TARGETS", "").split(",") if t]
    install(path, targets)
