# -*- coding: utf-8 -*-
"""Binding layer for spec/ReactionText.tla (C12): token events -> text, calling chempy's readers
and printers, structural projection of the resulting objects, a seeded event generator beyond
the exhaustive bounds and a small lexer for foreign reaction lines (the repository's own tests).

Nothing here decides what a text means: expected denotations come from TLC (CASE lines) or the
recorded observation is judged by TLC (ReactionTextTrace).
"""
import re

from formula_common import enc_rational
from numbers_common import dec_of

ONE = {"ip": 1, "fd": 0, "fp": 0}


# ---------------------------------------------------------------- events -> text
def coef_text(c):
    s = str(c["ip"])
    if c["fd"]:
        s += "." + str(c["fp"]).zfill(c["fd"])
    return s


def param_text(v, style):
    digs = "".join(str(d) for d in v["digs"])
    sign = "-" if v["neg"] else ""
    e = v["e"]
    if style == "sci":
        return "%s%s%se%d" % (sign, digs[0], ("." + digs[1:]) if len(digs) > 1 else "", e)
    if style == "int":
        return sign + digs.ljust(e + 1, "0")
    if e >= 0:
        ip = digs[:e + 1].ljust(e + 1, "0")
        fp = digs[e + 1:] or "0"
        return "%s%s.%s" % (sign, ip, fp)
    return "%s0.%s%s" % (sign, "0" * (-e - 1), digs)


def term_text(ev):
    if ev["form"] == "inact":
        return "(%s %s)" % (coef_text(ev["coef"]), ev["key"]["t"])
    if ev["form"] == "bare":
        return ev["key"]["t"]
    if ev["form"] == "nstar":
        return "%s * %s" % (coef_text(ev["coef"]), ev["key"]["t"])
    return "%s %s" % (coef_text(ev["coef"]), ev["key"]["t"])


def events_doc(events):
    """-> (doc: list of line texts, klass, allowed keys or None)"""
    doc, line, nside, nkw = [], "", 0, 0
    klass, allowed = "", None
    for ev in events:
        k = ev["k"]
        if k == "allowed":
            allowed = list(ev["keys"])
        elif k in ("term", "inact", "unknown"):
            line += (" + " if nside else "") + term_text(ev)
            nside += 1
        elif k in ("arrow", "wrongarrow"):
            line += " %s " % ev["a"]
            nside = 0
            if not klass:
                normal = "Reaction" if ev["a"] == "->" else "Equilibrium"
                other = "Equilibrium" if ev["a"] == "->" else "Reaction"
                klass = normal if k == "arrow" else other
        elif k == "param":
            line += "; " + param_text(ev["v"], ev["style"])
        elif k == "kw":
            line += ("; " if nkw == 0 else ", ") + "%s='%s'" % (ev["key"], ev["val"])
            nkw += 1
        elif k == "comment":
            doc.append(ev["c"])
        elif k in ("newline", "finish", "missingarrow"):
            if k == "missingarrow":
                klass = ev["klass"]
            if line or k != "finish":
                doc.append(line)
            line, nside, nkw = "", 0, 0
        elif k in ("print", "parse", "result"):
            pass
        else:
            raise ValueError(k)
    return doc, klass, allowed


# ---------------------------------------------------------------- projections
def project_map(m):
    out = []
    for k in sorted(m, key=str):
        q = enc_rational(m[k])
        if q is None or not isinstance(k, str):
            return None
        out.append([k, q])
    return out


def project_param(p):
    if p is None:
        return {"some": False}
    if isinstance(p, bool) or not isinstance(p, (int, float)):
        return None
    d = dec_of(p)
    if d is None:
        return None
    return {"some": True, "v": d}


def project_rxn(r):
    """Reaction -> abstract line record, or None when something is outside the vocabulary."""
    out = {}
    for f, attr in (("reac", "reac"), ("prod", "prod"), ("ireac", "inact_reac"), ("iprod", "inact_prod")):
        out[f] = project_map(getattr(r, attr))
        if out[f] is None:
            return None
    out["param"] = project_param(r.param)
    if out["param"] is None:
        return None
    out["ref"] = r.ref if isinstance(r.ref, str) else ("" if r.ref is None else repr(r.ref))
    out["name"] = r.name if isinstance(r.name, str) else ("" if r.name is None else repr(r.name))
    return out


# ---------------------------------------------------------------- calling chempy
def _classes(klass, system):
    from chempy import Reaction, Equilibrium, ReactionSystem
    if not system:
        return Reaction if klass == "Reaction" else Equilibrium
    if klass == "Reaction":
        return ReactionSystem
    from chempy.equilibria import EqSystem
    return EqSystem


def read(doc, klass, system, allowed, nochecks):
    """Hand the text to the real reader.  -> (object(s), list of Reaction objects)"""
    from chempy import Substance
    text = "\n".join(doc)
    if not system:
        cls = _classes(klass, False)
        kw = {"checks": ()} if nochecks else {}
        r = cls.from_string(text, allowed, **kw)
        return r, [r]
    cls = _classes(klass, True)
    kw = {"substance_factory": Substance}
    if nochecks:
        kw["rxn_parse_kwargs"] = {"checks": ()}
        kw["checks"] = ()
    rs = cls.from_string(text + "\n", allowed, **kw)
    return rs, list(rs.rxns)


def observe(doc, klass, system, allowed, nochecks, want_rt):
    """Everything C12 looks at for one text, projected.  nochecks: switch the constructor's
    documented default checks (all_integral, any_effect, duplicate) off."""
    obs = {"doc": doc, "klass": klass, "raised": False, "exc": "", "lines": [], "copy_eq": True,
           "copy_lines": [], "rts": [], "retried": False}
    try:
        obj, rxns = read(doc, klass, system, allowed, nochecks)
    except Exception as e:
        obs["raised"] = True
        obs["exc"] = "%s: %s" % (type(e).__name__, str(e)[:120])
        if nochecks:
            return obs
        # separate "reading the text" from the constructor's default checks: read again with the
        # checks switched off; if that succeeds the reading itself is what gets compared
        try:
            obj, rxns = read(doc, klass, system, allowed, True)
        except Exception:
            return obs
        obs["retried"] = True
        obs["raised"] = False
        nochecks = True
    lines = [project_rxn(r) for r in rxns]
    if any(x is None for x in lines):
        obs["unencodable"] = True
        return obs
    obs["lines"] = lines
    # copy
    try:
        if system:
            copies = [r.copy() for r in rxns]
            obs["copy_eq"] = all(bool(c == r) and bool(r == c) for c, r in zip(copies, rxns))
        else:
            c = obj.copy()
            copies = [c]
            obs["copy_eq"] = bool(c == obj) and bool(obj == c) and c is not obj
        cl = [project_rxn(c) for c in copies]
        obs["copy_lines"] = cl if all(x is not None for x in cl) else []
    except Exception as e:
        obs["copy_eq"] = False
        obs["copy_exc"] = "%s: %s" % (type(e).__name__, str(e)[:120])
    if not want_rt:
        return obs
    # print under every requested option (with_param, with_name), then read the printed text
    printers = []
    for wp, wn, rtno in want_rt:
        bits = "%d%d" % (wp, wn)
        if system:
            printers.append(("y" + bits, wp, wn, rtno, lambda o, wp=wp, wn=wn: o.string(with_param=wp, with_name=wn)))
            if wp and wn:
                printers.append(("ydef", wp, wn, rtno, lambda o: o.string()))
        else:
            printers.append(("s" + bits, wp, wn, rtno, lambda o, wp=wp, wn=wn: o.string(with_param=wp, with_name=wn)))
            if wp and wn:
                printers.append(("str", wp, wn, rtno, lambda o: str(o)))
            if not wp and not wn:
                printers.append(("sdef", wp, wn, rtno, lambda o: o.string()))
    for kind, wp, wn, rtno, pr in printers:
        rtno = bool(nochecks or rtno)
        rt = {"kind": kind, "wp": bool(wp), "wn": bool(wn), "raised": False, "lines": [], "eq": False, "text": ""}
        try:
            txt = pr(obj)
            rt["text"] = txt
            pdoc = [ln for ln in txt.split("\n")]
            while pdoc and pdoc[-1] == "":
                pdoc.pop()
            try:
                obj2, rxns2 = read(pdoc, klass, system, allowed, rtno)
            except Exception:
                if rtno:
                    raise
                # as above: tell the reading of the printed text from the constructor's checks
                obj2, rxns2 = read(pdoc, klass, system, allowed, True)
                rt["retried"] = True
            ls = [project_rxn(r) for r in rxns2]
            if any(x is None for x in ls):
                rt["raised"] = True
                rt["exc"] = "unencodable"
            else:
                rt["lines"] = ls
                rt["eq"] = bool(obj2 == obj) and bool(obj == obj2)
        except Exception as e:
            rt["raised"] = True
            rt["exc"] = "%s: %s" % (type(e).__name__, str(e)[:120])
        obs["rts"].append(rt)
    return obs


# ---------------------------------------------------------------- seeded event generator
_ATOMS = ["H", "C", "N", "O", "Na", "Cl", "Fe", "S", "Ca", "Cu", "K", "P", "Mn"]
_POOL = ["H2O", "H+", "OH-", "e-", "NH4+", "SO4-2", "(NH4)2SO4", "[Fe(CN)6]-4", "[Fe(CN)6]-3", "{X}", "A", "B", "C",
         "H2O(l)", "CO2(g)", "NaCl(s)", "Fe+3(aq)", "A'", "B*", "A**", "(CH3)3COH", "(NH4)2SO4(s)", "Ca(OH)2",
         "Ca(OH)2(s)", "CuSO4..5H2O", ".NO2", "alpha-Fe2O3", "Cu(NH3)4+2", "{A}n", "[B]", "O2", "H2", "NO3-"]


def rand_key(rng):
    if rng.random() < 0.6:
        return rng.choice(_POOL)
    s = ""
    for _ in range(rng.randint(1, 3)):
        u = rng.random()
        if u < 0.2:
            o, c = rng.choice(["()", "[]", "{}"])
            s += o + rng.choice(_ATOMS) + rng.choice(["", "2", "3"]) + rng.choice(_ATOMS + [""]) + rng.choice(["", "4"]) + c + rng.choice(["", "2", "3", "12"])
        else:
            s += rng.choice(_ATOMS) + rng.choice(["", "", "2", "3", "10"])
    s += rng.choice(["", "", "", "+", "-", "+2", "-3"])
    s += rng.choice(["", "", "", "(aq)", "(s)", "(g)"])
    s += rng.choice(["", "", "", "", "'", "*"])
    return s


def key_rec(t):
    return {"t": t, "lead": t[0] if t[0] in "([{" else ""}


def wholly_parenthesised(t):
    """'(X)': a key that is one parenthesised group - the notation cannot tell it from an inactive
    term without a coefficient; such keys are not generated."""
    if not (t.startswith("(") and t.endswith(")")):
        return False
    d = 0
    for i, ch in enumerate(t):
        if ch == "(":
            d += 1
        elif ch == ")":
            d -= 1
            if d == 0:
                return i == len(t) - 1
    return False


def rand_coef(rng, decimal_ok=True):
    u = rng.random()
    if decimal_ok and u < 0.15:
        fd = rng.choice([1, 1, 2, 3])
        fp = rng.randrange(1, 10 ** fd)
        return {"ip": rng.choice([0, 0, 1, 2, 7, 12]), "fd": fd, "fp": fp}
    return {"ip": rng.choice([1, 2, 2, 3, 4, 5, 10, 12, 100, 999, 1000, rng.randint(1, 1000)]), "fd": 0, "fp": 0}


def rand_param(rng):
    nd = rng.choice([1, 1, 2, 3, 3, 4, 6, 9, 12, 15])
    digs = [rng.randint(1, 9)] + [rng.randint(0, 9) for _ in range(nd - 1)]
    u = rng.random()
    if u < 0.1:
        digs = [9] * rng.randint(3, 5) + [rng.randint(5, 9)]
    elif u < 0.2:
        digs = digs[:2] + [rng.randint(0, 9), 5]
    while len(digs) > 1 and digs[-1] == 0:
        digs.pop()
    e = rng.randint(-15, 15)
    v = {"neg": rng.random() < 0.05, "digs": digs, "e": e}
    styles = ["sci"]
    if -6 <= e <= 15:
        styles.append("fix")
    if 0 <= e <= 8 and len(digs) <= e + 1:
        styles.append("int")
    return v, rng.choice(styles)


class Gen(object):
    def __init__(self, rng, max_terms=5, max_lines=5):
        self.rng = rng
        self.max_terms = max_terms
        self.max_lines = max_lines

    def _key(self, allowed=None):
        r = self.rng
        for _ in range(100):
            t = r.choice(allowed) if allowed else rand_key(r)
            if not wholly_parenthesised(t) and " " not in t and t:
                return t
        return "A"

    def _side(self, side, allowed, fault_at=None):
        r = self.rng
        evs = []
        n = r.randint(1, self.max_terms)
        reuse = []
        for i in range(n):
            t = r.choice(reuse) if reuse and r.random() < 0.25 else self._key(allowed)
            reuse.append(t)
            u = r.random()
            if u < 0.15:
                evs.append({"k": "inact", "side": side, "form": "inact", "coef": rand_coef(r), "key": key_rec(t)})
                continue
            form = r.choice(["bare", "bare", "n", "n", "nstar", "dec"])
            if form == "bare":
                c = dict(ONE)
            elif form == "dec":
                c = rand_coef(r)
                if c["fd"] == 0:
                    form = "n"
            else:
                c = rand_coef(r, decimal_ok=False)
            evs.append({"k": "term", "side": side, "form": form, "coef": c, "key": key_rec(t)})
        return evs

    def _line(self, arrow, allowed, with_name=True):
        r = self.rng
        evs = self._side("reac", allowed)
        evs.append({"k": "arrow", "a": arrow})
        evs += self._side("prod", allowed)
        if r.random() < 0.6:
            v, st = rand_param(r)
            evs.append({"k": "param", "v": v, "style": st})
            if r.random() < 0.3:
                ks = ["ref"] + (["name"] if with_name else [])
                r.shuffle(ks)
                for k in ks[:r.randint(1, len(ks))]:
                    evs.append({"k": "kw", "key": k, "val": r.choice(["doi:12/ab", "r1", "k_f", "Smith 1999, p. 4"])})
        return evs

    def text(self, system=None, fault=None):
        """One well-formed text (single line or system); fault in (None, 'unknown', 'missingarrow',
        'wrongarrow') injects exactly one rejection class."""
        r = self.rng
        if system is None:
            system = r.random() < 0.3
        arrow = r.choice(["->", "->", "="])
        evs = []
        allowed = None
        if fault == "unknown" or r.random() < 0.25:
            allowed = sorted(set(self._key() for _ in range(r.randint(2, 6))))
            evs.append({"k": "allowed", "keys": allowed})
        nl = r.randint(1, self.max_lines) if system else 1
        if fault in ("missingarrow", "wrongarrow"):
            nl, system = 1, False
        for i in range(nl):
            if system and r.random() < 0.4:
                evs.append({"k": "comment", "c": r.choice(["# a comment", "#", "   # A -> B; 1", "", "  ", "# x = y"])})
            ln = self._line(arrow, allowed, with_name=not system or r.random() < 0.2)
            if fault == "missingarrow":
                ln = [e for e in ln if e["k"] in ("term", "inact") and e["side"] == "reac"]
                evs += ln
                evs.append({"k": "missingarrow", "klass": r.choice(["Reaction", "Equilibrium"])})
                return evs, system
            if fault == "wrongarrow":
                for e in ln:
                    if e["k"] == "arrow":
                        e["k"] = "wrongarrow"
            if fault == "unknown" and i == nl - 1:
                cands = [j for j, e in enumerate(ln) if e["k"] in ("term", "inact")]
                j = r.choice(cands)
                for _ in range(100):
                    t = self._key()
                    if t not in allowed:
                        break
                e = dict(ln[j])
                e["k"] = "unknown"
                e["key"] = key_rec(t)
                ln[j] = e
            evs += ln
            if i < nl - 1:
                evs.append({"k": "newline"})
        if system and r.random() < 0.3:
            evs.append({"k": "newline"})
            evs.append({"k": "comment", "c": "# end"})
        evs.append({"k": "finish"})
        return evs, (system or any(e["k"] == "comment" for e in evs))


# ---------------------------------------------------------------- structural facts about events
def line_facts(events):
    """Bookkeeping over the generated tokens (no denotation): does the text contain an injected
    fault, is it printable (no parenthesised term, no name), on which sides does a bare term
    stand whose key begins with '(' (and does such a key also end with ')')."""
    fault = any(e["k"] in ("unknown", "missingarrow", "wrongarrow") for e in events)
    inact = any(e["k"] in ("inact",) or (e["k"] == "unknown" and e["form"] == "inact") for e in events)
    named = any(e["k"] == "kw" and e["key"] == "name" for e in events)
    bare = [e for e in events if e["k"] in ("term", "unknown") and e["form"] == "bare" and e["key"]["lead"] == "("]
    # sides on which the printed text has a term without coefficient whose key begins with '(':
    # the coefficients written for that key on that side of that line add up to 1
    from fractions import Fraction
    sums, ln = {}, 0
    for e in events:
        if e["k"] in ("newline",):
            ln += 1
        if e["k"] == "term" and e["key"]["lead"] == "(":
            c = e["coef"]
            kk = (ln, e["side"], e["key"]["t"])
            sums[kk] = sums.get(kk, 0) + Fraction(c["ip"] * 10 ** c["fd"] + c["fp"], 10 ** c["fd"])
    rt_bare = sorted(set(k[1] for k, v in sums.items() if v == 1))
    rt_closed = any(k[2].endswith(")") for k, v in sums.items() if v == 1)
    opts = [(wp, wn, True) for wp in (True, False) for wn in (True, False) if not (wn and named)]
    return {"fault": fault, "printable": not fault and not inact, "print_opts": opts, "rt_bareparen": rt_bare, "rt_bareparen_closed": rt_closed,
            "bareparen": sorted(set(e["side"] for e in bare)),
            "bareparen_closed": any(e["key"]["t"].endswith(")") for e in bare),
            "unknown_bareparen": any(e["k"] == "unknown" for e in bare),
            "allowed": any(e["k"] == "allowed" for e in events)}


# ---------------------------------------------------------------- lexer for foreign lines
_TERM_RE = re.compile(r"^(?:(\d+)(?:\.(\d{1,3}))?( \* | ))?(\S+)$")


def lex_line(text):
    """A reaction line written by somebody else (the repository's tests) -> events, or None when
    it uses something outside the modelled notation (expressions or units as parameter, keys
    with spaces ...).  Whether the lexing is right is decided by TLC: the specification rebuilds
    the text from the events and compares it with the original."""
    parts = text.split(";")
    if len(parts) > 3:
        return None
    st = parts[0]
    if " -> " in st:
        a = "->"
    elif " = " in st:
        a = "="
    else:
        return None
    lhs, rhs = st.split(" %s " % a, 1)
    evs = []
    for side, s in (("reac", lhs), ("prod", rhs)):
        if side == "prod":
            evs.append({"k": "arrow", "a": a})
        for term in s.split(" + "):
            if term.startswith("(") and term.endswith(")") and " " in term:
                m = _TERM_RE.match(term[1:-1])
                if not m or m.group(3) != " ":
                    return None
                c = {"ip": int(m.group(1)), "fd": len(m.group(2) or ""), "fp": int(m.group(2) or 0)}
                evs.append({"k": "inact", "side": side, "form": "inact", "coef": c, "key": key_rec(m.group(4))})
                continue
            m = _TERM_RE.match(term)
            if not m or " " in m.group(4) or wholly_parenthesised(m.group(4)):
                return None
            if m.group(1) is None:
                if m.group(4)[0].isdigit() and not m.group(4).isalnum():
                    return None
                evs.append({"k": "term", "side": side, "form": "bare", "coef": dict(ONE), "key": key_rec(m.group(4))})
                continue
            if m.group(1).startswith("0") and len(m.group(1)) > 1:
                return None
            c = {"ip": int(m.group(1)), "fd": len(m.group(2) or ""), "fp": int(m.group(2) or 0)}
            if c["ip"] == 0 and c["fp"] == 0:
                return None
            form = "dec" if c["fd"] else ("nstar" if m.group(3) == " * " else "n")
            if c["fd"] and m.group(3) != " ":
                return None
            evs.append({"k": "term", "side": side, "form": form, "coef": c, "key": key_rec(m.group(4))})
    if len(parts) > 1:
        p = parts[1]
        if not p.startswith(" "):
            return None
        p = p[1:]
        m = re.match(r"^(-?)(\d+)(?:\.(\d+))?(?:e(-?\d+))?$", p)
        if not m:
            return None
        ip, fp, ex = m.group(2), m.group(3), m.group(4)
        if len(ip) > 1 and ip.startswith("0"):
            return None
        digs = [int(ch) for ch in ip + (fp or "")]
        e = len(ip) - 1 + int(ex or 0)
        if ex is not None:
            if len(ip) != 1 or ip == "0" or (fp is not None and fp.endswith("0")):
                return None
            style = "sci"
        elif fp is None:
            style = "int"
        else:
            style = "fix"
        while digs and digs[0] == 0:
            digs.pop(0)
            e -= 1
        trail = 0
        while digs and digs[-1] == 0:
            digs.pop()
            trail += 1
        if not digs:
            return None
        if style == "fix" and (trail > 1 or (trail == 1 and fp != "0")):
            return None
        v = {"neg": m.group(1) == "-", "digs": digs, "e": e}
        if param_text(v, style) != p:
            return None
        evs.append({"k": "param", "v": v, "style": style})
    if len(parts) > 2:
        kws = parts[2]
        if not kws.startswith(" "):
            return None
        items = kws[1:].split(", ")
        for it in items:
            m = re.match(r"^(ref|name)='([^']+)'$", it)
            if not m:
                return None
            evs.append({"k": "kw", "key": m.group(1), "val": m.group(2)})
    evs.append({"k": "finish"})
    return evs
