# -*- coding: utf-8 -*-
"""Binding layer for spec/ReactionText.tla (C12): token events -> text, calling chempy's readers
and printers, structural projection of the resulting objects, a seeded event generator beyond
the exhaustive bounds and a small lexer for foreign reaction lines (the repository's own tests).

Nothing here decides what a text means: expected denotations come from TLC (CASE lines) or the
recorded observation is judged by TLC (ReactionTextTrace).
"""
import re

from formula_common import enc_rational
from numbers_common import dec_of, float_of

ONE = {"ip": 1, "fd": 0, "fp": 0}


# ---------------------------------------------------------------- events -> text
DEFAULT_CFG = {"chk": "checks", "spc": "normal", "eol": "lf", "gmode": "default", "ctoks": "default", "msfk": False, "dq": False,
               "argname": "", "argref": "", "argparam": {"some": False}}
NO_LIST = {"given": False, "keys": [], "form": "list"}


def coef_text(c):
    s = str(c["ip"])
    if c["fd"]:
        s += "." + str(c["fp"]).zfill(c["fd"])
    return s


def mantissa(v):
    digs = "".join(str(d) for d in v["digs"])
    return digs[0] + (("." + digs[1:]) if len(digs) > 1 else "")


def param_text(v, style):
    if style == "zero":
        return "0"
    if style == "zerof":
        return "0.0"
    digs = "".join(str(d) for d in v["digs"])
    sign = "-" if v["neg"] else ""
    e = v["e"]
    if style == "sci":
        return "%s%se%d" % (sign, mantissa(v), e)
    if style == "sciE":
        return "%s%sE%d" % (sign, mantissa(v), e)
    if style == "sciP":
        return "%s%se%s%02d" % (sign, mantissa(v), "-" if e < 0 else "+", abs(e))
    if style == "pow10":
        return "10**%d" % e
    if style == "int":
        return sign + digs.ljust(e + 1, "0")
    if e >= 0:
        ip = digs[:e + 1].ljust(e + 1, "0")
        fp = digs[e + 1:] or "0"
        return "%s%s.%s" % (sign, ip, fp)
    return "%s0.%s%s" % (sign, "0" * (-e - 1), digs)


def param_event_text(ev):
    kind = ev.get("kind", "num")
    if kind == "sym":
        return "'%s'" % ev["name"]
    t = param_text(ev["v"], ev["style"])
    return t + ev["expr"] if kind == "qty" else t


def term_text(ev, gap):
    if ev["form"] == "inact":
        return "(%s%s%s)" % (coef_text(ev["coef"]), gap, ev["key"]["t"])
    if ev["form"] == "bare":
        return ev["key"]["t"]
    if ev["form"] in ("nstar", "decstar"):
        return "%s%s*%s%s" % (coef_text(ev["coef"]), gap, gap, ev["key"]["t"])
    return "%s%s%s" % (coef_text(ev["coef"]), gap, ev["key"]["t"])


def events_doc(events):
    """-> (doc: list of line texts, klass, allowed record, cfg record).  Mirrors the way
    ReactionText.tla writes the text (TLC compares the two)."""
    doc, line, nside, nkw = [], "", 0, 0
    klass, allowed, cfg = "", dict(NO_LIST), dict(DEFAULT_CFG)
    for ev in events:
        k = ev["k"]
        wide, tight = cfg["spc"] == "wide", cfg["spc"] == "tight"
        gap = "  " if wide else " "
        semi = " ;  " if wide else (";" if tight else "; ")
        comma = " ,  " if wide else ("," if tight else ", ")
        if k == "allowed":
            allowed = {"given": True, "keys": list(ev["keys"]), "form": ev.get("form", "list")}
        elif k == "config":
            cfg = dict(ev["cfg"])
        elif k in ("term", "inact", "unknown"):
            sep = ("  +  " if wide else " + ") if nside else ("  " if (wide and line == "") else "")
            line += sep + term_text(ev, gap)
            nside += 1
        elif k in ("arrow", "wrongarrow"):
            line += ("   %s  " if wide else " %s ") % ev["a"]
            nside = 0
            if not klass:
                normal = "Reaction" if ev["a"] == "->" else "Equilibrium"
                other = "Equilibrium" if ev["a"] == "->" else "Reaction"
                klass = normal if k == "arrow" else other
        elif k == "param":
            line += semi + param_event_text(ev)
        elif k == "kw":
            q = '"' if cfg["dq"] else "'"
            line += (semi if nkw == 0 else comma) + "%s=%s%s%s" % (ev["key"], q, ev["val"], q)
            nkw += 1
        elif k in ("comment", "stale"):
            doc.append(ev["c"]["t"])
        elif k in ("newline", "finish", "missingarrow"):
            if k == "missingarrow":
                klass = ev["klass"]
            if line or k != "finish":
                doc.append(line + (" " if wide else ""))
            line, nside, nkw = "", 0, 0
        elif k in ("print", "parse", "result"):
            pass
        else:
            raise ValueError(k)
    return doc, klass, allowed, cfg


# ---------------------------------------------------------------- projections
def project_map(m):
    out = []
    for k in sorted(m, key=str):
        q = enc_rational(m[k])
        if q is None or not isinstance(k, str):
            return None
        out.append([k, q])
    return out


def project_param(p):
    if p is None:
        return {"some": False}
    if isinstance(p, bool):
        return None
    if isinstance(p, (int, float)):
        d = dec_of(p)
        return None if d is None else {"some": True, "kind": "num", "v": d}
    if hasattr(p, "dimensionality") and hasattr(p, "magnitude"):
        try:
            d = dec_of(float(p.magnitude))
        except Exception:
            return None
        return None if d is None else {"some": True, "kind": "qty", "v": d, "unit": str(p.dimensionality)}
    # a symbolic mass-action constant: MassAction(Symbol(unique_keys=(name,)))
    try:
        if type(p).__name__ == "MassAction" and len(p.args) == 1 and type(p.args[0]).__name__ == "Symbol":
            uk = p.args[0].unique_keys
            if len(uk) == 1 and isinstance(uk[0], str):
                return {"some": True, "kind": "sym", "name": uk[0]}
    except Exception:
        pass
    return None


def project_rxn(r):
    """Reaction -> abstract line record, or None when something is outside the vocabulary."""
    out = {}
    for f, attr in (("reac", "reac"), ("prod", "prod"), ("ireac", "inact_reac"), ("iprod", "inact_prod")):
        out[f] = project_map(getattr(r, attr))
        if out[f] is None:
            return None
    out["param"] = project_param(r.param)
    if out["param"] is None:
        return None
    out["ref"] = r.ref if isinstance(r.ref, str) else ("" if r.ref is None else repr(r.ref))
    out["name"] = r.name if isinstance(r.name, str) else ("" if r.name is None else repr(r.name))
    return out


# ---------------------------------------------------------------- calling chempy
def _classes(klass, system):
    from chempy import Reaction, Equilibrium, ReactionSystem
    if not system:
        return Reaction if klass == "Reaction" else Equilibrium
    if klass in ("Reaction", ""):
        return ReactionSystem
    from chempy.equilibria import EqSystem
    return EqSystem


def _container(allowed):
    """The allowed-key list in the container the case asks for."""
    if not allowed["given"]:
        return None
    keys, form = list(allowed["keys"]), allowed["form"]
    if form == "tuple":
        return tuple(keys)
    if form == "set":
        return set(keys)
    if form == "str":
        return " ".join(keys)
    if form == "dict":
        from collections import OrderedDict
        from chempy import Substance
        return OrderedDict((k, Substance(k)) for k in keys)
    if form == "alias":
        # the substances carry names of their own; the keys are what texts are written with
        from collections import OrderedDict
        from chempy import Substance
        return OrderedDict((k, Substance("name_of<%s>" % k)) for k in keys)
    return keys


def join_doc(doc, eol):
    if eol == "crlf":
        return "\r\n".join(doc) + "\r\n"
    if eol == "lfnt":
        return "\n".join(doc)
    return "\n".join(doc) + "\n"


def read(doc, klass, system, allowed, cfg, nochecks, use_args=True):
    """Hand the text to the real reader under the configuration.  -> (object, list of Reactions)"""
    from chempy import Substance
    text = join_doc(doc, cfg["eol"])
    keys = _container(allowed)
    rkw = {}
    if cfg["gmode"] == "empty":
        rkw["globals_"] = {}
    elif cfg["gmode"] == "none":
        rkw["globals_"] = False
    if nochecks:
        if cfg.get("chk") == "dontcheck":
            # the same through the other door: every default check named in dont_check
            rkw["dont_check"] = {"any_effect", "all_positive", "all_integral", "consistent_units"}
        else:
            rkw["checks"] = ()
    if not system:
        cls = _classes(klass, False)
        if use_args:
            if cfg["argname"]:
                rkw["name"] = cfg["argname"]
            if cfg["argref"]:
                rkw["ref"] = cfg["argref"]
            if cfg["argparam"]["some"]:
                rkw["param"] = float_of(cfg["argparam"]["v"])
        r = cls.from_string(text, keys, **rkw)
        return r, [r]
    cls = _classes(klass, True)
    kw = {"substance_factory": Substance}
    if rkw:
        kw["rxn_parse_kwargs"] = rkw
    if nochecks:
        if cfg.get("chk") == "dontcheck":
            kw["dont_check"] = {"balance", "substance_keys", "duplicate", "duplicate_names"}
        else:
            kw["checks"] = ()
    if cfg["ctoks"] == "custom":
        kw["comment_tokens"] = ("//", "%")
    if cfg["msfk"]:
        kw["missing_substances_from_keys"] = True
    rs = cls.from_string(text, keys, **kw)
    return rs, list(rs.rxns)


EDIT_LOW, EDIT_HIGH = "!M", "~M"      # ReactionText!EditLow / EditHigh (TLC checks them: clause copy-edit-keys)


def _edit_then_copy(doc, klass, system, allowed, cfg, nochecks, obs):
    """History: read the text afresh, add a species in place to every reaction (one key sorting
    before, one after all others), copy: equal? same printed text? what does the copy hold?"""
    try:
        obj, rxns = read(doc, klass, system, allowed, cfg, nochecks)
        eq, same, lines = True, True, []
        for r in rxns:
            r.reac[EDIT_LOW] = r.reac.get(EDIT_LOW, 0) + 1
            r.prod[EDIT_HIGH] = r.prod.get(EDIT_HIGH, 0) + 2
            c = r.copy()
            eq = eq and bool(c == r) and bool(r == c) and not bool(c != r)
            same = same and (c.string(with_param=True, with_name=True) == r.string(with_param=True, with_name=True))
            lines.append(project_rxn(c))
        obs["edit_copy_eq"], obs["edit_str_eq"] = eq, same
        obs["edit_lines"] = lines if all(x is not None for x in lines) else []
    except Exception as e:
        obs["edit_copy_eq"] = False
        obs["edit_exc"] = "%s: %s" % (type(e).__name__, str(e)[:120])


def _twins(doc, klass, system, allowed, cfg, nochecks, obs):
    """History: the same text read twice in one process gives equal objects that share nothing."""
    try:
        o1, r1 = read(doc, klass, system, allowed, cfg, nochecks)
        o2, r2 = read(doc, klass, system, allowed, cfg, nochecks)
        obs["twin_eq"] = bool(o1 == o2) and len(r1) == len(r2) and all(bool(a == b) for a, b in zip(r1, r2))
        before = [project_rxn(r) for r in r2]
        for r in r1:
            for attr in ("reac", "prod", "inact_reac", "inact_prod"):
                d = getattr(r, attr)
                for k in list(d):
                    d[k] = d[k] + 1
                d["@@twin"] = 2
            r.data["@@"] = 1
        obs["twin_indep"] = [project_rxn(r) for r in r2] == before
    except Exception as e:
        obs["twin_eq"] = False
        obs["twin_exc"] = "%s: %s" % (type(e).__name__, str(e)[:120])


def observe(doc, klass, system, allowed, cfg, nochecks, want_rt, override=None):
    """Everything C12 looks at for one text, projected.  nochecks: switch the constructor's
    documented default checks (all_integral, any_effect, consistent_units, duplicate) off."""
    obs = {"doc": doc, "klass": klass, "raised": False, "exc": "", "lines": [], "copy_eq": True,
           "copy_lines": [], "rts": [], "retried": False, "substances": [], "copy_indep": True,
           "after_lines": [], "copy_over_lines": [], "edit": {"low": EDIT_LOW, "high": EDIT_HIGH},
           "edit_lines": [], "edit_copy_eq": True, "edit_str_eq": True, "twin_eq": True, "twin_indep": True,
           "reassign": {"raised": False, "lines": []}}
    try:
        obj, rxns = read(doc, klass, system, allowed, cfg, nochecks)
    except Exception as e:
        obs["raised"] = True
        obs["exc"] = "%s: %s" % (type(e).__name__, str(e)[:120])
        if nochecks:
            return obs
        # separate "reading the text" from the constructor's default checks: read again with the
        # checks switched off; if that succeeds the reading itself is what gets compared
        try:
            obj, rxns = read(doc, klass, system, allowed, cfg, True)
        except Exception:
            return obs
        obs["retried"] = True
        obs["raised"] = False
        nochecks = True
    lines = [project_rxn(r) for r in rxns]
    if any(x is None for x in lines):
        obs["unencodable"] = True
        return obs
    obs["lines"] = lines
    if system:
        obs["substances"] = sorted(str(k) for k in obj.substances)
    # copy: equal, same content; independent of the original; copy(param=...) replaces only the parameter
    try:
        copies = [r.copy() for r in rxns]
        obs["copy_eq"] = all(bool(c == r) and bool(r == c) and c is not r for c, r in zip(copies, rxns))
        cl = [project_rxn(c) for c in copies]
        obs["copy_lines"] = cl if all(x is not None for x in cl) else []
        indep = True
        for c, r in zip(copies, rxns):
            for attr in ("reac", "prod", "inact_reac", "inact_prod"):
                d = getattr(c, attr)
                for k in list(d):
                    d[k] = d[k] + 1
                d["@@extra"] = 3
            c.data["@@"] = 1
            indep = indep and bool(c != r) and not bool(c == r)
        obs["copy_indep"] = indep
        al = [project_rxn(r) for r in rxns]
        obs["after_lines"] = al if all(x is not None for x in al) else []
        if override is not None:
            ol = [project_rxn(r.copy(param=float_of(override))) for r in rxns]
            obs["copy_over_lines"] = ol if all(x is not None for x in ol) else []
    except Exception as e:
        obs["copy_eq"] = False
        obs["copy_exc"] = "%s: %s" % (type(e).__name__, str(e)[:120])
    _edit_then_copy(doc, klass, system, allowed, cfg, nochecks, obs)
    _twins(doc, klass, system, allowed, cfg, nochecks, obs)
    if not want_rt:
        return obs
    # print under every requested option (with_param, with_name), then read the printed text
    # (default spelling configuration, same key list / reader options, no keyword arguments)
    from chempy import Substance
    rcfg = dict(cfg, spc="normal", eol="lf", gmode="default", dq=False)
    printers = []
    for wp, wn, nd, rtno in want_rt:
        bits = "%d%d" % (wp, wn)
        if nd != 3:
            # the printer's magnitude_fmt setting away from its default (reactions only)
            printers.append(("s%sd%d" % (bits, nd), wp, wn, nd, rtno, lambda o, wp=wp, wn=wn, nd=nd: o.string(
                with_param=wp, with_name=wn, magnitude_fmt=lambda x: ("%%.%dg" % nd) % x)))
            continue
        if system:
            printers.append(("y" + bits, wp, wn, nd, rtno, lambda o, wp=wp, wn=wn: o.string(with_param=wp, with_name=wn)))
            if wp and wn:
                printers.append(("ydef", wp, wn, nd, rtno, lambda o: o.string()))
        else:
            printers.append(("s" + bits, wp, wn, nd, rtno, lambda o, wp=wp, wn=wn: o.string(with_param=wp, with_name=wn)))
            if wp and wn:
                printers.append(("str", wp, wn, nd, rtno, lambda o: str(o)))
            if not wp and not wn:
                printers.append(("sdef", wp, wn, nd, rtno, lambda o: o.string()))
            if wp and not wn:
                # the substances mapping of string(): keys are printed through their Substance
                printers.append(("smap", wp, wn, nd, rtno, lambda o: o.string(
                    dict((k, Substance(k)) for k in o.keys()), with_param=True)))
    for kind, wp, wn, nd, rtno, pr in printers:
        rtno = bool(nochecks or rtno)
        rt = {"kind": kind, "wp": bool(wp), "wn": bool(wn), "nd": nd, "raised": False, "lines": [], "eq": False, "text": ""}
        try:
            txt = pr(obj)
            rt["text"] = txt
            pdoc = [ln for ln in txt.split("\n")]
            while pdoc and pdoc[-1] == "":
                pdoc.pop()
            try:
                obj2, rxns2 = read(pdoc, klass, system, allowed, rcfg, rtno, use_args=False)
            except Exception:
                if rtno:
                    raise
                # as above: tell the reading of the printed text from the constructor's checks
                obj2, rxns2 = read(pdoc, klass, system, allowed, rcfg, True, use_args=False)
                rt["retried"] = True
            ls = [project_rxn(r) for r in rxns2]
            if any(x is None for x in ls):
                rt["raised"] = True
                rt["exc"] = "unencodable"
            else:
                rt["lines"] = ls
                rt["eq"] = bool(obj2 == obj) and bool(obj == obj2)
        except Exception as e:
            rt["raised"] = True
            rt["exc"] = "%s: %s" % (type(e).__name__, str(e)[:120])
        obs["rts"].append(rt)
    # history: reassign the parameter of the read object(s), print (with_param), read back
    if override is not None:
        try:
            objr, rxr = read(doc, klass, system, allowed, cfg, nochecks)
            for r in rxr:
                r.param = float_of(override)
            txt = objr.string(with_param=True, with_name=False)
            pdoc = txt.split("\n")
            while pdoc and pdoc[-1] == "":
                pdoc.pop()
            o2, r2 = read(pdoc, klass, system, allowed, rcfg, True, use_args=False)
            ls = [project_rxn(r) for r in r2]
            if any(x is None for x in ls):
                obs["reassign"] = {"raised": True, "lines": [], "exc": "unencodable"}
            else:
                obs["reassign"] = {"raised": False, "lines": ls}
        except Exception as e:
            obs["reassign"] = {"raised": True, "lines": [], "exc": "%s: %s" % (type(e).__name__, str(e)[:120])}
    return obs


# ---------------------------------------------------------------- seeded event generator
_ATOMS = ["H", "C", "N", "O", "Na", "Cl", "Fe", "S", "Ca", "Cu", "K", "P", "Mn"]
_POOL = ["H2O", "H+", "OH-", "e-", "NH4+", "SO4-2", "(NH4)2SO4", "[Fe(CN)6]-4", "[Fe(CN)6]-3", "{X}", "A", "B", "C",
         "H2O(l)", "CO2(g)", "NaCl(s)", "Fe+3(aq)", "A'", "B*", "A**", "(CH3)3COH", "(NH4)2SO4(s)", "Ca(OH)2",
         "Ca(OH)2(s)", "CuSO4..5H2O", ".NO2", "alpha-Fe2O3", "Cu(NH3)4+2", "{A}n", "[B]", "O2", "H2", "NO3-"]


def rand_key(rng):
    if rng.random() < 0.6:
        return rng.choice(_POOL)
    s = ""
    for _ in range(rng.randint(1, 3)):
        u = rng.random()
        if u < 0.2:
            o, c = rng.choice(["()", "[]", "{}"])
            s += o + rng.choice(_ATOMS) + rng.choice(["", "2", "3"]) + rng.choice(_ATOMS + [""]) + rng.choice(["", "4"]) + c + rng.choice(["", "2", "3", "12"])
        else:
            s += rng.choice(_ATOMS) + rng.choice(["", "", "2", "3", "10"])
    s += rng.choice(["", "", "", "+", "-", "+2", "-3"])
    s += rng.choice(["", "", "", "(aq)", "(s)", "(g)"])
    s += rng.choice(["", "", "", "", "'", "*"])
    return s


def key_rec(t):
    return {"t": t, "lead": t[0] if t[0] in "([{" else ""}


def wholly_parenthesised(t):
    """'(X)': a key that is one parenthesised group - the notation cannot tell it from an inactive
    term without a coefficient; such keys are not generated."""
    if not (t.startswith("(") and t.endswith(")")):
        return False
    d = 0
    for i, ch in enumerate(t):
        if ch == "(":
            d += 1
        elif ch == ")":
            d -= 1
            if d == 0:
                return i == len(t) - 1
    return False


def rand_coef(rng, decimal_ok=True):
    u = rng.random()
    if decimal_ok and u < 0.15:
        fd = rng.choice([1, 1, 2, 3, 4, 5])
        fp = rng.randrange(0 if rng.random() < 0.2 else 1, 10 ** fd)      # "2.0", "2.50" are decimals too
        if fp == 0:
            return {"ip": rng.choice([1, 2, 7, 12]), "fd": fd, "fp": 0}
        return {"ip": rng.choice([0, 0, 1, 2, 7, 12]), "fd": fd, "fp": fp}
    return {"ip": rng.choice([1, 2, 2, 3, 4, 5, 10, 12, 100, 999, 1000, rng.randint(1, 1000)]), "fd": 0, "fp": 0}


def rand_param(rng):
    nd = rng.choice([1, 1, 2, 3, 3, 4, 6, 9, 12, 15])
    digs = [rng.randint(1, 9)] + [rng.randint(0, 9) for _ in range(nd - 1)]
    u = rng.random()
    if u < 0.1:
        digs = [9] * rng.randint(3, 5) + [rng.randint(5, 9)]
    elif u < 0.2:
        digs = digs[:2] + [rng.randint(0, 9), 5]
    while len(digs) > 1 and digs[-1] == 0:
        digs.pop()
    e = rng.randint(-15, 15)
    v = {"neg": rng.random() < 0.05, "digs": digs, "e": e}
    styles = ["sci", "sciP", "sciE"]
    if -6 <= e <= 15:
        styles.append("fix")
    if 0 <= e <= 8 and len(digs) <= e + 1:
        styles.append("int")
    if digs == [1] and 0 <= e <= 8 and not v["neg"]:
        styles.append("pow10")
    return v, rng.choice(styles)


UNIT_EXPRS = [("/second", "1/s"), ("/molar/second", "1/(s*M)"), ("*molar", "M"), ("/molar**2/second", "1/(s*M**2)")]
COMMENTS = {"#": ["# a comment", "#", "   # A -> B; 1", "# x = y"], "//": ["// note", "  // A -> B"], "%": ["% c", "  % A = B; 1"],
            "": ["", "  "]}


def rand_cfg(rng, system):
    """A reader / spelling configuration (ReactionText!Configure): mostly one dimension off default."""
    cfg = dict(DEFAULT_CFG)
    cfg["argparam"] = {"some": False}
    for _ in range(rng.choice([1, 1, 2, 3])):
        d = rng.choice(["spc", "eol", "gmode", "dq", "ctoks", "args", "chk"])
        if d == "spc":
            cfg["spc"] = rng.choice(["wide", "tight"])
        elif d == "eol":
            cfg["eol"] = rng.choice(["lfnt", "crlf"])
        elif d == "gmode":
            cfg["gmode"] = rng.choice(["empty", "none"])
        elif d == "dq":
            cfg["dq"] = True
        elif d == "chk":
            cfg["chk"] = "dontcheck"
        elif d == "ctoks" and system:
            cfg["ctoks"] = "custom"
        elif d == "args" and not system:
            if rng.random() < 0.6:
                cfg["argname"] = rng.choice(["n1", "fwd"])
            if rng.random() < 0.5:
                cfg["argref"] = rng.choice(["r9", "doi:1/2"])
            if rng.random() < 0.5:
                v, _ = rand_param(rng)
                v["neg"] = False
                cfg["argparam"] = {"some": True, "v": v}
    return cfg


class Gen(object):
    def __init__(self, rng, max_terms=5, max_lines=5):
        self.rng = rng
        self.max_terms = max_terms
        self.max_lines = max_lines

    def _key(self, allowed=None):
        r = self.rng
        for _ in range(100):
            t = r.choice(allowed) if allowed else rand_key(r)
            if not wholly_parenthesised(t) and " " not in t and t:
                return t
        return "A"

    def _side(self, side, allowed):
        r = self.rng
        evs = []
        n = r.randint(1, self.max_terms)
        reuse = []
        for i in range(n):
            t = r.choice(reuse) if reuse and r.random() < 0.25 else self._key(allowed)
            reuse.append(t)
            u = r.random()
            if u < 0.15:
                evs.append({"k": "inact", "side": side, "form": "inact", "coef": rand_coef(r), "key": key_rec(t)})
                continue
            form = r.choice(["bare", "bare", "n", "n", "nstar", "dec", "decstar"])
            if form == "bare":
                c = dict(ONE)
            elif form in ("dec", "decstar"):
                c = rand_coef(r)
                if c["fd"] == 0:
                    form = "n" if form == "dec" else "nstar"
            else:
                c = rand_coef(r, decimal_ok=False)
            evs.append({"k": "term", "side": side, "form": form, "coef": c, "key": key_rec(t)})
        return evs

    def _line(self, arrow, allowed, cfg, with_name=True):
        r = self.rng
        evs = self._side("reac", allowed)
        evs.append({"k": "arrow", "a": arrow})
        evs += self._side("prod", allowed)
        if r.random() < 0.6 and not cfg["argparam"]["some"]:
            u = r.random()
            if u < 0.12:
                evs.append({"k": "param", "kind": "sym", "name": r.choice(["k", "k1", "K_w", "kf_2"])})
            elif u < 0.24 and cfg["gmode"] != "empty":
                v, st = rand_param(r)
                if st == "pow10":
                    st = "sci"
                ex, dim = r.choice(UNIT_EXPRS)
                evs.append({"k": "param", "kind": "qty", "v": v, "style": st, "expr": ex, "unit": dim})
            elif u < 0.28:
                evs.append({"k": "param", "kind": "num", "v": {"neg": False, "digs": [], "e": 0},
                            "style": r.choice(["zero", "zerof"])})
            else:
                v, st = rand_param(r)
                evs.append({"k": "param", "kind": "num", "v": v, "style": st})
            if r.random() < 0.3:
                ks = ["ref"] + (["name"] if with_name else [])
                r.shuffle(ks)
                for k in ks[:r.randint(1, len(ks))]:
                    evs.append({"k": "kw", "key": k, "val": r.choice(["doi:12/ab", "r1", "k_f", "Smith 1999, p. 4"])})
        return evs

    def text(self, system=None, fault=None):
        """One text (single line or system); fault in (None, 'unknown', 'missingarrow', 'wrongarrow',
        'stale') injects exactly one rejection class."""
        r = self.rng
        if system is None:
            system = r.random() < 0.3
        if fault == "stale":
            system = True
        if fault in ("missingarrow", "wrongarrow"):
            system = False
        arrow = r.choice(["->", "->", "="])
        evs = []
        allowed = None
        if fault == "unknown" or r.random() < 0.25:
            allowed = sorted(set(self._key() for _ in range(r.randint(2, 6))))
            if len(allowed) < 2:
                allowed = sorted(set(allowed + ["A", "B"]))
            form = r.choice(["list", "list", "tuple", "set", "dict", "str", "alias"])
            if fault == "unknown" and r.random() < 0.15:
                allowed, form = [], r.choice(["list", "tuple", "set", "dict"])      # an EMPTY list allows nothing
            evs.append({"k": "allowed", "keys": allowed, "form": form})
        cfg = dict(DEFAULT_CFG)
        if r.random() < 0.35 or fault == "stale":
            cfg = rand_cfg(r, system)
            if allowed and system and fault != "unknown" and r.random() < 0.3:
                cfg["msfk"] = True
            if cfg != DEFAULT_CFG:
                evs.append({"k": "config", "cfg": cfg})
        active = ["//", "%"] if cfg["ctoks"] == "custom" else ["#"]
        nl = r.randint(1, self.max_lines) if system else 1
        for i in range(nl):
            if system and r.random() < 0.4:
                tok = r.choice(active + [""])
                evs.append({"k": "comment", "c": {"t": r.choice(COMMENTS[tok]), "tok": tok}})
            if fault == "stale" and i == nl - 1:
                tok = r.choice([t for t in ("#", "//", "%") if t not in active])
                evs.append({"k": "stale", "c": {"t": r.choice(COMMENTS[tok]), "tok": tok}})
            ln = self._line(arrow, None if cfg["msfk"] and r.random() < 0.5 else allowed, cfg,
                            with_name=not system or r.random() < 0.2)
            # a system refuses duplicate names only through its default checks; seeded texts are read
            # with the checks off, names may repeat
            if fault == "missingarrow":
                ln = [e for e in ln if e["k"] in ("term", "inact") and e["side"] == "reac"]
                evs += ln
                evs.append({"k": "missingarrow", "klass": r.choice(["Reaction", "Equilibrium"])})
                return evs, system
            if fault == "wrongarrow":
                for e in ln:
                    if e["k"] == "arrow":
                        e["k"] = "wrongarrow"
            if fault == "unknown" and i == nl - 1:
                cands = [j for j, e in enumerate(ln) if e["k"] in ("term", "inact")]
                j = r.choice(cands)
                for _ in range(100):
                    t = self._key()
                    if t not in allowed:
                        break
                e = dict(ln[j])
                e["k"] = "unknown"
                e["key"] = key_rec(t)
                ln[j] = e
            evs += ln
            if i < nl - 1:
                evs.append({"k": "newline"})
        if system and r.random() < 0.3:
            evs.append({"k": "newline"})
            tok = r.choice(active)
            evs.append({"k": "comment", "c": {"t": r.choice(COMMENTS[tok]), "tok": tok}})
        evs.append({"k": "finish"})
        if allowed is not None and not allowed:
            # nothing is allowed: every term names an unknown key
            evs = [dict(e, k="unknown") if e["k"] in ("term", "inact") else e for e in evs]
        return evs, system


# ---------------------------------------------------------------- structural facts about events
def line_facts(events):
    """Bookkeeping over the generated tokens (no denotation): does the text contain an injected
    fault; is it printable (no parenthesised term) and under which printing options (names
    cannot be printed parseably, quantities neither); is it read by the system readers."""
    fault = any(e["k"] in ("unknown", "missingarrow", "wrongarrow", "stale") for e in events)
    inact = any(e["k"] == "inact" or (e["k"] == "unknown" and e["form"] == "inact") for e in events)
    cfg = dict(DEFAULT_CFG)
    for e in events:
        if e["k"] == "config":
            cfg = e["cfg"]
    named = any(e["k"] == "kw" and e["key"] == "name" for e in events) or bool(cfg["argname"])
    qty = any(e["k"] == "param" and e.get("kind") == "qty" for e in events) and cfg["gmode"] != "none"
    nlines = sum(1 for e in events if e["k"] in ("newline", "finish", "missingarrow")
                 ) if any(e["k"] in ("term", "inact", "unknown") for e in events) else 0
    opts = [(wp, wn, 3, True) for wp in (True, False) for wn in (True, False) if not (wn and named) and not (wp and qty)]
    system = (sum(1 for e in events if e["k"] == "newline") > 0 or any(e["k"] in ("comment", "stale") for e in events)
              or cfg["msfk"] or cfg["ctoks"] != "default")
    if not system and not qty:
        opts.append((True, False, 10, True))      # magnitude_fmt with ten digits (reactions only)
    return {"fault": fault, "printable": not fault and not inact and bool(opts), "print_opts": opts,
            "system": system, "allowed": any(e["k"] == "allowed" for e in events), "nlines": nlines}


# ---------------------------------------------------------------- lexer for foreign lines
_TERM_RE = re.compile(r"^(?:(\d+)(?:\.(\d{1,3}))?( \* | ))?(\S+)$")


def _lex_param(p):
    msym = re.match(r"^'([A-Za-z_][A-Za-z0-9_]*)'$", p)
    if msym:
        return {"k": "param", "kind": "sym", "name": msym.group(1)}
    unit = None
    for ex, dim in UNIT_EXPRS:
        if p.endswith(ex) and re.match(r"^[-0-9.e]+$", p[:-len(ex)]):
            unit = (ex, dim)
            p = p[:-len(ex)]
            break
    m = re.match(r"^(-?)(\d+)(?:\.(\d+))?(?:e(-?\d+))?$", p)
    if not m:
        return None
    ip, fp, ex = m.group(2), m.group(3), m.group(4)
    if len(ip) > 1 and ip.startswith("0"):
        return None
    digs = [int(ch) for ch in ip + (fp or "")]
    e = len(ip) - 1 + int(ex or 0)
    if ex is not None:
        if len(ip) != 1 or ip == "0" or (fp is not None and fp.endswith("0")):
            return None
        style = "sci"
    elif fp is None:
        style = "int"
    else:
        style = "fix"
    while digs and digs[0] == 0:
        digs.pop(0)
        e -= 1
    trail = 0
    while digs and digs[-1] == 0:
        digs.pop()
        trail += 1
    if not digs:
        return None
    if style == "fix" and (trail > 1 or (trail == 1 and fp != "0")):
        return None
    v = {"neg": m.group(1) == "-", "digs": digs, "e": e}
    if param_text(v, style) != p:
        return None
    if unit is not None:
        return {"k": "param", "kind": "qty", "v": v, "style": style, "expr": unit[0], "unit": unit[1]}
    return {"k": "param", "kind": "num", "v": v, "style": style}


def lex_line(text):
    """A reaction line written by somebody else (the repository's tests) -> events, or None when
    it uses something outside the modelled notation (expressions or units as parameter, keys
    with spaces ...).  Whether the lexing is right is decided by TLC: the specification rebuilds
    the text from the events and compares it with the original."""
    parts = text.split(";")
    if len(parts) > 3:
        return None
    st = parts[0]
    if " -> " in st:
        a = "->"
    elif " = " in st:
        a = "="
    else:
        return None
    lhs, rhs = st.split(" %s " % a, 1)
    evs = []
    for side, s in (("reac", lhs), ("prod", rhs)):
        if side == "prod":
            evs.append({"k": "arrow", "a": a})
        for term in s.split(" + "):
            if term.startswith("(") and term.endswith(")") and " " in term:
                m = _TERM_RE.match(term[1:-1])
                if not m or m.group(3) != " ":
                    return None
                c = {"ip": int(m.group(1)), "fd": len(m.group(2) or ""), "fp": int(m.group(2) or 0)}
                evs.append({"k": "inact", "side": side, "form": "inact", "coef": c, "key": key_rec(m.group(4))})
                continue
            m = _TERM_RE.match(term)
            if not m or " " in m.group(4) or wholly_parenthesised(m.group(4)):
                return None
            if m.group(1) is None:
                if m.group(4)[0].isdigit() and not m.group(4).isalnum():
                    return None
                evs.append({"k": "term", "side": side, "form": "bare", "coef": dict(ONE), "key": key_rec(m.group(4))})
                continue
            if m.group(1).startswith("0") and len(m.group(1)) > 1:
                return None
            c = {"ip": int(m.group(1)), "fd": len(m.group(2) or ""), "fp": int(m.group(2) or 0)}
            if c["ip"] == 0 and c["fp"] == 0:
                return None
            form = "dec" if c["fd"] else ("nstar" if m.group(3) == " * " else "n")
            if c["fd"] and m.group(3) != " ":
                return None
            evs.append({"k": "term", "side": side, "form": form, "coef": c, "key": key_rec(m.group(4))})
    if len(parts) > 1:
        p = parts[1]
        if not p.startswith(" "):
            return None
        ev = _lex_param(p[1:])
        if ev is None:
            return None
        evs.append(ev)
    if len(parts) > 2:
        kws = parts[2]
        if not kws.startswith(" "):
            return None
        items = kws[1:].split(", ")
        for it in items:
            m = re.match(r"^(ref|name)='([^']+)'$", it)
            if not m:
                return None
            evs.append({"k": "kw", "key": m.group(1), "val": m.group(2)})
    evs.append({"k": "finish"})
    return evs
