"""Per-property registration data for MANIFEST.json (tools/gen_manifest.py)."""

HOOK_COMMITS = []
NOTES = ("All checks: ./check <id> --tier quick|thorough; exit 0 held / 1 VIOLATION / 2 machinery failure. "
         "Specification in /verif/spec (TLA+), binding layer in /verif/harness. See DESIGN.md.")

MC = "model_checking"
EX = "exploration"

PROPS = {
    "C01": dict(claimed=True, level=MC, design_ref="4/C01",
                technique="TLA+ stack-machine spec of the formula grammar; TLC exhaustive slices -> generated cases replayed into the parser; TLC trace validation of seeded parser executions",
                text="TLC enumerates every formula of the sliced bounded grammars (all 118 symbols and all 118^2 adjacencies; nesting, counts, hydrates, charges/prefixes/suffixes, the three rejection classes), checks operational = declarative denotation on each state, and each terminal state is replayed into formula_to_composition and Substance.from_formula; seeded token sequences beyond the bounds are judged by TLC trace validation.",
                note="bounded slices + sampling beyond; symbol table in spec/Periodic.tla is the trusted reference; float counts encoded as rationals to 1e-12"),
    "C13": dict(claimed=True, level=MC, design_ref="4/C13",
                technique="TLA+ Formula spec derives abstract presentation tokens; un-presentation lexers bind the three renderers to it (TLC-generated cases + TLC trace validation); ReactionRender.tla for printed reactions",
                text="For every formula of the sliced exhaustive Formula_MC configs TLC derives the presentation tokens a faithful rendering shows; the LaTeX/Unicode/HTML outputs (functions and Substance/Species attributes) are un-presented and must equal them, the re-assembled text must parse to the spec's composition, phase_idx must equal the spec's; printed reactions/equilibria in four printers are compared with ReactionRender's token sequences; seeded deeper formulas are judged by TLC trace validation.",
                note="un-presentation lexers (format tables) are trusted; bounded slices + seeded sampling beyond"),
    "C14": dict(claimed=True, level=MC, design_ref="4/C14",
                technique="TLA+ Periodic/Mass specs (exact big-number masses) with TLC-generated element, formula and mixture cases replayed into chempy; TLC trace validation of seeded formula masses",
                text="TLC checks the reference table's consistency invariants and emits one case per element (symbol, name, weight, period/group); every formula of the Formula_MC slices carries its exact mass (limb arithmetic); MassMix enumerates mixtures with exact fractions; the code's table, atomic_number lookups in all letter cases, Substance.mass, mass_from_composition and mass_fractions must agree (1e-12 relative); seeded deeper formulas are judged by TLC in exact arithmetic.",
                note="reference table frozen in spec/Periodic.tla after manual review (trusted base); float rounding tolerance 1e-12 relative"),
    "C03": dict(claimed=True, level=MC, design_ref="4/C03, 11",
                technique="TLA+ Kinetics spec (rate polynomials over a 64-reaction catalog, prime-valued points); TLC-generated cases replayed into Reaction.rate / ReactionSystem.rates / dCdt_list with int, float, Fraction and symbolic variables; TLC trace validation of seeded and suite calls",
                text="TLC enumerates every system of up to 3 catalog reactions (all orders; catalysts, repeated species, inactive parts, zero order, CSTR feeds), checks permutation invariance and the inactive/untouched-species invariants, and emits the exact per-substance rate polynomial and its value at prime points; every terminal state is replayed into the three rate APIs (symbolic results compared as monomial tables); seeded larger systems and the repository tests' own calls are judged by KineticsTrace.",
                note="bounded catalog/system size; exact rational arithmetic; floats compared at the tolerance carried by the case"),
    "C04": dict(claimed=True, level=MC, design_ref="4/C04, 11",
                technique="TLA+ OdeBuild spec (build configurations x systems -> expected names, parameter set and RHS polynomials); generated cases replayed into get_odesys/_create_odesys and compared symbolically by monomial tables; TLC trace validation",
                text="For every catalog system and every accepted build configuration TLC gives the expected dependent-variable order, parameter-name set and per-substance polynomial with parameters inlined or free (invariant: binding the free symbols yields the inlined form); the real builders' exprs are projected to monomial tables with symbols mapped by name and must be identical; f_cb, rate_exprs_cb and linear_invariants are evaluated at prime points; seeded systems and suite calls are judged by OdeBuildTrace.",
                note="configurations the builders refuse by design are marked MayRefuse and skipped; native back ends not installed"),
    "C05": dict(claimed=True, level=MC, design_ref="4/C05, 11",
                technique="TLA+ Conservation spec (accept iff balanced in every key incl. charge, B matrix, Euler-step action property); generated cases and step traces validated against ReactionSystem / composition_balance_vectors / linear_dependencies; Session.tla behaviours replayed through the text pipeline",
                text="TLC enumerates balanced and single-key-unbalanced reactions (charge only, first/last position) and checks [][B.c' = B.c] along Euler steps on the model; replay requires construction success iff Accept, B exactly equal, B.N^T = 0, B.rates = 0 on integer grids, analytic eliminations reproducing the invariants (judged by TLC) and integration drift within tolerance; Session.tla sessions (text -> system -> rates -> Euler step -> split) are replayed step by step.",
                note="bounded compositions (keys 0,1,2 + formula-defined pool); integration drift is a numerical tolerance check"),
    "C06": dict(claimed=True, level=EX, design_ref="4/C06, 11",
                technique="TLA+ Conservation spec enumerates first-order network topologies / bimolecular steps with exact bounds and safe Euler step (invariant checked by TLC); trajectories from chempy compared with reference solutions computed from the spec's matrix",
                text="TLC model-checks that the documented safe Euler step keeps every state inside [0, elemental upper bound] and enumerates network topologies x decade rate constants with their generator matrices, bounds and reaction text; the text is run through from_string -> get_odesys -> integrate(scipy) and compared with expm / high-accuracy reference solutions of the spec's system, non-negativity and bounds against the spec's rationals, max_euler_step_cb against MaxEulerStep.",
                note="agreement to tolerance is judged numerically at sampled systems; only the scipy integrator is installed"),
    "C16": dict(claimed=True, level=EX, design_ref="4/C16, 11",
                technique="TLA+ ExprTree spec (argument resolution case analysis, expression-tree algebra with exact rational values, named laws as term trees) with TLC-generated cases evaluated under math/numpy/sympy/units back ends; term trees evaluated by a law-agnostic interpreter",
                text="TLC enumerates every argument-resolution configuration (nargs <= 3), expression trees of depth <= 3 with exact rational values (EvalQ) and every named rate/equilibrium law instantiated over parameter/temperature grids as term trees; the real classes are evaluated with floats, numpy, sympy-then-substitute and quantities and must agree with the exact value or the evaluated term within the case's tolerance; recorded evaluations are judged by ExprTreeTrace at rational points.",
                note="transcendental laws are judged numerically via harness/terms.py; gas constant bracketed"),
    "C17": dict(claimed=True, level=EX, design_ref="4/C17, 11",
                technique="TLA+ Integrated spec (mechanism, rate equation, initial value and advertised backends per closed form) generating rational parameter grids; residual of the rate equation obtained by CAS differentiation of the real function and evaluated at 40 digits",
                text="For each of the seven closed forms TLC fixes which differential equation and initial value must hold and enumerates function x backend x rational grid (incl. non-zero initial product, reactant above/below steady state); the binding layer differentiates the real function symbolically and evaluates d/dt f - RHS(f) and f(0) at the grid points, and evaluates every advertised backend.",
                note="identity in time is sampled at grid points; differentiation by sympy"),
    "C18": dict(claimed=True, level=EX, design_ref="4/C18, 11",
                technique="TLA+ Electrolytes spec (exact ionic strength / net charge in big-decimal arithmetic, permutation/merge/scale histories, DH laws as term trees exact at perfect-square ionic strengths) with generated cases and TLC-judged traces",
                text="TLC computes ionic strength and net charge exactly for ion sets over 12 decades of molality and |z| <= 4 in every input form, checks invariance under permute/merge/scale histories and the warning class, and checks the limiting/extended/Davies relations exactly at rational points; A and B (both code paths, with and without units), log-gammas and activity products are compared with the spec's terms over the (T, eps, rho) grid.",
                note="numerical agreement at non-rational points judged via harness/terms.py; physical constants pinned"),
    "C19": dict(claimed=True, level=EX, design_ref="4/C19, 11",
                technique="TLA+ PhysProps spec (per relation: dimensions, validity range, law as term, anchors, shape facts; call modes unitless/default/scaled units) with generated cases; TLC judges mode agreement, dimensions, warnings and observed series",
                text="TLC enumerates relation x grid point (inside and just outside each validity range) x unit mode and decides ModesDenoteSameValue, result dimension, WarnIffOutside, inverse round trips, anchors and monotone/extremum shape facts; the real functions are called in all modes (incl. inputs in mK, mM, Pa, g) and compared.",
                note="literature coefficients pinned from the cited papers as typed in chempy's docstrings; values compared at the case's tolerance"),
}
for _i in range(2, 21):
    PROPS.setdefault("C%02d" % _i, dict(claimed=False))
