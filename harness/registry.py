"""Per-property registration data for MANIFEST.json (tools/gen_manifest.py)."""

HOOK_COMMITS = []
NOTES = ("All checks: ./check <id> --tier quick|thorough; exit 0 held / 1 VIOLATION / 2 machinery failure. "
         "Specification in /verif/spec (TLA+), binding layer in /verif/harness. See DESIGN.md.")

MC = "model_checking"
EX = "exploration"

PROPS = {
    "C01": dict(claimed=True, level=MC, design_ref="4/C01",
                technique="TLA+ stack-machine spec of the formula grammar; TLC exhaustive slices -> generated cases replayed into the parser; TLC trace validation of seeded parser executions",
                text="TLC enumerates every formula of the sliced bounded grammars (all 118 symbols and all 118^2 adjacencies; nesting, counts, hydrates, charges/prefixes/suffixes, the three rejection classes), checks operational = declarative denotation on each state, and each terminal state is replayed into formula_to_composition and Substance.from_formula; seeded token sequences beyond the bounds are judged by TLC trace validation.",
                note="bounded slices + sampling beyond; symbol table in spec/Periodic.tla is the trusted reference; float counts encoded as rationals to 1e-12"),
    "C13": dict(claimed=True, level=MC, design_ref="4/C13",
                technique="TLA+ Formula spec derives abstract presentation tokens; un-presentation lexers bind the three renderers to it (TLC-generated cases + TLC trace validation); ReactionRender.tla for printed reactions",
                text="For every formula of the sliced exhaustive Formula_MC configs TLC derives the presentation tokens a faithful rendering shows; the LaTeX/Unicode/HTML outputs (functions and Substance/Species attributes) are un-presented and must equal them, the re-assembled text must parse to the spec's composition, phase_idx must equal the spec's; printed reactions/equilibria in four printers are compared with ReactionRender's token sequences; seeded deeper formulas are judged by TLC trace validation.",
                note="un-presentation lexers (format tables) are trusted; bounded slices + seeded sampling beyond"),
    "C14": dict(claimed=True, level=MC, design_ref="4/C14",
                technique="TLA+ Periodic/Mass specs (exact big-number masses) with TLC-generated element, formula and mixture cases replayed into chempy; TLC trace validation of seeded formula masses",
                text="TLC checks the reference table's consistency invariants and emits one case per element (symbol, name, weight, period/group); every formula of the Formula_MC slices carries its exact mass (limb arithmetic); MassMix enumerates mixtures with exact fractions; the code's table, atomic_number lookups in all letter cases, Substance.mass, mass_from_composition and mass_fractions must agree (1e-12 relative); seeded deeper formulas are judged by TLC in exact arithmetic.",
                note="reference table frozen in spec/Periodic.tla after manual review (trusted base); float rounding tolerance 1e-12 relative"),
}
for _i in range(2, 21):
    PROPS.setdefault("C%02d" % _i, dict(claimed=False))
