"""Run (part of) the repository's own test-suite under the external recorder and return the
recorded calls, so that every call the tests make can be judged against the full specification
rather than against the test's own assertion."""
import json
import os
import subprocess
import tempfile

import core


def record_suite(test_paths, targets, timeout=600, extra_args=()):
    """test_paths: paths relative to the repo root.  -> (records, summary)"""
    repo = core.REPO
    fd, path = tempfile.mkstemp(prefix="verif-suite-", suffix=".jsonl")
    os.close(fd)
    env = dict(os.environ)
    env["CHEMPY_VERIF_TRACE"] = path
    env["CHEMPY_VERIF_TARGETS"] = ",".join(targets)
    env["PYTHONPATH"] = repo + ":" + os.path.join(core.ROOT, "harness")
    cmd = ["timeout", str(timeout), "/venv/bin/python", "-m", "pytest", "-q", "-x", "-p", "no:cacheprovider",
           "-p", "pytest_recorder", "--continue-on-collection-errors", "-W", "ignore"] + list(extra_args) + list(test_paths)
    # -x is removed again: a failing repository test must not hide later calls
    cmd.remove("-x")
    p = subprocess.run(cmd, cwd=repo, env=env, stdout=subprocess.PIPE, stderr=subprocess.STDOUT)
    tail = p.stdout.decode("utf-8", "replace").strip().splitlines()[-1:]
    recs = []
    try:
        with open(path) as fh:
            for line in fh:
                try:
                    recs.append(json.loads(line))
                except ValueError:
                    pass
    finally:
        os.unlink(path)
    return recs, {"pytest_exit": p.returncode, "pytest_tail": tail, "records": len(recs)}
