"""Generic interpreter for the term trees of spec/Terms.tla.  Knows nothing about chemistry.

term JSON:  {"op": "const", "q": [n, d]} | {"op": "var", "name": "T"} | {"op": o, "args": [...]}
            o in add mul (n-ary)  div pow (binary)  neg exp log log10 sqrt tanh atanh sin cos abs

eval_term(term, env, prec=None, mode=None)
    env   : name -> value; a value may be int, Fraction, [n, d] (a Rational.tla pair), a decimal
            string ("8.3144", "2.08366e10"), a float or an mpmath number.
    mode  : "float"    Python floats (math module)                         [default, prec None]
            "mp"       mpmath with `prec` significant decimal digits        [default, prec given]
            "fraction" exact rationals; raises NotRational where the term is not rational at
                       the point (mirrors Terms!EvalQR: exp(0), log(1), sqrt/half-integer powers
                       of perfect squares, integer powers, log10(10^k) are exact)
    returns float | mpmath.mpf | Fraction.  Undefined points (division by zero, log of a
    non-positive number ...) raise Undefined.

Further structural helpers used by several property modules: to_fraction, env_from_json,
bracket (min/max over a list of environments), within (tolerance test), term_str.
"""
import math
from fractions import Fraction

try:
    import mpmath
except ImportError:  # pragma: no cover
    mpmath = None


class Undefined(ArithmeticError):
    """the term has no real value at the point"""


class NotRational(ArithmeticError):
    """mode="fraction" was requested but the term is not (known to be) rational at the point"""


UNARY = ("neg", "exp", "log", "log10", "sqrt", "tanh", "atanh", "sin", "cos", "abs")


def to_fraction(v):
    """int | Fraction | [n, d] | decimal string | float -> Fraction (exact)."""
    if isinstance(v, Fraction):
        return v
    if isinstance(v, bool):
        raise TypeError("bool is not a number here")
    if isinstance(v, int):
        return Fraction(v)
    if isinstance(v, (list, tuple)) and len(v) == 2:
        return Fraction(int(v[0]), int(v[1]))
    if isinstance(v, str):
        return Fraction(v)
    if isinstance(v, float):
        return Fraction(v)
    raise TypeError("cannot read %r as an exact number" % (v,))


def env_from_json(env):
    return {k: to_fraction(v) for k, v in env.items()}


def _isqrt_exact(n):
    if n < 0:
        return None
    r = math.isqrt(n)
    return r if r * r == n else None


def _frac_sqrt(q):
    a, b = _isqrt_exact(q.numerator), _isqrt_exact(q.denominator)
    if a is None or b is None:
        return None
    return Fraction(a, b)


class _FractionAlg(object):
    name = "fraction"

    def const(self, q):
        return q

    def var(self, v):
        if isinstance(v, (float,)) or (mpmath is not None and isinstance(v, mpmath.mpf)):
            raise NotRational("non-exact environment value")
        return to_fraction(v)

    def add(self, a, b):
        return a + b

    def mul(self, a, b):
        return a * b

    def div(self, a, b):
        if b == 0:
            raise Undefined("division by zero")
        return a / b

    def pow(self, b, e):
        if e.denominator == 1:
            k = e.numerator
            if k >= 0:
                return b ** k
            if b == 0:
                raise Undefined("0 ** negative")
            return (1 / b) ** (-k)
        if b < 0:
            raise Undefined("negative base, fractional exponent")
        if b == 0:
            if e > 0:
                return Fraction(0)
            raise Undefined("0 ** negative")
        if b == 1:
            return Fraction(1)
        if e.denominator == 2:
            r = _frac_sqrt(b)
            if r is not None:
                return r ** e.numerator if e.numerator >= 0 else (1 / r) ** (-e.numerator)
        raise NotRational("pow")

    def unary(self, op, x):
        if op == "neg":
            return -x
        if op == "abs":
            return abs(x)
        if op in ("exp", "cos"):
            if x == 0:
                return Fraction(1)
            raise NotRational(op)
        if op in ("tanh", "sin"):
            if x == 0:
                return Fraction(0)
            raise NotRational(op)
        if op == "atanh":
            if x == 0:
                return Fraction(0)
            if abs(x) >= 1:
                raise Undefined("atanh outside (-1, 1)")
            raise NotRational(op)
        if op == "log":
            if x <= 0:
                raise Undefined("log of non-positive")
            if x == 1:
                return Fraction(0)
            raise NotRational(op)
        if op == "log10":
            if x <= 0:
                raise Undefined("log10 of non-positive")
            for k in range(0, 40):
                if x == Fraction(10) ** k:
                    return Fraction(k)
                if x == Fraction(1, 10 ** k):
                    return Fraction(-k)
            raise NotRational(op)
        if op == "sqrt":
            if x < 0:
                raise Undefined("sqrt of negative")
            r = _frac_sqrt(x)
            if r is None:
                raise NotRational(op)
            return r
        raise ValueError("unknown unary op %r" % op)


class _FloatAlg(object):
    name = "float"

    def const(self, q):
        return q.numerator / q.denominator

    def var(self, v):
        if isinstance(v, float):
            return v
        if mpmath is not None and isinstance(v, mpmath.mpf):
            return float(v)
        q = to_fraction(v)
        return q.numerator / q.denominator

    def add(self, a, b):
        return a + b

    def mul(self, a, b):
        return a * b

    def div(self, a, b):
        if b == 0:
            raise Undefined("division by zero")
        return a / b

    def pow(self, b, e):
        if b < 0 and e != int(e):
            raise Undefined("negative base, fractional exponent")
        if b == 0 and e < 0:
            raise Undefined("0 ** negative")
        return b ** (int(e) if e == int(e) and abs(e) < 2 ** 31 else e)

    def unary(self, op, x):
        try:
            if op == "neg":
                return -x
            if op == "abs":
                return abs(x)
            if op == "log" and x <= 0 or op == "log10" and x <= 0 or op == "sqrt" and x < 0 \
                    or op == "atanh" and abs(x) >= 1:
                raise Undefined("%s(%r)" % (op, x))
            return getattr(math, op)(x)
        except (ValueError, OverflowError) as e:
            raise Undefined("%s(%r): %s" % (op, x, e))


class _MpAlg(object):
    name = "mp"

    def __init__(self, prec):
        self.ctx = mpmath.mp.clone()
        self.ctx.dps = int(prec)

    def _q(self, q):
        return self.ctx.mpf(q.numerator) / self.ctx.mpf(q.denominator)

    def const(self, q):
        return self._q(q)

    def var(self, v):
        if isinstance(v, float):
            return self.ctx.mpf(v)
        if isinstance(v, mpmath.mpf):
            return self.ctx.mpf(v)
        return self._q(to_fraction(v))

    def add(self, a, b):
        return a + b

    def mul(self, a, b):
        return a * b

    def div(self, a, b):
        if b == 0:
            raise Undefined("division by zero")
        return a / b

    def pow(self, b, e):
        if b < 0 and e != self.ctx.floor(e):
            raise Undefined("negative base, fractional exponent")
        if b == 0 and e < 0:
            raise Undefined("0 ** negative")
        if e == self.ctx.floor(e) and abs(e) < 2 ** 31:
            return self.ctx.power(b, int(e))
        return self.ctx.power(b, e)

    def unary(self, op, x):
        c = self.ctx
        if op == "neg":
            return -x
        if op == "abs":
            return abs(x)
        if op in ("log", "log10") and x <= 0 or op == "sqrt" and x < 0 or op == "atanh" and abs(x) >= 1:
            raise Undefined("%s(%s)" % (op, x))
        fn = {"exp": c.exp, "log": c.log, "log10": c.log10, "sqrt": c.sqrt, "tanh": c.tanh,
              "atanh": c.atanh, "sin": c.sin, "cos": c.cos}[op]
        return fn(x)


def _alg(prec, mode):
    if mode is None:
        mode = "float" if prec is None else "mp"
    if mode == "float":
        return _FloatAlg()
    if mode == "fraction":
        return _FractionAlg()
    if mode == "mp":
        if mpmath is None:
            raise RuntimeError("mpmath not available")
        return _MpAlg(prec or 40)
    raise ValueError("unknown mode %r" % (mode,))


def _eval(t, env, alg):
    op = t["op"]
    if op == "const":
        return alg.const(to_fraction(t["q"]))
    if op == "var":
        return alg.var(env[t["name"]])
    args = [_eval(a, env, alg) for a in t["args"]]
    if op == "add" or op == "mul":
        acc = args[0]
        f = alg.add if op == "add" else alg.mul
        for a in args[1:]:
            acc = f(acc, a)
        return acc
    if op == "div":
        return alg.div(args[0], args[1])
    if op == "pow":
        return alg.pow(args[0], args[1])
    if op in UNARY:
        return alg.unary(op, args[0])
    raise ValueError("unknown op %r" % (op,))


def eval_term(term, env, prec=None, mode=None):
    return _eval(term, env, _alg(prec, mode))


def eval_exact_or(term, env, prec=40):
    """Fraction where the term is rational at the point, else an mpmath number."""
    try:
        return eval_term(term, env, mode="fraction")
    except NotRational:
        return eval_term(term, env, prec=prec)


def bracket(term, envs, prec=40):
    """(lo, hi) of the term over a list of environments (corners of a parameter bracket)."""
    vals = [eval_term(term, e, prec=prec) for e in envs]
    return min(vals), max(vals)


def within(obs, lo, hi, rtol, atol=0):
    """lo - tol <= obs <= hi + tol with tol = atol + rtol * max(|lo|, |hi|).  rtol/atol may be
    [n, d] pairs, decimal strings or numbers (tolerances are part of the case)."""
    try:                       # total: anything that is not a finite real number is simply not within
        fo = float(obs)
    except Exception:
        return False
    if fo != fo or fo in (float("inf"), float("-inf")):
        return False
    r = to_fraction(rtol) if not isinstance(rtol, float) else Fraction(rtol)
    a = to_fraction(atol) if not isinstance(atol, float) else Fraction(atol)
    scale = max(abs(lo), abs(hi))
    tol = float(a) + float(r) * float(scale)
    return float(lo) - tol <= fo <= float(hi) + tol


def term_str(t):
    """readable infix rendering (for notes, samples and violation details)"""
    op = t["op"]
    if op == "const":
        q = to_fraction(t["q"])
        return str(q) if q.denominator == 1 and q >= 0 else "(%s)" % q
    if op == "var":
        return t["name"]
    a = [term_str(x) for x in t["args"]]
    if op == "add":
        return "(" + " + ".join(a) + ")"
    if op == "mul":
        return "(" + "*".join(a) + ")" if len(a) > 1 else a[0]
    if op == "div":
        return "(%s/%s)" % (a[0], a[1])
    if op == "pow":
        return "%s**%s" % (a[0], a[1])
    if op == "neg":
        return "(-%s)" % a[0]
    return "%s(%s)" % (op, a[0])


def term_vars(t):
    if t["op"] == "const":
        return set()
    if t["op"] == "var":
        return {t["name"]}
    out = set()
    for a in t["args"]:
        out |= term_vars(a)
    return out
