"""Thin driver around TLC / SANY.

Nothing in here knows about chempy.  It starts TLC on a module + config from /verif/spec, under
``timeout``, and turns the textual output into a :class:`TLCResult`:

* statistics (states generated / distinct, diameter),
* ``<<"CASE", "<json>">>`` lines (spec -> code cases; the JSON sits inside a TLA+ string and is
  therefore decoded twice),
* ``<<"VERDICT", tid, "accept"|"reject", pos, clause>>`` lines (code -> spec trace validation),
* per-action coverage (``-coverage 1``),
* errors: a violated invariant/property, a deadlock, a parse or evaluation error.

A TLC run that does not end with "Model checking completed. No error has been found." (or the
simulation equivalent) is a *machinery* failure for the caller unless the caller asked for the
error explicitly (``expect_error``), never a pass.
"""
import json
import os
import re
import shutil
import subprocess
import tempfile
import time

SPEC_DIR = os.path.join(os.path.dirname(os.path.dirname(os.path.abspath(__file__))), "spec")
JAR = "/opt/veriftools/tla/tla2tools.jar"
COMMUNITY = "/opt/veriftools/tla/CommunityModules-deps.jar"


class TLCError(RuntimeError):
    """TLC did not complete cleanly (machinery failure)."""


class TLCResult(object):
    def __init__(self):
        self.generated = 0
        self.distinct = 0
        self.depth = 0
        self.ok = False
        self.error = None  # first "Error: ..." line
        self.violated = None  # name of violated invariant/property, if any
        self.cases = []  # decoded CASE payloads
        self.verdicts = []  # (tid, verdict, pos, clause)
        self.prints = []  # other PrintT tuples, raw text
        self.coverage = {}  # action name -> (distinct, total)
        self.wall_s = 0.0
        self.cmd = ""
        self.output = ""

    def summary(self):
        return dict(
            generated=self.generated, distinct=self.distinct, depth=self.depth, ok=self.ok,
            cases=len(self.cases), verdicts=len(self.verdicts), wall_s=round(self.wall_s, 2),
        )


# (TLC wraps printed tuples longer than ~80 characters across lines: allow white space between elements)
_CASE_RE = re.compile(r'<<\s*"CASE",\s*("(?:[^"\\]|\\.)*")\s*>>')
_VERDICT_RE = re.compile(
    r'<<\s*"VERDICT",\s*(-?\d+),\s*"(accept|reject)",\s*(-?\d+),\s*"((?:[^"\\]|\\.)*)"\s*>>'
)
_STATS_RE = re.compile(r"(\d+) states generated, (\d+) distinct states found")
_DEPTH_RE = re.compile(r"The depth of the complete state graph search is (\d+)")
_COV_RE = re.compile(r"^<(\w+) line \d+, col \d+ to line \d+, col \d+ of module (\w+)(?: \([\d ]+\))?>: (\d+):(\d+)", re.M)
_SIM_RE = re.compile(r"The number of states generated: (\d+)")


def _tla_unescape(s):
    """Decode a TLA+ string literal as printed by TLC (including the quotes)."""
    # TLC prints strings with \" \\ \n \t escapes, which is a subset of JSON's.
    return json.loads(s)


def parse_output(out, res=None):
    res = res or TLCResult()
    res.output = out
    # TLC's workers print cases in a schedule-dependent order: sort the raw payloads, so that the seed alone decides
    # which cases a stratified sample contains (reproducible runs and replays)
    for raw in sorted(m.group(1) for m in _CASE_RE.finditer(out)):
        res.cases.append(json.loads(_tla_unescape(raw)))
    for m in _VERDICT_RE.finditer(out):
        res.verdicts.append((int(m.group(1)), m.group(2), int(m.group(3)), m.group(4)))
    ms = _STATS_RE.findall(out)
    if ms:
        res.generated, res.distinct = int(ms[-1][0]), int(ms[-1][1])
    else:
        m = _SIM_RE.search(out)
        if m:
            res.generated = res.distinct = int(m.group(1))
    m = _DEPTH_RE.search(out)
    if m:
        res.depth = int(m.group(1))
    for m in _COV_RE.finditer(out):
        name = m.group(1)
        d, t = int(m.group(3)), int(m.group(4))
        od, ot = res.coverage.get(name, (0, 0))
        res.coverage[name] = (od + d, ot + t)
    m = re.search(r"^Error: (.*)$", out, re.M)
    if m:
        res.error = m.group(1).strip()
        mv = re.search(r"Invariant (\w+) is violated", out) or re.search(
            r"Action property (\w+) is violated", out) or re.search(
            r"Temporal properties were violated", out)
        if mv:
            res.violated = mv.group(1) if mv.groups() else "temporal"
    res.ok = ("No error has been found" in out or "Finished in" in out) and res.error is None
    return res


def run_tlc(module, cfg, workers=16, simulate=None, depth=None, seed=None, coverage=False,
            timeout=900, env=None, spec_dir=SPEC_DIR, deadlock=None, expect_error=False,
            java_opts=None, extra=None, heap="4g", keep_output=None):
    """Run TLC on ``module`` (file name without .tla, in spec_dir) with config file ``cfg``.

    simulate: None or a dict(num=..)/string passed to -simulate.
    env: extra environment variables (IOEnv in the spec).
    """
    scratch = tempfile.mkdtemp(prefix="verif-tlc-")
    try:
        cmd = ["timeout", "-k", "10", str(int(timeout)), "java", "-XX:+UseParallelGC", "-Xmx" + heap,
               "-Djava.io.tmpdir=" + scratch]
        for o in java_opts or []:
            cmd.append(o)
        cmd += ["-cp", JAR + ":" + COMMUNITY if os.path.exists(COMMUNITY) else JAR, "tlc2.TLC"]
        cmd += ["-workers", str(workers), "-metadir", os.path.join(scratch, "meta"),
                "-noGenerateSpecTE"]
        if deadlock is False:
            pass  # given in cfg via CHECK_DEADLOCK FALSE
        if coverage:
            cmd += ["-coverage", "1"]
        if simulate is not None:
            if isinstance(simulate, dict):
                simulate = ",".join("%s=%s" % kv for kv in simulate.items())
            cmd += ["-simulate", simulate]
        if depth is not None:
            cmd += ["-depth", str(depth)]
        if seed is not None:
            cmd += ["-seed", str(seed)]
        cmd += list(extra or [])
        cmd += ["-config", os.path.join(spec_dir, cfg), os.path.join(spec_dir, module + ".tla")]
        e = dict(os.environ)
        e.update({k: str(v) for k, v in (env or {}).items()})
        e.pop("JAVA_TOOL_OPTIONS", None)
        t0 = time.time()
        p = subprocess.run(cmd, stdout=subprocess.PIPE, stderr=subprocess.STDOUT, env=e, cwd=scratch)
        out = p.stdout.decode("utf-8", "replace")
        res = parse_output(out)
        res.wall_s = time.time() - t0
        res.cmd = " ".join(cmd)
        res.returncode = p.returncode
        if keep_output:
            with open(keep_output, "w") as fh:
                fh.write(out)
        if p.returncode == 124:
            res.ok = False
            res.error = "timeout after %ss" % timeout
        if not res.ok and not expect_error:
            tail = "\n".join(out.splitlines()[-40:])
            raise TLCError("TLC failed on %s/%s: %s\n%s" % (module, cfg, res.error, tail))
        return res
    finally:
        shutil.rmtree(scratch, ignore_errors=True)


def find_classpath():
    """Return the classpath the `tlc` wrapper uses (so CommunityModules resolve)."""
    w = shutil.which("tlc")
    if not w:
        return JAR
    try:
        txt = open(w).read()
    except Exception:
        return JAR
    m = re.search(r"-cp\s+(\S+)", txt)
    return m.group(1).strip('"') if m else JAR


def sany(module, spec_dir=SPEC_DIR, timeout=120):
    p = subprocess.run(["timeout", str(timeout), "tla-sany", os.path.join(spec_dir, module + ".tla")],
                       stdout=subprocess.PIPE, stderr=subprocess.STDOUT, cwd=spec_dir)
    out = p.stdout.decode("utf-8", "replace")
    ok = p.returncode == 0 and "Semantic errors" not in out and "Parse Error" not in out \
        and "Fatal errors" not in out and "*** Errors" not in out
    return ok, out
