"""Binding layer shared by C09 (Units.tla) and C10 (UnitKinetics.tla).

Only three kinds of things happen here:

* construction of real ``quantities`` objects from the abstract vocabulary of the spec
  (unit expressions = lists of {n: catalog name, p: power}, registries = {dimension: name}),
* calls into ``chempy.units``,
* structural projection of what came back (float, list of floats, exception class name,
  dimension dict and SI magnitude of a unit-carrying object) and the fixed number codecs:

  - ``num`` decodes a spec NUMBER ``{m:[n,d], s:{g2,g3,g5,eV,NA}}`` (rational mantissa times an
    exponent vector over the generators 2,3,5 and the two opaque constants whose values the spec
    states in ``gens``) into an exact ``Fraction``;
  - ``enc_float`` encodes an observed double EXACTLY as sign * mantissa * 2^e with the mantissa as
    base-10^4 limbs, which is what ``spec/FloatEnc.tla`` judges inside TLC;
  - ``close`` is the comparison "relative 10^-tol10" with the tolerance taken from the case.

No conversion factor, no dimension table for catalog units and no acceptance rule lives here.
"""
import math
from fractions import Fraction

# the big-rational comparison of FloatEnc.tla recurses over limb sequences: give TLC's worker threads room
TLC_ENV = {"_JAVA_OPTIONS": "-Xss64m"}
_GEN_BASE = {"g2": 2, "g3": 3, "g5": 5}
DIMS = ("length", "mass", "time", "current", "temperature", "amount")


# ------------------------------------------------------------------ number codecs
def gen_values(gens):
    out = {k: Fraction(v) for k, v in _GEN_BASE.items()}
    for k, v in (gens or {}).items():
        out[k] = Fraction(v["mant"]) * Fraction(10) ** v["e10"]
    return out


def num(n, gv):
    """spec NUMBER -> Fraction"""
    r = Fraction(n["m"][0], n["m"][1])
    if r == 0:
        return r
    for g, e in n["s"].items():
        if e:
            r *= gv[g] ** e
    return r


def scale_num(scale, gv):
    return num({"m": [1, 1], "s": scale}, gv)


def close(x, expected, tol10):
    """|x - expected| <= 10^-tol10 * |expected|, decided exactly (x is a float)."""
    if x is None or isinstance(x, (str, bytes)):
        return False
    try:
        if not math.isfinite(x):
            return False
        fx = Fraction(float(x))
    except (TypeError, ValueError, OverflowError):
        return False
    return abs(fx - expected) * 10 ** tol10 <= abs(expected)


def close_abs(x, expected, tol10, scale):
    """|x - expected| <= 10^-tol10 * max(|expected|, scale): for sums that may cancel."""
    try:
        if not math.isfinite(x):
            return False
        fx = Fraction(float(x))
    except (TypeError, ValueError, OverflowError):
        return False
    return abs(fx - expected) * 10 ** tol10 <= max(abs(expected), scale)


def limbs(n):
    """base-10^4 limbs of |n| (total: a negative or non-integer argument cannot loop)"""
    n = abs(int(n))
    out = []
    while n > 0:
        n, r = divmod(n, 10000)
        out.append(r)
    return out


def enc_float(x):
    """exact encoding of a finite double for FloatEnc.tla; None if not finite / not a float"""
    try:
        x = float(x)
    except (TypeError, ValueError):
        return None
    if not math.isfinite(x):
        return None
    if x == 0.0:
        return {"s": 0, "m": [], "e": 0}
    m, e = math.frexp(abs(x))
    M = int(m * (1 << 53))
    E = e - 53
    while M % 2 == 0:
        M //= 2
        E += 1
    return {"s": 1 if x > 0 else -1, "m": limbs(M), "e": E}


def dec_float(f):
    v = 0
    for limb in reversed(f["m"]):
        v = v * 10000 + limb
    return f["s"] * v * Fraction(2) ** f["e"]


# ------------------------------------------------------------------ construction
def U():
    from chempy.units import default_units
    return default_units


def unit_expr(ux):
    """unit expression -> quantities unit object (None for the empty expression)"""
    u = U()
    out = None
    for f in ux:
        fac = getattr(u, f["n"]) ** f["p"]
        out = fac if out is None else out * fac
    return out


_SHARED_REGISTRY = {}


def registry(reg):
    """registry of the spec -> dict of base units; an entry with a number factor other than 1 is the scaled
    quantity factor * unit (as a user writes 0.1*metre, or as unit_registry_from_human_readable returns it).

    Object history: within one process it is always THE SAME dict object, edited in place from one use to the
    next (as a user who keeps one registry and changes an entry does) - an answer may depend on the content of the
    registry only, never on the identity of the dict or on what it held before."""
    fresh = _registry_content(reg)
    _SHARED_REGISTRY.clear()
    _SHARED_REGISTRY.update(fresh)
    return _SHARED_REGISTRY


def _registry_content(reg):
    u = U()
    fac = reg.get("factors") or {}
    gv = gen_values({})
    r = {}
    for k in DIMS:
        unit = getattr(u, reg[k])
        f = scale_num(fac[k], gv) if k in fac else 1      # the factor travels as its exponent vector over 2, 3, 5
        r[k] = unit if f == 1 else float(f) * unit
    r["luminous_intensity"] = u.candela
    return r


def reg_event(reg):
    """the registry as it travels in a trace event (names + factors, nothing else)"""
    out = {k: reg[k] for k in DIMS}
    if reg.get("factors"):
        out["factors"] = {k: dict(reg["factors"][k]) for k in DIMS}
    return out


# ------------------------------------------------------------------ projection
def _dim_names():
    import quantities as pq
    return {pq.UnitLength: "length", pq.UnitMass: "mass", pq.UnitTime: "time", pq.UnitCurrent: "current",
            pq.UnitTemperature: "temperature", pq.UnitLuminousIntensity: "luminous_intensity",
            pq.UnitSubstance: "amount"}


def project_unitful(obj):
    """unit-carrying object (or the plain number 1) -> {"dim": {...}, "si": float}"""
    dim = {k: 0 for k in DIMS}
    if not hasattr(obj, "simplified"):
        if getattr(obj, "ndim", 0):
            return {"dim": dim, "si": [_tofloat(v) for v in obj.ravel()]}
        return {"dim": dim, "si": _tofloat(obj)}
    s = obj.simplified
    names = _dim_names()
    for k, v in s.dimensionality.items():
        name = names.get(k.__class__, k.__class__.__name__)
        dim[name] = clean_int(dim.get(name, 0) + clean_int(v))
    mag = s.magnitude
    return {"dim": dim, "si": _tofloat(mag) if getattr(mag, "ndim", 0) == 0 else [_tofloat(v) for v in mag.ravel()]}


def _tofloat(v):
    """total float projection: whatever cannot be read as a real number becomes nan (equal to no expectation)"""
    try:
        return float(v)
    except (TypeError, ValueError, OverflowError):
        return float("nan")


def project_dimdict(d):
    """reported dimensionality -> {name: exponent}; an exponent that is not a small integer travels as the
    sentinel 99 (it equals no expectation)"""
    out = {k: 0 for k in DIMS}
    for k, v in d.items():
        out[str(k)] = clean_int(v)
    return out


def clean_int(v):
    try:
        f = float(v)
        if math.isfinite(f) and f == int(f) and abs(f) < 90:
            return int(f)
    except (TypeError, ValueError, OverflowError):
        pass
    return 99


def finite(x):
    try:
        return math.isfinite(float(x))
    except (TypeError, ValueError, OverflowError):
        return False


def floats(arr):
    import numpy as np
    a = np.asarray(arr, dtype=float).ravel()
    return [float(v) for v in a]


def observe(fn, *a, **kw):
    """call and project the outcome: {"v": value} or {"raised": ClassName}"""
    try:
        return {"v": fn(*a, **kw)}
    except Exception as e:  # noqa
        return {"raised": type(e).__name__, "msg": str(e)[:120]}


# ------------------------------------------------------------------ several TLC configs at once
def tlc_many(ctx, jobs, workers=4, parallel=4):
    """Run several exhaustive configs concurrently (JVM start-up dominates the small slices).

    jobs: list of dict(module, cfg, require_actions=(), require_cases=None, timeout=...).
    Accounting and vacuity guards are exactly those of ``ctx.tlc`` (done serially afterwards)."""
    from concurrent.futures import ThreadPoolExecutor
    import core
    import tlc as _tlc

    def one(job):
        try:
            return _tlc.run_tlc(job["module"], job["cfg"], workers=job.get("workers", workers),
                                coverage=bool(job.get("require_actions")), timeout=job.get("timeout", 1500))
        except _tlc.TLCError as e:
            return e

    with ThreadPoolExecutor(max_workers=parallel) as ex:
        results = list(ex.map(one, jobs))
    out = []
    for job, res in zip(jobs, results):
        if isinstance(res, Exception):
            raise core.MachineryFailure(str(res))
        res.output = ""      # the raw text of a large slice is not needed once parsed
        ctx.states += res.distinct
        ctx.transitions += res.generated
        ctx.tlc_runs.append(dict(module=job["module"], cfg=job["cfg"], **res.summary()))
        for a in job.get("require_actions", ()):
            t = sum(res.coverage.get(n, (0, 0))[1] for n in {a, a[3:] if a.startswith("Gen") else a})
            ctx.coverage_actions["%s!%s" % (job["module"], a)] = t
            if t == 0:
                raise core.MachineryFailure("vacuity: action %s of %s never taken under %s" % (a, job["module"], job["cfg"]))
        rc = job.get("require_cases")
        if rc is not None and len(res.cases) < rc:
            raise core.MachineryFailure("vacuity: %s/%s produced %d cases (< %d)" % (job["module"], job["cfg"], len(res.cases), rc))
        out.append(res)
    return out
