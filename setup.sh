#!/bin/sh
# Offline setup: nothing is built.  Parse every spec module with SANY and import the harness.
set -e
cd "$(dirname "$0")"
fail=0
cd spec
for f in *.tla; do
  if ! tla-sany "$f" > /tmp/verif-sany.$$ 2>&1 || grep -q -E "Semantic errors|Parse Error|Fatal errors|\*\*\* Errors" /tmp/verif-sany.$$; then
    echo "SANY failed on $f"; tail -20 /tmp/verif-sany.$$; fail=1
  fi
done
rm -f /tmp/verif-sany.$$
cd ..
PYTHONHASHSEED=0 PYTHONPATH=/repo:$(pwd)/harness /venv/bin/python -c "
import chempy, os, sys
assert os.path.realpath(chempy.__file__).startswith('/repo/'), chempy.__file__
import tlc, core, registry
print('harness ok; chempy from', chempy.__file__)
"
# a module that does not parse makes the checks that use it fail with a machinery failure (exit 2);
# setup itself only reports it
[ $fail -eq 0 ] || echo "WARNING: some spec modules do not parse (see above)"
exit 0
