---------------------------- MODULE ArithDict ----------------------------
(* chempy.util.arithmeticdict.ArithmeticDict as a register machine (growth beyond the listed  *)
(* properties; C09 and C11 rely on it: "ArithmeticDict scalar multiplication").               *)
(*                                                                                            *)
(* A register holds a dictionary: an explicit key set and a value per key; a missing key      *)
(* denotes zero.  Binary operations with a dictionary work key by key over the union of the   *)
(* key sets; operations with a scalar are broadcast onto the EXISTING keys only.              *)
(* In-place operations change the left operand; the others return a new dictionary.           *)
(* Deviation of the implementation that is modelled, not idealised: key-wise * and / read     *)
(* the right operand through defaultdict indexing, which INSERTS the missing keys (with value *)
(* zero) into the right operand (action effect InsertZeroKeys).  Its denotation is unchanged. *)
EXTENDS Integers, Sequences, FiniteSets, TLC, Json, SequencesExt, Rational

CONSTANTS Keys, Catalog, Scalars, MaxOps, Regs

VARIABLES regs, hist, raised
vars == <<regs, hist, raised>>

Val(d, k) == IF k \in DOMAIN d THEN d[k] ELSE QZero
Denot(d) == [k \in Keys |-> Val(d, k)]                 \* total function: the meaning of a dictionary
SameMeaning(d, e) == Denot(d) = Denot(e)               \* what __eq__ decides
NonNeg(d) == \A k \in DOMAIN d : QLe(QZero, d[k])

KeyWise(op(_, _), d, e) == [k \in DOMAIN d \cup DOMAIN e |-> op(Val(d, k), Val(e, k))]
AddDictLeft(d, e) == [k \in DOMAIN d \cup DOMAIN e |-> QAdd(Val(d, k), Val(e, k))]
SubDictLeft(d, e) == [k \in DOMAIN d \cup DOMAIN e |-> QSub(Val(d, k), Val(e, k))]
Broadcast(op(_, _), d, s) == [k \in DOMAIN d |-> op(d[k], s)]
WithZeroKeys(e, ks) == [k \in DOMAIN e \cup ks |-> Val(e, k)]
DivDefined(d, e) == \A k \in DOMAIN d \cup DOMAIN e : ~QIsZero(Val(e, k))

Init == regs = [r \in Regs |-> <<>>] /\ hist = <<>> /\ raised = FALSE

Log(rec) == hist' = Append(hist, rec)
CanStep == Len(hist) < MaxOps /\ ~raised

Load(r, i) == /\ CanStep /\ regs' = [regs EXCEPT ![r] = Catalog[i]]
              /\ Log([op |-> "load", r |-> r, i |-> i]) /\ UNCHANGED raised

\* binary, new object stored in register t
BinDict(name, r, s, t) ==
    /\ CanStep /\ r # s
    /\ LET d == regs[r]  e == regs[s] IN
       CASE name = "add" -> regs' = [regs EXCEPT ![t] = AddDictLeft(d, e)] /\ UNCHANGED raised
         [] name = "sub" -> regs' = [regs EXCEPT ![t] = SubDictLeft(d, e)] /\ UNCHANGED raised
         [] name = "mul" -> /\ regs' = [regs EXCEPT ![s] = WithZeroKeys(e, DOMAIN d),
                                                  ![t] = KeyWise(QMul, d, e)]
                            /\ UNCHANGED raised
         [] name = "div" -> IF DivDefined(d, e)
                            THEN /\ regs' = [regs EXCEPT ![s] = WithZeroKeys(e, DOMAIN d),
                                                         ![t] = KeyWise(QDiv, d, e)]
                                 /\ UNCHANGED raised
                            ELSE raised' = TRUE /\ UNCHANGED regs     \* ZeroDivisionError; state then unspecified
    /\ Log([op |-> name, r |-> r, s |-> s, t |-> t])

\* in place: r op= s
InPlaceDict(name, r, s) ==
    /\ CanStep /\ r # s
    /\ LET d == regs[r]  e == regs[s] IN
       CASE name = "iadd" -> regs' = [regs EXCEPT ![r] = AddDictLeft(d, e)]
         [] name = "isub" -> regs' = [regs EXCEPT ![r] = SubDictLeft(d, e)]
         [] name = "imul" -> regs' = [regs EXCEPT ![s] = WithZeroKeys(e, DOMAIN d), ![r] = KeyWise(QMul, d, e)]
    /\ Log([op |-> name, r |-> r, s |-> s]) /\ UNCHANGED raised

Scalar(name, r, c, t) ==
    /\ CanStep
    /\ LET d == regs[r]  q == Q(c) IN
       CASE name = "adds"  -> regs' = [regs EXCEPT ![t] = Broadcast(QAdd, d, q)] /\ UNCHANGED raised
         [] name = "subs"  -> regs' = [regs EXCEPT ![t] = Broadcast(QSub, d, q)] /\ UNCHANGED raised
         [] name = "muls"  -> regs' = [regs EXCEPT ![t] = Broadcast(QMul, d, q)] /\ UNCHANGED raised
         [] name = "rmuls" -> regs' = [regs EXCEPT ![t] = Broadcast(QMul, d, q)] /\ UNCHANGED raised
         [] name = "rsubs" -> regs' = [regs EXCEPT ![t] = [k \in DOMAIN d |-> QSub(q, d[k])]] /\ UNCHANGED raised
         [] name = "divs"  -> IF c # 0 \/ DOMAIN d = {} THEN regs' = [regs EXCEPT ![t] = Broadcast(QDiv, d, q)] /\ UNCHANGED raised
                              ELSE raised' = TRUE /\ UNCHANGED regs
         [] name = "rdivs" -> IF \A k \in DOMAIN d : ~QIsZero(d[k])
                              THEN regs' = [regs EXCEPT ![t] = [k \in DOMAIN d |-> QDiv(q, d[k])]] /\ UNCHANGED raised
                              ELSE raised' = TRUE /\ UNCHANGED regs
    /\ Log([op |-> name, r |-> r, c |-> c, t |-> t])

GenLoad == \E r \in Regs, i \in 1..Len(Catalog) : Load(r, i)
GenBin == \E n \in {"add", "sub", "mul", "div"}, r, s, t \in Regs : BinDict(n, r, s, t)
GenInPlace == \E n \in {"iadd", "isub", "imul"}, r, s \in Regs : InPlaceDict(n, r, s)
GenScalar == \E n \in {"adds", "subs", "muls", "rmuls", "rsubs", "divs", "rdivs"}, r, t \in Regs, c \in Scalars :
                Scalar(n, r, c, t)
Next == GenLoad \/ GenBin \/ GenInPlace \/ GenScalar

(* action properties: what an operation may and may not change *)
\* the meaning of a register that is neither the target nor (for in-place) the left operand never changes
FrameOK == [][\A r \in Regs :
                 (hist' # hist /\ ~raised') =>
                    LET last == hist'[Len(hist')] IN
                    (("t" \in DOMAIN last => r # last.t) /\ (("t" \notin DOMAIN last) => r # last.r))
                        => SameMeaning(regs[r], regs'[r])]_vars
\* addition/subtraction of dictionaries never touch the key set of the right operand
AddKeepsRightKeys == [][(hist' # hist /\ hist'[Len(hist')].op \in {"add", "sub", "iadd", "isub"}) =>
                          LET last == hist'[Len(hist')] IN
                          (("t" \notin DOMAIN last \/ last.t # last.s) => regs'[last.s] = regs[last.s])]_vars

(* export: one case per history *)
DictSeq(d) == LET ks == SetToSortSeq(DOMAIN d, LAMBDA a, b : a < b) IN [i \in 1..Len(ks) |-> <<ks[i], d[ks[i]]>>]
KeyOrd == <<"a", "b", "c", "d">>
KeyLess(a, b) == (CHOOSE i \in 1..4 : KeyOrd[i] = a) < (CHOOSE i \in 1..4 : KeyOrd[i] = b)
DictSeqS(d) == LET ks == SetToSortSeq(DOMAIN d, KeyLess) IN [i \in 1..Len(ks) |-> <<ks[i], d[ks[i]]>>]
RegSeq == LET rs == SetToSortSeq(Regs, <) IN [i \in 1..Len(rs) |-> [r |-> rs[i], d |-> DictSeqS(regs[rs[i]]),
                                                                   nonneg |-> NonNeg(regs[rs[i]])]]
EqTable == LET rs == SetToSortSeq(Regs, <) IN
           [i \in 1..Len(rs) |-> [j \in 1..Len(rs) |-> SameMeaning(regs[rs[i]], regs[rs[j]])]]
Done == Len(hist) = MaxOps \/ raised
CaseRec == [ in |-> [hist |-> hist, catalog |-> [i \in 1..Len(Catalog) |-> DictSeqS(Catalog[i])]],
             exp |-> [regs |-> RegSeq, raised |-> raised, eq |-> EqTable],
             cls |-> IF raised THEN "raise" ELSE hist[Len(hist)].op ]
Emit == Done => PrintT(<<"CASE", ToJson(CaseRec)>>)
StateView == <<regs, raised, Len(hist)>>
=============================================================================
