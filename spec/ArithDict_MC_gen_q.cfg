INIT Init
NEXT Next
CONSTANTS
  Keys = {"a", "b", "c"}
  Catalog <- Cat
  Scalars = {0, 2}
  MaxOps = 2
  Regs = {1, 2}
INVARIANT Emit
CHECK_DEADLOCK FALSE
