SPECIFICATION SpecMC
CONSTANTS
  Keys = {"a", "b", "c"}
  Catalog <- Cat
  Scalars = {0, 2}
  MaxOps = 4
  Regs = {1, 2}
PROPERTY FrameOK
PROPERTY AddKeepsRightKeys
VIEW StateView
CHECK_DEADLOCK FALSE
