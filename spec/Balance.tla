------------------------------- MODULE Balance -------------------------------
(* Stoichiometric balancing (property C02): "balancing returns only balanced, positive,      *)
(* canonical coefficients or refuses".                                                        *)
(*                                                                                            *)
(* A balancing PROBLEM is a composition matrix comp (rows = composition keys: elements and,   *)
(* optionally, net charge as the last row; columns = species, the first nr of them reactants, *)
(* the remaining np products), the under-determination switch mode and, optionally, a set of  *)
(* reactant/product column pairs declared to be the SAME species (duplicates).  Coefficients  *)
(* x balance the problem iff  A x = 0  for the SIGNED matrix A (reactant columns negated).    *)
(* The real compositions are comp/scale (scale 2, 10: fractional compositions); A x = 0 does  *)
(* not depend on scale.                                                                       *)
(*                                                                                            *)
(* What the property demands is stated by Judge: given the class of the problem (computed     *)
(* with exact integer arithmetic by LinAlg) it names the first violated clause of an          *)
(* observed outcome, or "" when the outcome is admissible.  Accept(res) is enabled exactly    *)
(* for admissible outcomes.  The module is used three ways:                                   *)
(*   - exhaustive model checking of canonical problems (Balance_MC*.cfg) with self-checking   *)
(*     invariants (elimination vs. bounded search, certificate vs. positive solution ...),    *)
(*   - case generation: every state at stage "mode" is one test with its admissible outcomes  *)
(*     (Emit),                                                                                *)
(*   - trace validation of recorded executions of balance_stoichiometry (BalanceTrace.tla     *)
(*     replays the problem through the same actions and fires Accept on the observed result). *)
EXTENDS Integers, Sequences, FiniteSets, FiniteSetsExt, SequencesExt, TLC, Json, Rational, LinAlg

CONSTANTS
    Shapes,       \* set of <<nr, np, nk>> (generation only)
    EntryVals,    \* element-row entries (naturals; generation only)
    ChargeVals,   \* charge-row entries (integers; generation only)
    ChargeRows,   \* subset of BOOLEAN: is the last row a net-charge row (generation only)
    Scales,       \* subset of {1, 2, 10} (generation only)
    Modes,        \* subset of {"True", "False", "None"} (generation only)
    DuplModes,    \* subset of {"none", "some"}: problems without / with duplicate species
    PosBoxB,      \* bound on the free coordinates in the positive-solution search
    CertBoxY,     \* bound on certificate entries
    SearchCap,    \* largest number of free assignments a minimality search may visit
    CheckBox,     \* bound of the independent box searches in the self-checks (0 = off)
    Forms,        \* call forms to enumerate (generation only)
    Canon         \* "strict": canonical problems only; "loose": also empty species, equal species
                  \* within a side and keys that no species contains (generation only)

VARIABLES comp, nr, np, nk, crow, scale, filled, stage, info, dupl, mode, outcome, form

vars == <<comp, nr, np, nk, crow, scale, filled, stage, info, dupl, mode, outcome, form>>

AllModes == {"True", "False", "None"}
\* dtag / dcls: sub-class and placement classes of a duplicate problem (set by ChooseDupl)
NoInfo == [c |-> "none", sub |-> "", d |-> 0, gen |-> <<>>, minsum |-> 0, mins |-> {}, complete |-> FALSE,
           dtag |-> "", dcls |-> {}]
NoOutcome == [k |-> "none"]
\* the form of the call (see ChooseForm)
NoForm == [set |-> FALSE]
DefaultForm == [set |-> TRUE, cont |-> "list", naming |-> "plain", subst |-> "map", psym |-> "default",
                num |-> "int", calls |-> 1, modearg |-> "plain", allow |-> FALSE, keys |-> "plain",
                names |-> "same", prior |-> "same"]

------------------------------------------------------------------------------
(* the signed matrix *)
N == nr + np
Signed(cm, nreac) == Eager([k \in 1..Len(cm) |-> Eager([j \in 1..Len(cm[k]) |-> IF j <= nreac THEN -cm[k][j] ELSE cm[k][j]])])
A == Signed(comp, nr)
Col(cm, j) == Eager([k \in 1..Len(cm) |-> cm[k][j]])

(* the clauses of the property, on integer vectors *)
\* exact also for finely resolved compositions (entries and coefficients up to 2^31): CRT zero test
Balanced(M, x) == IsNullVecBig(M, x)
Positive(x) == AllPositive(x)
Coprime(x) == VecGCD(x) = 1
\* linear form x0 + sum_k s_k v_k balances identically in the free parameters s_k
\* rational vectors: integer ones through the large-number test, others through Rational (small numbers)
QBalanced(M, xq) == IF \A j \in 1..Len(xq) : xq[j][2] = 1
                    THEN Balanced(M, [j \in 1..Len(xq) |-> xq[j][1]]) ELSE QIsNullVec(M, xq)
LinearFormBalanced(M, x0, vs) == QBalanced(M, x0) /\ \A k \in 1..Len(vs) : QBalanced(M, vs[k])

------------------------------------------------------------------------------
(* Classification of a signed matrix M.                                                       *)
(*   ray_pos    nullity 1, generator strictly positive: exactly one primitive solution        *)
(*   ray_neg    nullity 1, generator has no zero but both signs: no positive solution         *)
(*   ray_zero   nullity 1, generator has a zero entry ("superfluous species"): none           *)
(*   infeasible nullity 0 (sub "null0") or nullity >= 2 with a Stiemke certificate ("cert")   *)
(*   multi      nullity >= 2 with positive solutions; mins = all solutions of minimal sum     *)
(*              when complete (the search box provably contains every solution of that sum)   *)
(*   undecided  nullity >= 2, neither a positive solution nor a certificate inside the boxes; *)
(*              sub "unclassified": the matrix is beyond the range of exact 32-bit elimination *)
(*              (finely resolved fractional compositions) and was not classified at all - the *)
(*              soundness clauses (balanced, positive, integer, coprime, keys) are still judged *)
ClassInfo(M, B, Y) ==
    LET E == Reduce(M)
        n == NCols(M)
        d == n - RankOf(E)
    IN  IF d = 0 THEN [NoInfo EXCEPT !.c = "infeasible", !.sub = "null0", !.complete = TRUE]
        ELSE IF d = 1 THEN
            LET g == RayGenOf(E) IN
            IF AllPositive(g)
            THEN [NoInfo EXCEPT !.c = "ray_pos", !.d = 1, !.gen = g, !.minsum = VecSum(g), !.mins = {g}, !.complete = TRUE]
            ELSE [NoInfo EXCEPT !.c = IF \E i \in 1..n : g[i] = 0 THEN "ray_zero" ELSE "ray_neg",
                                !.d = 1, !.gen = g, !.complete = TRUE]
        ELSE
            LET Be == BoxWithin(E, B, SearchCap)
                P == PosSolOf(E, Be) IN
            IF P # {}
            THEN LET s == MinSumOver(P)
                 IN  [NoInfo EXCEPT !.c = "multi", !.d = d, !.minsum = s,
                                    !.mins = {x \in P : VecSum(x) = s}, !.complete = (s - (n - 1) <= Be)]
            ELSE IF HasCertOf(E, Y)
                 THEN [NoInfo EXCEPT !.c = "infeasible", !.sub = "cert", !.d = d, !.complete = TRUE]
                 ELSE [NoInfo EXCEPT !.c = "undecided", !.d = d]

NoPositive(c) == c \in {"ray_neg", "ray_zero", "infeasible"}
\* no elimination may be attempted on this problem (numbers too large)
Unelim(inf) == inf.sub \in {"unclassified", "witness-unclassified"}
SomePositive(c) == c \in {"ray_pos", "multi"}

\* minimal coefficient sum among ALL positive solutions (decided by bounded search when small enough)
MinDecidable(M, x) == LET E == Reduce(M) IN
    RankOf(E) = NCols(M) - 1 \/ SearchSize(E, VecSum(x) - NCols(M)) <= SearchCap
IsMinSum(M, x) == LET E == Reduce(M) IN
    IF RankOf(E) = NCols(M) - 1 THEN Coprime(x) ELSE PosSolUpToSum(E, VecSum(x) - 1) = {}

------------------------------------------------------------------------------
(* Observed outcomes (abstract vocabulary shared with the binding layer):                     *)
(*   [k |-> "raise", exc |-> class name]                                                      *)
(*   [k |-> "num", x |-> <<n,d>> per column (<<0,1>> where absent), present |-> BOOLEAN per    *)
(*                 column, extra |-> number of returned keys that are not a given species on   *)
(*                 the side they were given]                                                  *)
(*   [k |-> "sym", x0 |-> .., vs |-> .., present, extra]   coefficients x0 + sum_k s_k vs[k]  *)
(*   [k |-> "other"]  anything else (non-linear expression, float, nan ...)                   *)
Cols == 1..N
IsIntQ(xq) == \A j \in 1..Len(xq) : xq[j][2] = 1
IntOf(xq) == Eager([j \in 1..Len(xq) |-> xq[j][1]])
KeysExact(res) == res.extra = 0 /\ \A j \in Cols : res.present[j]

\* numeric clauses common to every case where a definite positive integer answer is judged
NumClauses(M, res, xq) ==
    IF ~IsIntQ(xq) THEN "not-integer"
    ELSE LET x == IntOf(xq) IN
         IF ~Balanced(M, x) THEN "not-balanced"
         ELSE IF ~Positive(x) THEN "not-positive"
         ELSE IF ~Coprime(x) THEN "not-coprime"
         ELSE ""

MinClause(M, xq) == LET x == IntOf(xq) IN
    IF ~MinDecidable(M, x) THEN "nomin" ELSE IF IsMinSum(M, x) THEN "" ELSE "not-minimal"

JudgeRaise(res, c, m) ==
    IF c = "ray_pos" \/ (c = "multi" /\ m = "None") THEN "unexpected-raise"
    ELSE IF res.exc # "ValueError" THEN "wrong-exception"
    ELSE IF c = "undecided" THEN "undecided"
    ELSE ""          \* no positive solution, or a refusal in a mode that may refuse (multi: True/False)

JudgeNum(M, res, inf, m) ==
    IF NoPositive(inf.c) THEN "missing-raise"
    ELSE IF m = "True" /\ inf.c # "ray_pos"
         THEN (IF res.extra # 0 THEN "keys"
               ELSE IF QBalanced(M, res.x)
                    THEN (IF inf.c = "undecided" THEN "undecided" ELSE "")
                    ELSE "not-balanced")
    ELSE IF ~KeysExact(res) THEN "keys"
    ELSE LET c1 == NumClauses(M, res, res.x) IN
         IF c1 # "" THEN c1
         ELSE IF m = "None" /\ inf.c = "multi" /\ VecSum(IntOf(res.x)) > inf.minsum THEN "not-minimal"
         ELSE IF Unelim(inf) THEN (IF inf.c = "undecided" THEN "undecided" ELSE "nomin")
         ELSE IF m = "None" /\ inf.c # "ray_pos" THEN MinClause(M, res.x)
         ELSE ""

JudgeSym(M, res, inf, m) ==
    IF m # "True" THEN "kind"
    ELSE IF inf.c = "ray_pos" THEN "not-generator"
    ELSE IF NoPositive(inf.c) THEN "missing-raise"
    ELSE IF res.extra # 0 THEN "keys"
    ELSE IF ~LinearFormBalanced(M, res.x0, res.vs) THEN "not-balanced"
    ELSE IF inf.c = "undecided" THEN "undecided"
    ELSE ""

(* ---- duplicates (mode None, allow_duplicates): a species given on both sides ----          *)
(* dupl is a set of pairs <<i, j>>: reactant column i and product column j are one species.   *)
(* A PLACEMENT keeps every non-duplicated column and, of each pair, the reactant column, the  *)
(* product column or neither.  An answer must be the answer of one placement; a refusal is    *)
(* admissible only if no placement has a positive solution.                                   *)
DuplCols(D) == {p[1] : p \in D} \cup {p[2] : p \in D}
ValidDupl(cm, nreac, D) ==
    /\ D # {}
    /\ \A p \in D : /\ p[1] \in 1..nreac /\ p[2] \in (nreac + 1)..Len(cm[1])
                    /\ Col(cm, p[1]) = Col(cm, p[2])
    /\ \A p, q \in D : (p[1] = q[1] \/ p[2] = q[2]) => p = q
    /\ DuplCols(D) # 1..Len(cm[1])             \* the two sides are not the same set of species
Placements(D) == [D -> {"reac", "prod", "drop"}]
KeptCols(D, pl) == {j \in Cols : j \notin DuplCols(D)}
                   \cup {p[1] : p \in {q \in D : pl[q] = "reac"}} \cup {p[2] : p \in {q \in D : pl[q] = "prod"}}
SubMatrix(S) == SubCols(A, SetToSortSeq(S, <))
\* class of every placement, computed once per problem (ChooseDupl stores the result in info)
PlacementClassMap(D) ==
    Eager([pl \in Placements(D) |-> ClassInfo(SubMatrix(KeptCols(D, pl)), PosBoxB, CertBoxY).c])
\* sub-class of a duplicate problem: some placement that keeps every duplicate on one side has a
\* positive solution ("place"), only placements that drop a duplicate have one ("drop"), none has
DuplTagOf(D, pcm) ==
    IF \E pl \in DOMAIN pcm : (\A q \in D : pl[q] # "drop") /\ SomePositive(pcm[pl]) THEN "dupl-place"
    ELSE IF \E pl \in DOMAIN pcm : SomePositive(pcm[pl]) THEN "dupl-drop"
    ELSE "dupl-none"

JudgeDupl(res, D) ==
    IF res.k = "raise" THEN
        LET cs == info.dcls IN
        IF \E c \in cs : SomePositive(c) THEN "unexpected-raise"
        ELSE IF res.exc # "ValueError" THEN "wrong-exception"
        ELSE IF "undecided" \in cs THEN "undecided" ELSE ""
    ELSE IF res.k = "num" THEN
        LET P == {j \in Cols : res.present[j]} IN
        IF res.extra # 0 \/ (\E j \in Cols \ DuplCols(D) : j \notin P)
           \/ (\E p \in D : p[1] \in P /\ p[2] \in P) \/ P = {}
        THEN "keys"
        ELSE LET ps == SetToSortSeq(P, <)
                 M == SubCols(A, ps)
                 xq == Eager([i \in 1..Len(ps) |-> res.x[ps[i]]])
                 c1 == NumClauses(M, res, xq)
             IN  IF c1 # "" THEN c1 ELSE MinClause(M, xq)
    ELSE "kind"

Judge(res) ==
    IF dupl # {} THEN JudgeDupl(res, dupl)
    ELSE IF res.k = "raise" THEN JudgeRaise(res, info.c, mode)
    ELSE IF res.k = "num" THEN JudgeNum(A, res, info, mode)
    ELSE IF res.k = "sym" THEN JudgeSym(A, res, info, mode)
    ELSE "kind"

Admissible(res) == Judge(res) \in {"", "undecided", "nomin"}

------------------------------------------------------------------------------
(* what a generated case tells the binding layer: a finite set of admissible outcomes where   *)
(* there is one ("exact", "oneof", "raise"), otherwise "judge" (TLC judges the observation    *)
(* by trace validation) or "skip" (undecided: never judged)                                   *)
NoExp == [kind |-> "judge", sols |-> <<>>, exc |-> ""]
Expected ==
    IF dupl # {} THEN
        LET cs == info.dcls IN
        IF \A c \in cs : NoPositive(c) THEN [NoExp EXCEPT !.kind = "raise", !.exc = "ValueError"]
        ELSE NoExp
    ELSE IF info.c = "ray_pos" THEN [NoExp EXCEPT !.kind = "exact", !.sols = <<info.gen>>]
    ELSE IF NoPositive(info.c) THEN [NoExp EXCEPT !.kind = "raise", !.exc = "ValueError"]
    ELSE IF info.c = "undecided" THEN [NoExp EXCEPT !.kind = "skip"]
    ELSE IF mode = "None" /\ info.complete THEN [NoExp EXCEPT !.kind = "oneof", !.sols = SetToSeq(info.mins)]
    ELSE NoExp

------------------------------------------------------------------------------
Init ==
    /\ comp = <<>> /\ nr = 0 /\ np = 0 /\ nk = 0 /\ crow = 0 /\ scale = 1 /\ filled = 0
    /\ stage = "shape" /\ info = NoInfo /\ dupl = {} /\ mode = "" /\ outcome = NoOutcome
    /\ form = NoForm

\* crow: index of the net-charge row (0: none)
ChooseShape(r, p, k, cr, sc) ==
    /\ stage = "shape"
    /\ r >= 1 /\ p >= 1 /\ k >= 1 /\ cr \in {0, k} /\ sc >= 1
    /\ nr' = r /\ np' = p /\ nk' = k /\ crow' = cr /\ scale' = sc
    /\ comp' = [i \in 1..k |-> [j \in 1..(r + p) |-> 0]]
    /\ filled' = 0 /\ stage' = "fill"
    /\ UNCHANGED <<info, dupl, mode, outcome, form>>

\* entries are written column by column (species by species)
NextJ == (filled \div nk) + 1
NextK == (filled % nk) + 1
SetEntry(k, j, v) ==
    /\ stage = "fill" /\ filled < nk * N
    /\ k = NextK /\ j = NextJ
    /\ v \in Int /\ (k # crow => v >= 0)
    /\ comp' = [comp EXCEPT ![k][j] = v]
    /\ filled' = filled + 1
    /\ UNCHANGED <<nr, np, nk, crow, scale, stage, info, dupl, mode, outcome, form>>

Classify ==
    /\ stage = "fill" /\ filled = nk * N
    /\ info' = ClassInfo(A, PosBoxB, CertBoxY)
    /\ stage' = "classified"
    /\ UNCHANGED <<comp, nr, np, nk, crow, scale, filled, dupl, mode, outcome, form>>

\* the problem is taken as it is, without classification (see "undecided / unclassified" above)
Unclassified ==
    /\ stage = "fill" /\ filled = nk * N
    /\ info' = [NoInfo EXCEPT !.c = "undecided", !.sub = "unclassified"]
    /\ stage' = "classified"
    /\ UNCHANGED <<comp, nr, np, nk, crow, scale, filled, dupl, mode, outcome, form>>

ChooseDupl(D) ==
    /\ stage = "classified" /\ dupl = {} /\ ~Unelim(info)
    /\ ValidDupl(comp, nr, D)
    /\ dupl' = D
    /\ LET pcm == PlacementClassMap(D)
       IN  info' = [info EXCEPT !.dtag = DuplTagOf(D, pcm), !.dcls = {pcm[pl] : pl \in DOMAIN pcm}]
    /\ UNCHANGED <<comp, nr, np, nk, crow, scale, filled, stage, mode, outcome, form>>

(* A WITNESS: a positive integer vector claimed (by whoever poses the problem) to balance it.   *)
(* The claim is checked here, exactly; a verified witness settles feasibility of a problem the  *)
(* bounded searches left undecided (large null spaces), and its coefficient sum bounds the     *)
(* minimal sum from above.  It cannot be enabled on a problem without positive solutions.      *)
\* a verified positive solution x settles feasibility and bounds the minimal sum from above
Settle(inf, x) ==
    IF inf.c = "undecided"
    THEN [inf EXCEPT !.c = "multi", !.minsum = VecSum(x),
                     !.sub = IF Unelim(inf) THEN "witness-unclassified" ELSE "witness"]
    ELSE IF inf.c = "multi" /\ VecSum(x) < inf.minsum
         THEN [inf EXCEPT !.minsum = VecSum(x), !.mins = {}, !.complete = FALSE]
         ELSE inf
IsPositiveSolution(x) == Len(x) = N /\ (\A j \in 1..Len(x) : x[j] \in Int) /\ Balanced(A, x) /\ Positive(x)

Witness(x) ==
    /\ stage = "classified" /\ dupl = {}
    /\ IsPositiveSolution(x)
    /\ info.c \in {"undecided", "multi", "ray_pos"}
    /\ info' = Settle(info, x)
    /\ UNCHANGED <<comp, nr, np, nk, crow, scale, filled, stage, dupl, mode, outcome, form>>

(* A PEER: the answer the implementation itself gave for ANOTHER PRESENTATION of the same problem  *)
(* (species and keys in another order).  The minimal coefficient sum does not depend on the        *)
(* presentation, so every peer that TLC verifies to be a positive solution is a witness: an answer *)
(* in mode None whose sum exceeds a peer's is not minimal.  This is how minimality is judged on    *)
(* problems whose exact minimum is out of reach of the bounded search (null space of dimension     *)
(* >= 4, sums ~100: >= 10^9 assignments): a refutation by certificate, sound but not complete.     *)
(* A peer that is not a positive solution is simply not used (its own trace reports it).           *)
Peer(x) ==
    /\ stage = "classified" /\ dupl = {}
    /\ info' = IF IsPositiveSolution(x) /\ info.c \in {"undecided", "multi"} THEN Settle(info, x) ELSE info
    /\ UNCHANGED <<comp, nr, np, nk, crow, scale, filled, stage, dupl, mode, outcome, form>>

ChooseMode(m) ==
    /\ stage = "classified"
    /\ m \in AllModes
    /\ (dupl # {} => m = "None")          \* documented: duplicates require the smallest-integers mode
    /\ mode' = m /\ stage' = "mode"
    /\ UNCHANGED <<comp, nr, np, nk, crow, scale, filled, info, dupl, outcome, form>>

(* THE FORM OF THE CALL.  The same problem can be handed to balance_stoichiometry in many      *)
(* ways; none of them is part of the problem, so the admissible outcomes (Judge) do not depend *)
(* on the form - that independence is the specification of every argument below.             *)
(*   cont    container of the reactant / product keys: list, tuple, set (the code sorts it),   *)
(*           frozenset, dict (ordered mapping whose keys are the species)                      *)
(*   naming  species names whose sorted order is / is the reverse of the order given           *)
(*           (unpadded numbers: "R10" sorts before "R2")                                       *)
(*   subst   substances= exact mapping | mapping with unrelated extra substances | string of   *)
(*           names + substance_factory | None + substance_factory                              *)
(*   psym    parametric_symbols= default | user generator of integer symbols | of plain ones   *)
(*   num     amounts as ints where integral | all floats | ints with an explicit amount 0 for  *)
(*           every key the species does not contain                                            *)
(*   calls   the observation is the outcome of the first / second call with the same objects   *)
(*   modearg mode None passed as None ("plain") or as the deprecated literal 1 ("one")         *)
(*   allow   allow_duplicates flag (must be TRUE when duplicates are declared)                 *)
(*           (extended: cont also a dict keys view or a one-shot generator; num also floats   *)
(*           with explicit 0.0, numpy scalars, sympy numbers, fractions.Fraction; modearg also *)
(*           "zero": mode False passed as the falsy literal 0)                                *)
(*   names   Substance.name equals the mapping key / differs from it (alias keys)             *)
(*   prior   with calls = 2: the earlier call used the same problem / OTHER compositions for   *)
(*           the same keys (mapping edited in place, or another factory) - no result may be   *)
(*           remembered from one call to the next                                             *)
(*   keys    which composition key stands for which row: in row order / in reversed order     *)
(*           (the code sorts the keys, so this permutes the rows of its matrix)                *)
IsForm(f) ==
    /\ DOMAIN f = DOMAIN DefaultForm /\ f.set = TRUE
    /\ f.cont \in {"list", "tuple", "set", "frozenset", "dict", "keysview", "generator"}
    /\ f.naming \in {"plain", "reversed"}
    /\ f.subst \in {"map", "superset", "str", "none"}
    /\ f.psym \in {"default", "user_int", "user_plain"}
    /\ f.num \in {"int", "float", "explicit0", "explicit0f", "numpy", "sympy", "fraction"}
    /\ f.calls \in {1, 2}
    /\ f.modearg \in {"plain", "one", "zero"}
    /\ f.allow \in BOOLEAN
    /\ f.keys \in {"plain", "reversed"}
    /\ f.names \in {"same", "alias"}
    /\ f.prior \in {"same", "other"}
\* (the deprecated literal 1 is an alias of None only without duplicates: allow_duplicates is documented
\*  to require underdetermined=None itself)
FormFits(f) == /\ (f.modearg = "one" => (mode = "None" /\ dupl = {}))
               /\ (f.modearg = "zero" => mode = "False")
               /\ (f.cont = "generator" => f.calls = 1)     \* a one-shot iterator serves one call
               /\ (dupl # {} => f.allow)
ChooseForm(f) ==
    /\ stage = "mode" /\ ~form.set
    /\ IsForm(f) /\ FormFits(f)
    /\ form' = f
    /\ UNCHANGED <<comp, nr, np, nk, crow, scale, filled, stage, info, dupl, mode, outcome>>

Accept(res) ==
    /\ stage = "mode"
    /\ Admissible(res)
    /\ outcome' = res /\ stage' = "done"
    /\ UNCHANGED <<comp, nr, np, nk, crow, scale, filled, info, dupl, mode, form>>

------------------------------------------------------------------------------
(* generation wrappers: canonical problems only (columns strictly increasing within a side,   *)
(* hence no duplicate species within a side; no empty species; no unused key)                 *)
LexLess(a, b) == \E i \in 1..Len(a) : a[i] < b[i] /\ \A h \in 1..(i - 1) : a[h] = b[h]
LexLeq(a, b) == a = b \/ LexLess(a, b)
ColCanonical(cm, nreac, j) ==
    IF Canon = "loose"
    THEN (j # 1 /\ j # nreac + 1) => LexLeq(Col(cm, j - 1), Col(cm, j))
    ELSE /\ \E k \in 1..Len(cm) : cm[k][j] # 0
         /\ (j # 1 /\ j # nreac + 1) => LexLess(Col(cm, j - 1), Col(cm, j))
\* strict: every key is used; loose: at least one amount is non-zero (a problem has a composition key)
RowsUsed(cm) == IF Canon = "loose" THEN \E k \in 1..Len(cm) : \E j \in 1..Len(cm[k]) : cm[k][j] # 0
                ELSE \A k \in 1..Len(cm) : \E j \in 1..Len(cm[k]) : cm[k][j] # 0

GenShape == \E s \in Shapes, cr \in ChargeRows, sc \in Scales :
    /\ (cr => s[3] >= 2)
    /\ ChooseShape(s[1], s[2], s[3], IF cr THEN s[3] ELSE 0, sc)
GenSetEntry == stage = "fill" /\ \E v \in (IF NextK = crow THEN ChargeVals ELSE EntryVals) :
    /\ SetEntry(NextK, NextJ, v)
    /\ (NextK = nk => ColCanonical(comp', nr, NextJ))
    /\ (filled + 1 = nk * N => RowsUsed(comp'))
MatchPairs == {p \in (1..nr) \X ((nr + 1)..N) : Col(comp, p[1]) = Col(comp, p[2])}
GenDupl == "some" \in DuplModes /\ \E D \in SUBSET MatchPairs : ChooseDupl(D)
GenMode == \E m \in Modes : ("none" \in DuplModes \/ dupl # {}) /\ ChooseMode(m)
\* the form is adjusted to what the problem requires (duplicates need the flag, "one" needs mode None)
FitForm(f) == [f EXCEPT !.allow = (f.allow \/ dupl # {}),
                         !.calls = IF f.cont = "generator" THEN 1 ELSE f.calls,
                         !.modearg = IF f.modearg = "plain" THEN "plain"
                                     ELSE IF mode = "None" /\ dupl = {} THEN "one"
                                     ELSE IF mode = "False" THEN "zero" ELSE "plain"]
GenForm == \E f \in Forms : ChooseForm(FitForm(f))

\* candidate outcomes for the Accept self-check (small models only)
RaiseRes(e) == [k |-> "raise", exc |-> e]
NumRes(x) == [k |-> "num", x |-> [j \in 1..Len(x) |-> <<x[j], 1>>], present |-> [j \in 1..Len(x) |-> TRUE], extra |-> 0]
Candidates == IF CheckBox = 0 THEN {}
              ELSE {RaiseRes("ValueError"), RaiseRes("TypeError")} \cup {NumRes(x) : x \in Box(N, -1, CheckBox)}
GenAccept == form.set /\ \E res \in Candidates : Accept(res)

Next == GenShape \/ GenSetEntry \/ Classify \/ GenDupl \/ GenMode \/ GenForm \/ GenAccept
Spec == Init /\ [][Next]_vars

------------------------------------------------------------------------------
(* invariants *)
Stages == {"shape", "fill", "classified", "mode", "done"}
Classes == {"ray_pos", "ray_neg", "ray_zero", "infeasible", "multi", "undecided"}
TypeOK ==
    /\ stage \in Stages
    /\ stage # "shape" => /\ nr >= 1 /\ np >= 1 /\ nk >= 1 /\ IsMatrix(comp) /\ Len(comp) = nk /\ Len(comp[1]) = N
                          /\ \A k \in 1..nk : k # crow => \A j \in 1..N : comp[k][j] >= 0
    /\ stage \in {"classified", "mode", "done"} => info.c \in Classes
    /\ stage \in {"mode", "done"} => mode \in AllModes

\* evaluated once per problem (the state right after Classify)
Classified == stage = "classified" /\ dupl = {}

\* the null-space basis is a basis of null vectors: one per free column, primitive, and the
\* rank is that of the transpose (two eliminations of different shape agree)
NullBasisSound == Classified =>
    LET E == Reduce(A)  Bs == NullBasisOf(E) IN
    /\ Len(Bs) = N - RankOf(E) /\ info.d = Len(Bs)
    /\ \A i \in 1..Len(Bs) : Balanced(A, Bs[i]) /\ (VecGCD(Bs[i]) = 1)
    /\ RankOf(E) = Rank(Transpose(A))

\* a Stiemke certificate and a positive solution never coexist
CertExcludesPositive == Classified =>
    LET E == Reduce(A) IN
    /\ HasCertOf(E, CertBoxY) => PosSolOf(E, BoxWithin(E, PosBoxB, SearchCap)) = {}
    /\ (CheckBox > 0 /\ HasCertOf(E, CertBoxY)) => PosBox(A, CheckBox) = {}
    /\ (CheckBox > 0 /\ NoPositive(info.c)) => PosBox(A, CheckBox) = {}

\* the primitive generator of a positive ray is the unique positive solution of minimal sum,
\* cross-checked by plain box search; nullity agrees with the small-null-vector search
MaxAbs(v) == Max({Abs(v[i]) : i \in 1..Len(v)})
RayGeneratorIsMinSum == (Classified /\ CheckBox > 0) =>
    /\ (info.c = "ray_pos" /\ MaxAbs(info.gen) <= CheckBox) =>
          LET P == PosBox(A, CheckBox) IN
          /\ info.gen \in P
          /\ \A x \in P : x = info.gen \/ VecSum(x) > VecSum(info.gen)
    /\ (info.d = 1 /\ MaxAbs(info.gen) <= CheckBox) => IsRayBySearch(A, CheckBox)
    /\ info.d = 0 => SmallNullVectors(A, CheckBox) = {}
    /\ \A x \in Box(N, -1, CheckBox) : IsNullVecBig(A, x) = IsNullVec(A, x)
    /\ (info.c = "multi" /\ info.complete /\ info.minsum - (N - 1) <= CheckBox) =>
          LET P == PosBox(A, CheckBox) IN
          info.mins = {x \in P : \A y \in P : VecSum(x) <= VecSum(y)}

\* Accept's case analysis against the primitive clauses
AcceptSound == (stage = "done" /\ dupl = {}) =>
    /\ (outcome.k = "num" /\ mode # "True") =>
          LET x == IntOf(outcome.x) IN Balanced(A, x) /\ Positive(x) /\ Coprime(x)
    /\ (outcome.k = "num" /\ info.c = "ray_pos") => IntOf(outcome.x) = info.gen
    /\ (outcome.k = "num" /\ mode = "None" /\ CheckBox > 0) =>
          \A y \in PosBox(A, CheckBox) : VecSum(y) >= VecSum(IntOf(outcome.x))
    /\ outcome.k = "raise" => outcome.exc = "ValueError" /\ info.c # "ray_pos"
    /\ (outcome.k = "raise" /\ CheckBox > 0 /\ mode = "None") => PosBox(A, CheckBox) = {}

------------------------------------------------------------------------------
(* case export *)
Ready == stage = "mode" /\ form.set
ClassTag == IF dupl # {} THEN info.dtag ELSE info.c \o (IF info.sub = "" THEN "" ELSE "-" \o info.sub)
ClassLabel == ClassTag \o "/" \o mode \o (IF crow = 0 THEN "" ELSE "/q")
              \o (IF scale = 1 THEN "" ELSE "/s")
CaseRec ==
    [in  |-> [nr |-> nr, np |-> np, nk |-> nk, crow |-> crow, scale |-> scale, comp |-> comp,
              mode |-> mode, dupl |-> SetToSortSeq(dupl, LAMBDA p, q : p[1] < q[1]), form |-> form],
     exp |-> [kind |-> Expected.kind, sols |-> Expected.sols, exc |-> Expected.exc,
              c |-> info.c, sub |-> info.sub, d |-> info.d, gen |-> info.gen],
     cls |-> ClassLabel]
Emit == Ready => PrintT(<<"CASE", ToJson(CaseRec)>>)
=============================================================================
