INIT TInit
NEXT TNext
CONSTANTS
  Shapes = {}
  EntryVals = {}
  ChargeVals = {}
  ChargeRows = {}
  Scales = {}
  Modes = {}
  DuplModes = {}
  PosBoxB = 12
  CertBoxY = 3
  SearchCap = 600
  CheckBox = 0
  Forms = {}
  Canon = "strict"
INVARIANT Verdict
INVARIANT TypeOK
CHECK_DEADLOCK FALSE
