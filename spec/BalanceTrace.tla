---------------------------- MODULE BalanceTrace ----------------------------
(* Trace validation for Balance (C02).  A trace is one recorded call of                      *)
(* balance_stoichiometry: the problem as the events Shape, SetEntry*, Classify, [Witness],   *)
(* [Peer],                                                                                   *)
(* [Dupl], Mode                                                                              *)
(* followed by Result(obs).  The events are replayed through the actions of Balance; the     *)
(* Result event fires Accept(obs), which is enabled iff the observed outcome is admissible   *)
(* for the class TLC computed.  Batch protocol as in FormulaTrace: Init picks a trace id,    *)
(* every chain ends in verdict "accept" or "reject" and prints exactly one VERDICT line.     *)
(* The clause field is "<clause>@<class>": for a rejection the first violated clause, for an *)
(* acceptance "", "undecided" (class not decided inside the boxes: not judged) or "nomin"    *)
(* (minimality search too large: everything but minimality judged).                         *)
EXTENDS Balance, IOUtils

Traces == JsonDeserialize(IOEnv.TRACE_FILE)

VARIABLES tid, pos, verdict
tvars == <<vars, tid, pos, verdict>>

Ev == Traces[tid][pos]

TInit == Init /\ tid \in 1..Len(Traces) /\ pos = 1 /\ verdict = "none"

PairSet(ps) == {<<ps[i][1], ps[i][2]>> : i \in 1..Len(ps)}

Step(e) ==
    CASE e.ev = "Shape"    -> ChooseShape(e.nr, e.np, e.nk, e.crow, e.scale)
      [] e.ev = "SetEntry" -> SetEntry(e.k, e.j, e.v)
      [] e.ev = "Classify" -> Classify
      [] e.ev = "Unclassified" -> Unclassified
      [] e.ev = "Witness"  -> Witness(e.x)
      [] e.ev = "Peer"     -> Peer(e.x)
      [] e.ev = "Dupl"     -> ChooseDupl(PairSet(e.pairs))
      [] e.ev = "Mode"     -> ChooseMode(e.m)
      [] e.ev = "Form"     -> ChooseForm(e.f)
      [] OTHER             -> FALSE

\* structural well-formedness of an observation (a malformed one is a harness defect)
ObsShape(o) ==
    /\ o.k \in {"raise", "num", "sym", "other"}
    /\ o.k \in {"num", "sym"} => /\ Len(o.x) = N /\ Len(o.present) = N /\ Len(o.x0) = N
                                 /\ \A k \in 1..Len(o.vs) : Len(o.vs[k]) = N
                                 /\ \A j \in 1..N : o.x[j][2] > 0 /\ o.x0[j][2] > 0

TStep ==
    /\ verdict = "none" /\ pos <= Len(Traces[tid])
    /\ IF Ev.ev = "Result"
       THEN ObsShape(Ev.obs) /\ Accept(Ev.obs) /\ verdict' = "accept"
       ELSE Step(Ev) /\ verdict' = "none"
    /\ pos' = pos + 1 /\ UNCHANGED tid

TReject ==
    /\ verdict = "none" /\ ~ENABLED TStep
    /\ verdict' = "reject" /\ UNCHANGED <<vars, tid, pos>>

TNext == TStep \/ TReject

Clause ==
    IF pos > Len(Traces[tid]) THEN "no-result-event"
    ELSE LET e == Ev IN
      IF e.ev # "Result" THEN "step:" \o e.ev
      ELSE IF stage # "mode" THEN "notready"
      ELSE IF ~ObsShape(e.obs) THEN "obs-shape"
      ELSE Judge(e.obs) \o "@" \o ClassTag

Verdict == verdict # "none" =>
    PrintT(<<"VERDICT", tid, verdict, pos,
             IF verdict = "accept" THEN Judge(outcome) \o "@" \o ClassTag ELSE Clause>>)
=============================================================================
