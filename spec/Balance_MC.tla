---------------------------- MODULE Balance_MC ----------------------------
(* Constant definitions for the sliced exhaustive configurations of Balance (C02).          *)
EXTENDS Balance

Sh_Tiny  == {<<1, 1, 1>>, <<1, 1, 2>>, <<1, 2, 1>>, <<2, 1, 1>>, <<1, 2, 2>>, <<2, 1, 2>>}
Sh_3     == {<<1, 2, 3>>, <<2, 1, 3>>}
Sh_3k2   == {<<1, 2, 2>>, <<2, 1, 2>>}
Sh_4k2   == {<<2, 2, 2>>, <<1, 3, 2>>, <<3, 1, 2>>}
Sh_4k3   == {<<2, 2, 3>>, <<1, 3, 3>>, <<3, 1, 3>>}
Sh_22k3  == {<<2, 2, 3>>}
Sh_22k2  == {<<2, 2, 2>>}
Sh_Chg   == {<<1, 2, 2>>, <<2, 1, 2>>, <<2, 2, 2>>, <<1, 1, 2>>}
Sh_ChgT  == {<<1, 2, 3>>, <<2, 1, 3>>, <<2, 2, 3>>}
Sh_Dupl  == {<<1, 2, 2>>, <<2, 1, 2>>, <<2, 2, 2>>}
Sh_Dupl2 == {<<2, 3, 2>>}
Sh_DuplT == {<<3, 2, 2>>, <<1, 3, 2>>, <<3, 1, 2>>}
Sh_5     == {<<2, 3, 2>>, <<3, 2, 2>>}

V01 == 0..1
V02 == 0..2
V03 == 0..3
V04 == 0..4
Q11 == (-1)..1
Q22 == (-2)..2
NoCharge == {FALSE}
WithCharge == {TRUE}
S1 == {1}
S210 == {2, 10}
\* finely resolved fractional amounts: entry/scale with 4-5 significant digits
\* 32-bit range: two keys only at scale 10^4 (one elimination step of products <= 4*10^8)
Sh_Fine  == {<<1, 1, 1>>, <<1, 1, 2>>}
Sh_Fine1 == {<<1, 1, 1>>}
VFine4   == {0, 3333, 9474, 10000, 16667, 20000, 6285, 8333, 19167, 1667}
VFine5   == {0, 33333, 94737, 100000, 166667, 62853, 83333, 191667, 16667, 200000, 12345}
S1e4 == {10000}
S1e5 == {100000}
\* call forms: the default one, and a covering set (every value of every argument form at least
\* twice, most pairs of values at least once)
Fm(c, n, s, p, a, k, m, d) == [set |-> TRUE, cont |-> c, naming |-> n, subst |-> s, psym |-> p, num |-> a,
                               calls |-> k, modearg |-> m, allow |-> d,
                               keys |-> IF (n = "reversed" /\ k = 1) \/ (n = "plain" /\ k = 2) THEN "reversed" ELSE "plain",
                               names |-> IF s \in {"superset", "none"} THEN "alias" ELSE "same",
                               prior |-> IF p = "default" THEN "other" ELSE "same"]
F_Default == {DefaultForm}
F_Cover == {
    Fm("list", "plain", "map", "default", "int", 1, "plain", FALSE),
    Fm("set", "reversed", "map", "default", "int", 1, "plain", FALSE),
    Fm("tuple", "plain", "superset", "user_int", "float", 1, "one", TRUE),
    Fm("frozenset", "reversed", "str", "default", "int", 2, "plain", FALSE),
    Fm("dict", "plain", "none", "user_plain", "explicit0", 1, "plain", TRUE),
    Fm("set", "plain", "str", "user_int", "float", 2, "one", FALSE),
    Fm("list", "reversed", "none", "default", "explicit0", 2, "one", TRUE),
    Fm("dict", "reversed", "superset", "default", "int", 1, "plain", FALSE),
    Fm("set", "reversed", "none", "user_plain", "float", 1, "plain", TRUE),
    Fm("tuple", "reversed", "str", "user_int", "explicit0", 1, "plain", FALSE),
    Fm("frozenset", "plain", "superset", "user_plain", "int", 2, "one", TRUE),
    Fm("list", "plain", "str", "default", "float", 1, "plain", TRUE),
    Fm("dict", "reversed", "map", "user_int", "int", 2, "one", FALSE),
    Fm("tuple", "plain", "none", "default", "float", 2, "plain", FALSE),
    Fm("frozenset", "reversed", "map", "default", "explicit0", 1, "one", TRUE),
    Fm("set", "plain", "superset", "default", "explicit0", 1, "plain", FALSE),
    Fm("keysview", "plain", "map", "default", "numpy", 2, "one", FALSE),
    Fm("generator", "reversed", "none", "user_int", "sympy", 1, "plain", FALSE),
    Fm("keysview", "reversed", "str", "default", "fraction", 1, "one", TRUE),
    Fm("generator", "plain", "map", "default", "explicit0f", 1, "one", FALSE),
    Fm("list", "reversed", "superset", "user_plain", "numpy", 2, "plain", FALSE),
    Fm("tuple", "plain", "str", "default", "sympy", 2, "one", TRUE),
    Fm("set", "plain", "none", "default", "fraction", 2, "plain", FALSE),
    Fm("dict", "plain", "map", "user_int", "explicit0f", 2, "one", TRUE) }
F_Loose == {DefaultForm, [DefaultForm EXCEPT !.num = "explicit0", !.keys = "reversed"],
            [DefaultForm EXCEPT !.num = "explicit0f", !.cont = "set", !.names = "alias"]}
ASSUME \A f \in F_Cover \cup F_Loose : IsForm(f)
Sh_Forms == {<<1, 2, 2>>, <<2, 1, 2>>}
Sh_FormsT == {<<2, 2, 2>>}
D_Both == {"none", "some"}
M_TF == {"True", "False"}
M_All == {"True", "False", "None"}
M_None == {"None"}
D_None == {"none"}
D_Some == {"some"}
=============================================================================
