---------------------------- MODULE Balance_MC ----------------------------
(* Constant definitions for the sliced exhaustive configurations of Balance (C02).          *)
EXTENDS Balance

Sh_Tiny  == {<<1, 1, 1>>, <<1, 1, 2>>, <<1, 2, 1>>, <<2, 1, 1>>, <<1, 2, 2>>, <<2, 1, 2>>}
Sh_3     == {<<1, 2, 3>>, <<2, 1, 3>>}
Sh_3k2   == {<<1, 2, 2>>, <<2, 1, 2>>}
Sh_4k2   == {<<2, 2, 2>>, <<1, 3, 2>>, <<3, 1, 2>>}
Sh_4k3   == {<<2, 2, 3>>, <<1, 3, 3>>, <<3, 1, 3>>}
Sh_22k3  == {<<2, 2, 3>>}
Sh_22k2  == {<<2, 2, 2>>}
Sh_Chg   == {<<1, 2, 2>>, <<2, 1, 2>>, <<2, 2, 2>>, <<1, 1, 2>>}
Sh_ChgT  == {<<1, 2, 3>>, <<2, 1, 3>>, <<2, 2, 3>>}
Sh_Dupl  == {<<1, 2, 2>>, <<2, 1, 2>>, <<2, 2, 2>>}
Sh_Dupl2 == {<<2, 3, 2>>}
Sh_DuplT == {<<3, 2, 2>>, <<1, 3, 2>>, <<3, 1, 2>>}
Sh_5     == {<<2, 3, 2>>, <<3, 2, 2>>}

V01 == 0..1
V02 == 0..2
V03 == 0..3
V04 == 0..4
Q11 == (-1)..1
Q22 == (-2)..2
NoCharge == {FALSE}
WithCharge == {TRUE}
S1 == {1}
S210 == {2, 10}
\* finely resolved fractional amounts: entry/scale with 4-5 significant digits
\* 32-bit range: two keys only at scale 10^4 (one elimination step of products <= 4*10^8)
Sh_Fine  == {<<1, 1, 1>>, <<1, 1, 2>>}
Sh_Fine1 == {<<1, 1, 1>>}
VFine4   == {0, 3333, 9474, 10000, 16667, 20000, 6285, 8333, 19167, 1667}
VFine5   == {0, 33333, 94737, 100000, 166667, 62853, 83333, 191667, 16667, 200000, 12345}
S1e4 == {10000}
S1e5 == {100000}
M_TF == {"True", "False"}
M_All == {"True", "False", "None"}
M_None == {"None"}
D_None == {"none"}
D_Some == {"some"}
=============================================================================
