INIT Init
NEXT Next
CONSTANTS
  Shapes <- Sh_Fine1
  EntryVals <- VFine5
  ChargeVals <- Q11
  ChargeRows <- NoCharge
  Scales <- S1e5
  Modes <- M_TF
  DuplModes <- D_None
  PosBoxB = 8
  CertBoxY = 3
  SearchCap = 600
  Forms <- F_Default
  Canon = "strict"
  CheckBox = 0
INVARIANT TypeOK
INVARIANT NullBasisSound
INVARIANT CertExcludesPositive
INVARIANT RayGeneratorIsMinSum
INVARIANT AcceptSound
INVARIANT Emit
CHECK_DEADLOCK FALSE
