INIT Init
NEXT Next
CONSTANTS
  Shapes <- Sh_FormsT
  EntryVals <- V02
  ChargeVals <- Q11
  ChargeRows <- NoCharge
  Scales <- S1
  Modes <- M_All
  DuplModes <- D_None
  PosBoxB = 8
  CertBoxY = 3
  SearchCap = 600
  Forms <- F_Loose
  Canon = "loose"
  CheckBox = 0
INVARIANT TypeOK
INVARIANT NullBasisSound
INVARIANT CertExcludesPositive
INVARIANT RayGeneratorIsMinSum
INVARIANT AcceptSound
INVARIANT Emit
CHECK_DEADLOCK FALSE
