---------------------------- MODULE BigDec ----------------------------
(* Signed exact decimals beyond 32 bits (shared; used by PhysProps for literature            *)
(* correlations whose coefficients carry 7-10 significant digits).                            *)
(*                                                                                            *)
(*     [s |-> -1 | 0 | 1,  m |-> BigNat magnitude (limbs base 10^4),  f |-> fractional limbs] *)
(*     value = s * m / 10^(4 f)                                                               *)
(*                                                                                            *)
(* Sums, differences and products of decimals are decimals, so polynomials are exact; a       *)
(* rational function is kept as a pair [n |-> numerator, d |-> denominator] with d > 0 and    *)
(* compared by cross multiplication.  ToJson of a decimal gives {"s":..,"m":[..],"f":..}.     *)
EXTENDS Integers, Sequences, BigNat

DZero == [s |-> 0, m |-> <<>>, f |-> 0]
DMk(s, m, f) == IF m = <<>> \/ s = 0 THEN DZero ELSE [s |-> s, m |-> m, f |-> f]
DInt(n) == IF n = 0 THEN DZero ELSE DMk(IF n < 0 THEN -1 ELSE 1, BFromInt(IF n < 0 THEN -n ELSE n), 0)
DOne == DInt(1)
(* DDec(s, ip, <<g1, .., gk>>): sign s, integer part ip (< 2^31), fractional digits written   *)
(* in groups of four: DDec(-1, 3, <<9830, 3500>>) = -3.98303500                               *)
DDec(s, ip, fr) ==
    LET k == Len(fr) IN DMk(s, BTrim([i \in 1..k |-> fr[k + 1 - i]] \o BFromInt(ip)), k)
(* n / 10^4 and n / 100 for small integers n *)
DMyriad(n) == IF n = 0 THEN DZero ELSE DMk(IF n < 0 THEN -1 ELSE 1, BFromInt(IF n < 0 THEN -n ELSE n), 1)
DHund(n) == DMyriad(100 * n)
(* a Rational.tla pair <<n, d>> with d dividing 10^4 *)
DFromQ(q) == DMyriad(q[1] * (10000 \div q[2]))
(* times 10^(4 k), k any integer *)
DShift(a, k) == IF a.s = 0 THEN DZero
                ELSE IF k >= 0 THEN (IF a.f >= k THEN DMk(a.s, a.m, a.f - k) ELSE DMk(a.s, BShift(a.m, k - a.f), 0))
                ELSE DMk(a.s, a.m, a.f - k)

DMaxF(a, b) == IF a.f > b.f THEN a.f ELSE b.f
DAlign(a, f) == BShift(a.m, f - a.f)            \* magnitude of a in units of 10^(-4 f), f >= a.f
DNeg(a) == DMk(-a.s, a.m, a.f)
DAbs(a) == DMk(IF a.s = 0 THEN 0 ELSE 1, a.m, a.f)
DAdd(a, b) ==
    IF a.s = 0 THEN b ELSE IF b.s = 0 THEN a
    ELSE LET f == DMaxF(a, b)  x == DAlign(a, f)  y == DAlign(b, f) IN
         IF a.s = b.s THEN DMk(a.s, BAdd(x, y), f)
         ELSE LET c == BCmp(x, y) IN
              IF c = 0 THEN DZero
              ELSE IF c > 0 THEN DMk(a.s, BSub(x, y), f) ELSE DMk(b.s, BSub(y, x), f)
DSub(a, b) == DAdd(a, DNeg(b))
DMul(a, b) == IF a.s = 0 \/ b.s = 0 THEN DZero ELSE DMk(a.s * b.s, BMul(a.m, b.m), a.f + b.f)
DSq(a) == DMul(a, a)
RECURSIVE DPowN(_, _)
DPowN(a, k) == IF k = 0 THEN DOne ELSE DMul(a, DPowN(a, k - 1))
DCmp(a, b) ==
    IF a.s # b.s THEN (IF a.s < b.s THEN -1 ELSE 1)
    ELSE IF a.s = 0 THEN 0
    ELSE LET f == DMaxF(a, b) IN a.s * BCmp(DAlign(a, f), DAlign(b, f))
DEq(a, b) == DCmp(a, b) = 0
DLt(a, b) == DCmp(a, b) < 0
DLe(a, b) == DCmp(a, b) <= 0
DSumSeq(s) == LET RECURSIVE F(_)
                  F(i) == IF i > Len(s) THEN DZero ELSE DAdd(s[i], F(i + 1))
              IN  F(1)
(* Horner: c[1] + x (c[2] + x (c[3] + ...)) *)
DHorner(c, x) == LET RECURSIVE H(_)
                     H(i) == IF i > Len(c) THEN DZero ELSE DAdd(c[i], DMul(x, H(i + 1)))
                 IN  H(1)

(* quotients [n, d], d > 0 *)
DQ(n, d) == IF d.s < 0 THEN [n |-> DNeg(n), d |-> DNeg(d)] ELSE [n |-> n, d |-> d]
DQCmp(x, y) == DCmp(DMul(x.n, y.d), DMul(y.n, x.d))
DQLt(x, y) == DQCmp(x, y) < 0
DQLe(x, y) == DQCmp(x, y) <= 0
DQEq(x, y) == DQCmp(x, y) = 0
DQSub(x, y) == [n |-> DSub(DMul(x.n, y.d), DMul(y.n, x.d)), d |-> DMul(x.d, y.d)]
(* |x - y| <= tol, tol a decimal *)
DQWithin(x, y, tol) == LET e == DQSub(x, y) IN DLe(DAbs(e.n), DMul(tol, e.d))

ASSUME DDec(-1, 3, <<9830, 3500>>) = [s |-> -1, m |-> <<3500, 9830, 3>>, f |-> 2]
ASSUME DEq(DAdd(DDec(1, 1, <<5000>>), DDec(-1, 0, <<2500>>)), DDec(1, 1, <<2500>>))
ASSUME DEq(DMul(DDec(1, 1, <<5000>>), DDec(-1, 2, <<>>)), DInt(-3))
ASSUME DEq(DSub(DHund(27315), DHund(27315)), DZero)
ASSUME DLt(DDec(-1, 0, <<1>>), DZero) /\ DLt(DZero, DDec(1, 0, <<0, 1>>))
ASSUME DEq(DFromQ(<<5963, 20>>), DHund(29815))
ASSUME DEq(DHorner(<<DInt(1), DInt(2), DInt(3)>>, DInt(2)), DInt(17))
ASSUME DQLt(DQ(DInt(1), DInt(3)), DQ(DInt(1), DInt(2))) /\ DQWithin(DQ(DInt(1), DInt(3)), DQ(DHund(33), DOne), DHund(1))
ASSUME DEq(DShift(DInt(5), -1), DMyriad(5)) /\ DEq(DShift(DMyriad(5), 1), DInt(5))
=============================================================================
