---------------------------- MODULE BigNat ----------------------------
(* Natural numbers beyond TLC's 32-bit integers: little-endian limb sequences in base 10^4.   *)
(* Used for masses (atomic weights carry 9 decimals) and other exact decimal arithmetic.       *)
(* Every intermediate stays below 2^31: limbs < 10^4, small multipliers < 2*10^5.              *)
EXTENDS Integers, Sequences

Base == 10000

RECURSIVE BCarry(_, _)
\* propagate carries through a sequence of non-negative "wide limbs"
BCarry(s, c) ==
    IF s = <<>> THEN (IF c = 0 THEN <<>> ELSE <<c % Base>> \o BCarry(<<>>, c \div Base))
    ELSE LET v == Head(s) + c IN <<v % Base>> \o BCarry(Tail(s), v \div Base)

RECURSIVE BTrim(_)
BTrim(s) == IF s # <<>> /\ s[Len(s)] = 0 THEN BTrim(SubSeq(s, 1, Len(s) - 1)) ELSE s

BFromInt(n) == BTrim(BCarry(<<n>>, 0))           \* n >= 0
Limb(a, i) == IF i <= Len(a) THEN a[i] ELSE 0
MaxLen(a, b) == IF Len(a) > Len(b) THEN Len(a) ELSE Len(b)
BAdd(a, b) == BTrim(BCarry([i \in 1..MaxLen(a, b) |-> Limb(a, i) + Limb(b, i)], 0))
BMulSmall(a, k) == BTrim(BCarry([i \in 1..Len(a) |-> a[i] * k], 0))   \* 0 <= k < 2*10^5
BShift(a, n) == IF a = <<>> THEN <<>> ELSE [i \in 1..n |-> 0] \o a      \* times Base^n

RECURSIVE BCmpFrom(_, _, _)
BCmpFrom(a, b, i) == IF i = 0 THEN 0
                     ELSE IF Limb(a, i) < Limb(b, i) THEN -1
                     ELSE IF Limb(a, i) > Limb(b, i) THEN 1
                     ELSE BCmpFrom(a, b, i - 1)
BCmp(a, b) == BCmpFrom(a, b, MaxLen(a, b))
BLe(a, b) == BCmp(a, b) <= 0

RECURSIVE BBorrow(_, _, _)
\* a - b for a >= b, limb-wise with borrow
BBorrow(a, b, br) ==
    IF a = <<>> THEN <<>>
    ELSE LET bi == IF b = <<>> THEN 0 ELSE Head(b)
             v  == Head(a) - bi - br
         IN  IF v < 0 THEN <<v + Base>> \o BBorrow(Tail(a), IF b = <<>> THEN <<>> ELSE Tail(b), 1)
             ELSE <<v>> \o BBorrow(Tail(a), IF b = <<>> THEN <<>> ELSE Tail(b), 0)
BSub(a, b) == BTrim(BBorrow(a, b, 0))
BAbsDiff(a, b) == IF BLe(b, a) THEN BSub(a, b) ELSE BSub(b, a)

RECURSIVE BMulAcc(_, _, _)
\* schoolbook product
BMulAcc(a, b, i) == IF i > Len(b) THEN <<>>
                    ELSE BAdd(BShift(BMulSmall(a, b[i]), i - 1), BMulAcc(a, b, i + 1))
BMul(a, b) == BMulAcc(a, b, 1)

\* small sanity facts (checked as ASSUME by TLC when the module is loaded)
ASSUME BFromInt(123456789) = <<6789, 2345, 1>>
ASSUME BAdd(<<9999, 9999>>, <<1>>) = <<0, 0, 1>>
ASSUME BMulSmall(<<6789, 2345, 1>>, 100000) = <<0, 7890, 3456, 12>>
ASSUME BSub(<<0, 0, 1>>, <<1>>) = <<9999, 9999>>
ASSUME BMul(<<2345, 1>>, <<6789>>) = <<205, 8381>>
ASSUME BMul(<<2345, 1>>, <<2345, 1>>) = BFromInt(152399025)
ASSUME BCmp(<<1, 2>>, <<2, 1>>) = 1
=============================================================================
