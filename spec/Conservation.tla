---------------------------- MODULE Conservation ----------------------------
(* Reaction systems over substances with compositions (properties C05, C06).                  *)
(*                                                                                            *)
(* A "program" is a reaction system: a sequence of substances, each with a composition over   *)
(* integer keys (key 0 = net charge, other keys = elements), and a sequence of reactions      *)
(* with integer stoichiometric coefficients and a mass-action rate constant.  The state       *)
(* machine builds such a system (AddSubstance, AddReaction), submits it (Build: accepted iff  *)
(* every reaction leaves every key unchanged), puts it in a concentration state (SetState)    *)
(* and moves it by explicit Euler steps (EulerStep(h), SafeStep).                             *)
(*                                                                                            *)
(*   C05  Accept / ViolatedKeys / BMatrix; B.N^T = 0 iff accepted; [][B.c' = B.c]_vars along  *)
(*        every Euler step with any rational h; analytic eliminations are linear forms in     *)
(*        the row space of B (FormOK).                                                        *)
(*   C06  UpperBound (least element total / atoms per molecule), MaxEulerStep (largest step   *)
(*        that keeps every concentration in [0, UpperBound], capped), the safe step stays in  *)
(*        the box; first-order networks (digraphs with k = 10^e) with their generator matrix, *)
(*        RHS polynomials and the reaction TEXT that is handed to the real parser.            *)
(*                                                                                            *)
(* Self-contained: mass-action rates are defined here (Kinetics.tla, C03/C04, is a different  *)
(* module owned elsewhere); exact arithmetic from Rational, integer rank from LinAlg.         *)
(* Vectors over substances are sequences indexed like subs.  Rationals are <<n, d>>, d > 0;   *)
(* Inf == <<1, 0>> stands for "no bound" and compares correctly under cross-multiplication.   *)
EXTENDS Integers, Sequences, FiniteSets, FiniteSetsExt, SequencesExt, TLC, Json, Rational

LA == INSTANCE LinAlg

CONSTANTS
    SubPool,      \* sequence of substance records [name, comp]; comp = sequence of <<key, count>>
    GenKind,      \* reaction generator: "multiset" | "network" | "none"
    MaxSide,      \* multiset generator: largest total coefficient on one side
    Orders,       \* multiset generator: allowed totals on the reactant side
    MaxViol,      \* multiset generator: systems of >= 2 reactions only use reactions violating <= MaxViol keys
    OnlyBalanced, \* generator offers balanced reactions only
    Inactive,     \* generator also offers every reaction with one spectator in parentheses (both sides / reactant side only)
    AllowReverse, \* generator may add the reverse of the first reaction as second reaction
    MaxRxns,
    KChoices(_),  \* rate constants offered for the reaction at position p
    Decades,      \* network generator: exponents e, k = 10^e
    States,       \* integer concentration vectors offered to SetState
    Steps,        \* rational step sizes offered to EulerStep
    MaxSteps,
    StepCap,      \* the advertised step is never larger than this (rational)
    EmitDyn,      \* Finish is offered in a concentration state (one case per system and state)
    MaxHist,      \* history generator: number of Query / Reorder operations on the built system
    MaxReorders,  \* history generator: number of Reorder operations among them
    NewKs,        \* history generator: rate constants a reaction's parameter may be reassigned to
    NameOrder,    \* the substance names of the pools in the order a name-sorting constructor form puts them
    BuildCfgs,    \* constructor configurations [name, checked]: whether the balance check is among the checks run
    IntegrCfgs,   \* integration configurations [name, solver, tol, c0form, tform, explicit] a case is to be run under
    OdeCfgs,      \* ODE-system configurations [name, dep, indep : rationals]: the internal variables of the system are
                  \* the concentrations times dep and the time times indep; nothing a caller sees depends on them
    UnitCfgs,     \* unit configurations a case is also to be run under (sequence of records, see UnitRec)
    Times,        \* output times handed to the integrator with each case (sequence of rationals)
    Tol           \* [atol, rtol : rationals requested from the integrator, guard : Nat, steprtol]: a result agrees
                  \* with the reference when |y - yref| <= guard * (atol + rtol * scale); the advertised step
                  \* agrees with MaxEulerStep when it is within the relative tolerance steprtol

VARIABLES subs, rxns, built, c, c0, nsteps, last, stage, hist
vars == <<subs, rxns, built, c, c0, nsteps, last, stage, hist>>

------------------------------------------------------------------------------
(* substances and compositions *)
NS == Len(subs)
SeqRange(s) == { s[i] : i \in 1..Len(s) }
Den(s) == IF "den" \in DOMAIN s THEN s.den ELSE 1
WellFormedSubst(s) ==
    /\ \A i \in 1..Len(s.comp) : s.comp[i][1] \in Int /\ s.comp[i][2] \in Int
    /\ \A i, j \in 1..Len(s.comp) : i # j => s.comp[i][1] # s.comp[j][1]
    /\ Den(s) \in Nat /\ Den(s) >= 1
CompGet(s, key) ==
    LET ps == { i \in 1..Len(s.comp) : s.comp[i][1] = key }
    IN  IF ps = {} THEN 0 ELSE s.comp[CHOOSE i \in ps : TRUE][2]
KeysOf(ss) == UNION { { ss[i].comp[j][1] : j \in 1..Len(ss[i].comp) } : i \in 1..Len(ss) }
KeySeq(ss) == SetToSortSeq(KeysOf(ss), <)
(* the composition matrix: rows = sorted keys (charge = 0 first), columns = substances *)
(* Composition counts may be fractional (FeO1.5, a hemihydrate): a substance record may carry *)
(* a denominator den, its counts are comp / den.  All exact algebra (balance, rank, row       *)
(* space, totals) is done on the integer matrix scaled by the common denominator of the       *)
(* system; what the library REPORTS (composition vectors, violations) is compared with the    *)
(* true rational values (BMatrixQ, ViolationQ).                                               *)
SysDen(ss) == LET RECURSIVE L(_)
                  L(i) == IF i = 0 THEN 1 ELSE LCM(Den(ss[i]), L(i - 1))
              IN  L(Len(ss))
CompS(ss, i, key) == CompGet(ss[i], key) * (SysDen(ss) \div Den(ss[i]))
BMatrix(ss) == LET ks == KeySeq(ss)
               IN  [r \in 1..Len(ks) |-> [j \in 1..Len(ss) |-> CompS(ss, j, ks[r])]]
BMatrixQ(ss) == LET ks == KeySeq(ss)
                IN  [r \in 1..Len(ks) |-> [j \in 1..Len(ss) |-> Norm(<<CompGet(ss[j], ks[r]), Den(ss[j])>>)]]

------------------------------------------------------------------------------
(* reactions: [reac, prod, ireac, iprod : vectors of naturals, k : rational] *)
Zeros(n) == [i \in 1..n |-> 0]
Unit(n, i, m) == [j \in 1..n |-> IF j = i THEN m ELSE 0]
VSum(v) == SumSeq(v)
IsRxn(r, n) ==
    /\ Len(r.reac) = n /\ Len(r.prod) = n /\ Len(r.ireac) = n /\ Len(r.iprod) = n
    /\ \A i \in 1..n : r.reac[i] \in Nat /\ r.prod[i] \in Nat /\ r.ireac[i] \in Nat /\ r.iprod[i] \in Nat
    /\ r.k[2] > 0
    \* a written reaction changes something (the library refuses to construct one that does not)
    /\ \E i \in 1..n : r.prod[i] + r.iprod[i] # r.reac[i] + r.ireac[i]
Net(r) == [i \in 1..Len(r.reac) |-> r.prod[i] - r.reac[i] + r.iprod[i] - r.ireac[i]]
NetMatrix(rs) == [i \in 1..Len(rs) |-> Net(rs[i])]
Order(r) == VSum(r.reac)
SameStoich(r1, r2) == r1.reac = r2.reac /\ r1.prod = r2.prod /\ r1.ireac = r2.ireac /\ r1.iprod = r2.iprod

(* Statement form of "leaves the key unchanged": what the product side carries minus what     *)
(* the reactant side carries (inactive species are part of the written reaction).             *)
Carried(ss, v, iv, key) == SumSeq([i \in 1..Len(ss) |-> (v[i] + iv[i]) * CompS(ss, i, key)])
Violation(ss, r, key) == Carried(ss, r.prod, r.iprod, key) - Carried(ss, r.reac, r.ireac, key)
ViolationQ(ss, r, key) == Norm(<<Violation(ss, r, key), SysDen(ss)>>)
ViolatedKeys(ss, r) == { key \in KeysOf(ss) : Violation(ss, r, key) # 0 }
Balanced(ss, r) == ViolatedKeys(ss, r) = {}
Accept(ss, rs) == \A i \in 1..Len(rs) : Balanced(ss, rs[i])
AllViolatedKeys(ss, rs) == UNION { ViolatedKeys(ss, rs[i]) : i \in 1..Len(rs) }

(* the system restricted to the substances that occur in some reaction (spectator substances  *)
(* that take part in nothing do not influence acceptance)                                     *)
Touches(r, i) == r.reac[i] + r.prod[i] + r.ireac[i] + r.iprod[i] > 0
UsedSeq(rs, n) == SelectSeq([i \in 1..n |-> i], LAMBDA i : \E j \in 1..Len(rs) : Touches(rs[j], i))
RestrictVec(v, us) == [m \in 1..Len(us) |-> v[us[m]]]
RedSubs(ss, us) == [m \in 1..Len(us) |-> ss[us[m]]]
RedRxns(rs, us) == [j \in 1..Len(rs) |->
    [reac |-> RestrictVec(rs[j].reac, us), prod |-> RestrictVec(rs[j].prod, us),
     ireac |-> RestrictVec(rs[j].ireac, us), iprod |-> RestrictVec(rs[j].iprod, us), k |-> rs[j].k]]

(* Matrix form: B . N^T, one column per reaction *)
BNt(ss, rs) == LET B == BMatrix(ss)
               IN  [r \in 1..Len(B) |-> [i \in 1..Len(rs) |-> LA!Dot(B[r], Net(rs[i]))]]
IsZeroMatrix(M) == \A r \in 1..Len(M) : \A j \in 1..Len(M[r]) : M[r][j] = 0
RankB(ss) == IF KeysOf(ss) = {} THEN 0 ELSE LA!Rank(BMatrix(ss))

------------------------------------------------------------------------------
(* mass-action kinetics at rational states *)
QSumOver(n, f(_)) == QSumSeq([i \in 1..n |-> f(i)])
QProdOver(n, f(_)) == QProdSeq([i \in 1..n |-> f(i)])
RateOf(r, cc) == QMul(r.k, QProdOver(Len(cc), LAMBDA i : QPow(cc[i], r.reac[i])))
F(rs, cc) == LET rates == [j \in 1..Len(rs) |-> RateOf(rs[j], cc)]
                 nets == [j \in 1..Len(rs) |-> Net(rs[j])]
             IN  [i \in 1..Len(cc) |-> QSumOver(Len(rs), LAMBDA j : QMul(Q(nets[j][i]), rates[j]))]
Euler(rs, cc, h) == LET f == F(rs, cc) IN [i \in 1..Len(cc) |-> QAdd(cc[i], QMul(h, f[i]))]
QVec(v) == [i \in 1..Len(v) |-> Q(v[i])]
BTimes(ss, v) == LET B == BMatrix(ss)
                 IN  [r \in 1..Len(B) |-> QSumOver(Len(v), LAMBDA j : QMul(Q(B[r][j]), v[j]))]
IsQZeroVec(v) == \A i \in 1..Len(v) : v[i][1] = 0

(* per-substance right-hand side as a polynomial: monomials [coef, exp] (exp = exponent vector) *)
RhsPoly(rs, n) == [i \in 1..n |->
    LET js == SelectSeq([j \in 1..Len(rs) |-> j], LAMBDA j : Net(rs[j])[i] # 0)
    IN  [m \in 1..Len(js) |-> [coef |-> QMul(Q(Net(rs[js[m]])[i]), rs[js[m]].k), exp |-> rs[js[m]].reac]]]

(* first-order systems: generator matrix G with dc/dt = G.c *)
FirstOrder(rs) == \A j \in 1..Len(rs) : Order(rs[j]) = 1
SourceOf(r) == CHOOSE i \in 1..Len(r.reac) : r.reac[i] = 1
GenMatrix(rs, n) == [a \in 1..n |-> [b \in 1..n |->
    QSumOver(Len(rs), LAMBDA j : IF SourceOf(rs[j]) = b THEN QMul(Q(Net(rs[j])[a]), rs[j].k) ELSE QZero)]]
QMatVec(G, v) == [a \in 1..Len(G) |-> QSumOver(Len(v), LAMBDA b : QMul(G[a][b], v[b]))]

------------------------------------------------------------------------------
(* bounds and the safe explicit-Euler step *)
Inf == <<1, 0>>
IsInf(q) == q[2] = 0
QMinSet(S) == CHOOSE a \in S : \A b \in S : QLe(a, b)
(* comparison of non-negative rationals without multiplication (Euclid on the continued       *)
(* fractions): step limits with rate constants over six decades overflow 32 bit otherwise     *)
RECURSIVE CmpPos(_, _, _, _)
CmpPos(n1, d1, n2, d2) ==
    LET q1 == n1 \div d1  q2 == n2 \div d2  r1 == n1 % d1  r2 == n2 % d2
    IN  IF q1 # q2 THEN (IF q1 < q2 THEN -1 ELSE 1)
        ELSE IF r1 = 0 /\ r2 = 0 THEN 0
        ELSE IF r1 = 0 THEN -1
        ELSE IF r2 = 0 THEN 1
        ELSE CmpPos(d2, r2, d1, r1)
QLeSafe(a, b) == IF a[1] < 0 \/ b[1] < 0 THEN QLe(a, b)
                 ELSE IF IsInf(b) THEN TRUE
                 ELSE IF IsInf(a) THEN FALSE
                 ELSE CmpPos(a[1], a[2], b[1], b[2]) <= 0
QMinSetSafe(S) == CHOOSE a \in S : \A b \in S : QLeSafe(a, b)
ElemKeys(s) == { s.comp[j][1] : j \in { i \in 1..Len(s.comp) : s.comp[i][1] # 0 /\ s.comp[i][2] > 0 } }
Total(ss, cc, key) == QSumOver(Len(cc), LAMBDA j : QMul(Q(CompS(ss, j, key)), cc[j]))
(* a molecule holding a atoms of an element cannot be more concentrated than total/a; the     *)
(* least such quotient over its elements; charge is not a supply; no element = no bound       *)
(* the caller may ask to leave further keys out of consideration (skip): they bound nothing   *)
UpperBoundSkip(ss, i, cc, skip) ==
    LET ks == ElemKeys(ss[i]) \ skip
    IN  IF ks = {} THEN Inf
        ELSE QMinSet({ QDiv(Total(ss, cc, key), Q(CompS(ss, i, key))) : key \in ks })
UpperBound(ss, i, cc) == UpperBoundSkip(ss, i, cc, {})
BoundsSkip(ss, cc, skip) == [i \in 1..Len(cc) |-> UpperBoundSkip(ss, i, cc, skip)]
Bounds(ss, cc) == BoundsSkip(ss, cc, {})
(* leaving keys out can only relax a bound *)
SkipRelaxes(ss, cc, skip) == \A i \in 1..Len(cc) : QLe(UpperBound(ss, i, cc), UpperBoundSkip(ss, i, cc, skip))
InBox(v, ub) == \A i \in 1..Len(v) : v[i][1] >= 0 /\ QLe(v[i], ub[i])
(* largest h with c_i + h f_i inside [0, ub_i], per component *)
StepLimit(f, cc, ub, i) ==
    IF f[i][1] = 0 THEN Inf
    ELSE IF f[i][1] > 0 THEN (IF IsInf(ub[i]) THEN Inf ELSE QDiv(QSub(ub[i], cc[i]), f[i]))
    ELSE QDiv(cc[i], QNeg(f[i]))
MaxEulerStep(ss, rs, cc) ==
    LET f == F(rs, cc)  ub == Bounds(ss, cc)
    IN  QMinSetSafe({ StepLimit(f, cc, ub, i) : i \in 1..Len(cc) } \cup {StepCap})

------------------------------------------------------------------------------
(* analytic elimination of a concentration from the invariants (C05, last clause):            *)
(* an offered expression  c_e = SUM a_j c_j + SUM b_j y0_j + const  is the linear form        *)
(* u.c = w.y0 + const with u = e_e - a, w = b.  It is a consequence of B.c = B.y0 for all     *)
(* c, y0  iff  const = 0, u = w and u lies in the row space of B.                             *)
ScaleToInt(u) ==
    LET RECURSIVE L(_)
        L(i) == IF i = 0 THEN 1 ELSE LCM(u[i][2], L(i - 1))
        t == L(Len(u))
    IN  [i \in 1..Len(u) |-> u[i][1] * (t \div u[i][2])]
InRowSpace(ss, u) ==
    IF \A i \in 1..Len(u) : u[i][1] = 0 THEN TRUE
    ELSE IF KeysOf(ss) = {} THEN FALSE
    ELSE LA!Rank(Append(BMatrix(ss), ScaleToInt(u))) = LA!Rank(BMatrix(ss))
FormOK(ss, e, u, w, const) ==
    /\ const[1] = 0
    /\ [i \in 1..Len(u) |-> Norm(u[i])] = [i \in 1..Len(w) |-> Norm(w[i])]
    /\ Norm(u[e]) = QOne
    /\ InRowSpace(ss, u)
(* a complete elimination (one concentration per independent invariant) reproduces all of B *)
FormsComplete(ss, us) ==
    Len(us) = RankB(ss) /\ (Len(us) > 0 => LA!Rank([i \in 1..Len(us) |-> ScaleToInt(us[i])]) = Len(us))

(* the same elimination offered at a numeric initial state y0: c_e = SUM a_j c_j + const,    *)
(* a consequence of B.c = B.y0 iff u is in the row space of B and const = u.y0                *)
FormOKAt(ss, e, u, const, y0) ==
    /\ Norm(u[e]) = QOne
    /\ InRowSpace(ss, u)
    /\ Norm(const) = QSumOver(Len(u), LAMBDA j : QMul(u[j], Q(y0[j])))

(* A system knows its substances by the KEYS of the mapping it was given (name in this       *)
(* module); the Substance objects' own names are labels without meaning for balance.  A case  *)
(* offers keys that differ from every label: the same system must result under them.          *)
AliasOf(i) == "s" \o ToString(i) \o "x"
(* Composition keys need not be integers: any labels that sort like the keys do (the README   *)
(* counts eggs and cups of milk).  A case offers a label for each key, in the same order.     *)
KeyLabel(k) == "k" \o (IF k < 10 THEN "00" ELSE IF k < 100 THEN "0" ELSE "") \o ToString(k)

(* a constructor form that sorts the substances by name puts them in the order of NameOrder  *)
NameRank(n) == CHOOSE i \in 1..Len(NameOrder) : NameOrder[i] = n
Sortable(ss) == \A i \in 1..Len(ss) : \E j \in 1..Len(NameOrder) : NameOrder[j] = ss[i].name
SortPerm(ss) == IF ~Sortable(ss) THEN <<>>
                ELSE SortSeq([i \in 1..Len(ss) |-> i], LAMBDA a, b : NameRank(ss[a].name) < NameRank(ss[b].name))

------------------------------------------------------------------------------
Init ==
    /\ subs = <<>> /\ rxns = <<>> /\ built = "none" /\ c = <<>> /\ c0 = <<>>
    /\ nsteps = 0 /\ last = "none" /\ stage = "subst" /\ hist = <<>>

AddSubstance(s) ==
    /\ stage = "subst" /\ WellFormedSubst(s)
    /\ \A i \in 1..NS : subs[i].name # s.name
    /\ subs' = Append(subs, s)
    /\ UNCHANGED <<rxns, built, c, c0, nsteps, last, stage, hist>>

AddReaction(r) ==
    /\ stage \in {"subst", "rxn"} /\ NS >= 1 /\ IsRxn(r, NS)
    /\ rxns' = Append(rxns, r) /\ stage' = "rxn"
    /\ UNCHANGED <<subs, built, c, c0, nsteps, last, hist>>

(* submitting the system: accepted iff every reaction is balanced in every key *)
Build ==
    /\ stage = "rxn"
    /\ built' = IF Accept(subs, rxns) THEN "accepted" ELSE "rejected"
    /\ stage' = IF Accept(subs, rxns) THEN "built" ELSE "done"
    /\ UNCHANGED <<subs, rxns, c, c0, nsteps, last, hist>>

(* construction with the balance check switched off (dont_check / checks without "balance"):  *)
(* anything is constructed; whether the system is balanced can then be asked (CheckBalance)   *)
BuildUnchecked ==
    /\ stage = "rxn"
    /\ built' = "unchecked" /\ stage' = "built"
    /\ UNCHANGED <<subs, rxns, c, c0, nsteps, last, hist>>

SetState(cc) ==
    /\ stage \in {"built", "dyn"} /\ Len(cc) = NS /\ \A i \in 1..NS : cc[i] \in Nat
    /\ c' = QVec(cc) /\ c0' = QVec(cc) /\ nsteps' = 0 /\ last' = "set" /\ stage' = "dyn"
    /\ UNCHANGED <<subs, rxns, built, hist>>

EulerStep(h) ==
    /\ stage = "dyn" /\ h[2] > 0
    /\ c' = Euler(rxns, c, h) /\ nsteps' = nsteps + 1 /\ last' = "euler"
    /\ UNCHANGED <<subs, rxns, built, c0, stage, hist>>

(* the advertised safe step, taken from the state that was set *)
SafeStep ==
    /\ stage = "dyn" /\ last = "set"
    /\ c' = Euler(rxns, c, MaxEulerStep(subs, rxns, c)) /\ nsteps' = nsteps + 1 /\ last' = "safe"
    /\ UNCHANGED <<subs, rxns, built, c0, stage, hist>>

Finish ==
    /\ stage \in {"built", "dyn"} /\ stage' = "done"
    /\ UNCHANGED <<subs, rxns, built, c, c0, nsteps, last, hist>>

(* History of one system object: it may be asked for its composition vectors (directly: "B", *)
(* or by building an ODE system from it: "odesys") any number of times, and its substances    *)
(* may be put into another order in between.  A query changes nothing; after Reorder(p) the   *)
(* substance at position m is the one that was at position p[m], every vector over the        *)
(* substances follows, and so must every later answer (the columns of B in particular).       *)
IsPerm(p, n) == Len(p) = n /\ { p[i] : i \in 1..Len(p) } = 1..n
PermVec(v, p) == [m \in 1..Len(p) |-> v[p[m]]]
PermRxn(r, p) == [reac |-> PermVec(r.reac, p), prod |-> PermVec(r.prod, p),
                  ireac |-> PermVec(r.ireac, p), iprod |-> PermVec(r.iprod, p), k |-> r.k]
Query(kind) ==
    /\ stage \in {"built", "dyn"} /\ kind \in {"B", "odesys"}
    /\ hist' = Append(hist, [op |-> "query", kind |-> kind, p |-> <<>>, k |-> QZero])
    /\ UNCHANGED <<subs, rxns, built, c, c0, nsteps, last, stage>>
Reorder(p) ==
    /\ stage \in {"built", "dyn"} /\ IsPerm(p, NS)
    /\ subs' = PermVec(subs, p)
    /\ rxns' = [j \in 1..Len(rxns) |-> PermRxn(rxns[j], p)]
    /\ c' = IF c = <<>> THEN c ELSE PermVec(c, p)
    /\ c0' = IF c0 = <<>> THEN c0 ELSE PermVec(c0, p)
    /\ hist' = Append(hist, [op |-> "reorder", kind |-> "", p |-> p, k |-> QZero])
    /\ UNCHANGED <<built, nsteps, last, stage>>

(* The rate constant of reaction j of the SAME system object is reassigned; whatever is asked *)
(* of the object afterwards (rates, ODE system, integration, safe step) follows the new       *)
(* constant.  The history keeps the constant that was replaced.                               *)
SetParam(j, k) ==
    /\ stage \in {"built", "dyn"} /\ j \in 1..Len(rxns) /\ k[2] > 0 /\ k[1] > 0 /\ Norm(k) # Norm(rxns[j].k)
    /\ rxns' = [rxns EXCEPT ![j].k = k]
    /\ hist' = Append(hist, [op |-> "setparam", kind |-> "", p |-> <<j>>, k |-> rxns[j].k])
    /\ UNCHANGED <<subs, built, c, c0, nsteps, last, stage>>

(* the system as it was constructed, i.e. before the reorderings / reassignments of the history *)
HasSetParam == \E i \in 1..Len(hist) : hist[i].op = "setparam"
FirstK(j) == LET is == { i \in 1..Len(hist) : hist[i].op = "setparam" /\ hist[i].p = <<j>> }
             IN  IF is = {} THEN rxns[j].k ELSE hist[CHOOSE i \in is : \A l \in is : i <= l].k
InvPerm(p) == [i \in 1..Len(p) |-> CHOOSE m \in 1..Len(p) : p[m] = i]
RECURSIVE UndoFrom(_, _)
UndoFrom(v, i) == IF i = 0 THEN v
                  ELSE UndoFrom(IF hist[i].op = "reorder" THEN PermVec(v, InvPerm(hist[i].p)) ELSE v, i - 1)
Undo(v) == UndoFrom(v, Len(hist))
Subs0 == Undo(subs)
Rxns0 == [j \in 1..Len(rxns) |-> [reac |-> Undo(rxns[j].reac), prod |-> Undo(rxns[j].prod),
                                    ireac |-> Undo(rxns[j].ireac), iprod |-> Undo(rxns[j].iprod), k |-> FirstK(j)]]

------------------------------------------------------------------------------
(* generators (model checking / case generation) *)
NP == Len(SubPool)
Sides == { v \in [1..NP -> 0..MaxSide] : VSum(v) \in 1..MaxSide }
Plain(a, b) == [reac |-> a, prod |-> b, ireac |-> Zeros(NP), iprod |-> Zeros(NP)]
PlainRxns == { Plain(a, b) : a \in { v \in Sides : VSum(v) \in Orders }, b \in Sides } \ { Plain(a, a) : a \in Sides }
(* a spectator written in parentheses: on both sides (balanced decoration), on the reactant   *)
(* side only, or on the product side only (the last two unbalance exactly the keys of the     *)
(* spectator, unless the plain reaction was unbalanced by just that much)                     *)
Decorated == IF ~Inactive THEN {}
             ELSE { [r EXCEPT !.ireac = Unit(NP, i, ab[1]), !.iprod = Unit(NP, i, ab[2])] :
                        r \in PlainRxns, i \in 1..NP, ab \in {<<1, 0>>, <<0, 1>>, <<1, 1>>} }
StoichPool == { r \in PlainRxns \cup Decorated : ~OnlyBalanced \/ Balanced(SubPool, r) }
NViol(r) == Cardinality(ViolatedKeys(SubPool, r))
WithK(r, k) == [reac |-> r.reac, prod |-> r.prod, ireac |-> r.ireac, iprod |-> r.iprod, k |-> k]
Pow10Q(e) == IF e >= 0 THEN <<IPow(10, e), 1>> ELSE <<1, IPow(10, -e)>>

NReorders == Cardinality({ i \in 1..Len(hist) : hist[i].op = "reorder" })
LastOp == IF hist = <<>> THEN "none" ELSE hist[Len(hist)].op
Perms(n) == { p \in [1..n -> 1..n] : IsPerm(p, n) /\ p # [i \in 1..n |-> i] }
GenSubstance == NS < NP /\ AddSubstance(SubPool[NS + 1])

PairPool == { r \in StoichPool : NViol(r) <= MaxViol }
GenReaction ==
    /\ GenKind = "multiset" /\ NS = NP /\ Len(rxns) < MaxRxns
    /\ (Len(rxns) >= 1 => NViol(rxns[1]) <= MaxViol)
    /\ \E r \in (IF Len(rxns) = 0 THEN StoichPool ELSE PairPool), k \in KChoices(Len(rxns) + 1) :
          /\ \A i \in 1..Len(rxns) : ~SameStoich(rxns[i], r)
          /\ AddReaction(WithK(r, k))

(* the reverse step of a written reaction: sides exchanged, spectators in parentheses included *)
Reversed(r) == [reac |-> r.prod, prod |-> r.reac, ireac |-> r.iprod, iprod |-> r.ireac]
GenReverse ==
    /\ GenKind = "multiset" /\ AllowReverse /\ Len(rxns) = 1 /\ NViol(rxns[1]) <= MaxViol
    /\ \E k \in KChoices(2) : AddReaction(WithK(Reversed(rxns[1]), k))

(* first-order networks: an edge i -> j turns one i into m molecules of j, where the          *)
(* composition of i is m times the composition of j (m = 1: isomerisation).  Edges are added  *)
(* in increasing rank so that every edge set is generated once.                               *)
Multiple(i, j) ==
    LET ks == KeysOf(SubPool)
        ms == { m \in 1..4 : \A key \in ks : CompGet(SubPool[i], key) = m * CompGet(SubPool[j], key) }
    IN  IF ms = {} THEN 0 ELSE CHOOSE m \in ms : TRUE
EdgeRank(i, j) == (i - 1) * NP + j
EdgeRxn(i, j, k) == WithK(Plain(Unit(NP, i, 1), Unit(NP, j, Multiple(i, j))), k)
TargetOf(r) == CHOOSE j \in 1..Len(r.prod) : r.prod[j] > 0
LastRank == IF rxns = <<>> THEN 0 ELSE EdgeRank(SourceOf(rxns[Len(rxns)]), TargetOf(rxns[Len(rxns)]))
GenEdge ==
    /\ GenKind = "network" /\ NS = NP /\ Len(rxns) < MaxRxns
    /\ \E i, j \in 1..NP, e \in Decades :
          /\ i # j /\ Multiple(i, j) > 0 /\ EdgeRank(i, j) > LastRank
          /\ AddReaction(EdgeRxn(i, j, Pow10Q(e)))

GenSetState == stage = "built" /\ built = "accepted" /\ hist = <<>> /\ \E cc \in States : SetState(cc)
GenEulerStep == nsteps < MaxSteps /\ last # "safe" /\ \E h \in Steps : EulerStep(h)
GenSafeStep == MaxSteps > 0 /\ nsteps = 0 /\ SafeStep
GenFinish == /\ (MaxHist > 0 => LastOp = "query")
             /\ \/ stage = "built" /\ (~EmitDyn \/ States = {})
                \/ stage = "dyn" /\ EmitDyn /\ nsteps = 0
             /\ Finish

GenQuery == /\ stage = "built" /\ Len(hist) < MaxHist /\ LastOp # "query"
            /\ \E kind \in {"B", "odesys"} : Query(kind)
GenReorder == /\ stage = "built" /\ Len(hist) + 1 < MaxHist /\ NReorders < MaxReorders /\ LastOp # "reorder"
              /\ \E p \in Perms(NS) : Reorder(p)

GenSetParam == /\ stage = "dyn" /\ nsteps = 0 /\ last = "set" /\ hist = <<>>
               /\ \E j \in 1..Len(rxns), k \in NewKs : SetParam(j, k)

Next == \/ GenQuery \/ GenReorder \/ GenSetParam
        \/ GenSubstance \/ GenReaction \/ GenReverse \/ GenEdge \/ Build
        \/ GenSetState \/ GenEulerStep \/ GenSafeStep \/ GenFinish

Spec == Init /\ [][Next]_vars

------------------------------------------------------------------------------
(* invariants and the action property *)
Accepted == built = "accepted"
InDyn == stage = "dyn"

TypeOK ==
    /\ stage \in {"subst", "rxn", "built", "dyn", "done"}
    /\ built \in {"none", "accepted", "rejected", "unchecked"}
    /\ last \in {"none", "set", "euler", "safe"}
    /\ \A i \in 1..Len(rxns) : IsRxn(rxns[i], NS)

(* the two formulations of "balanced" agree: per reaction and key (Violation) / B.N^T = 0 *)
AcceptIffBNtZero ==
    (built # "none" /\ KeysOf(subs) # {}) => (Accepted <=> IsZeroMatrix(BNt(subs, rxns)))
ViolationIsBNt ==
    (built # "none" /\ KeysOf(subs) # {}) =>
        LET ks == KeySeq(subs)  M == BNt(subs, rxns)
        IN  \A r \in 1..Len(ks) : \A i \in 1..Len(rxns) : M[r][i] = Violation(subs, rxns[i], ks[r])
ReductionKeepsAcceptance ==
    built # "none" => LET us == UsedSeq(rxns, NS)
                      IN  Accepted <=> Accept(RedSubs(subs, us), RedRxns(rxns, us))
(* a history of queries and reorderings leaves the system what it was: undoing the           *)
(* reorderings gives back the constructed substances, and the composition matrix of the       *)
(* current order is the matrix of the constructed order with its columns permuted alike       *)
HistoryKeepsSystem ==
    (built = "accepted" /\ hist # <<>>) =>
        /\ { subs[i] : i \in 1..NS } = { Subs0[i] : i \in 1..NS }
        /\ KeySeq(subs) = KeySeq(Subs0)
        /\ \A i, j \in 1..NS : subs[i] = Subs0[j] =>
               \A r \in 1..Len(KeySeq(subs)) : BMatrix(subs)[r][i] = BMatrix(Subs0)[r][j]
RejectedNamesAKey == built = "rejected" => AllViolatedKeys(subs, rxns) # {}

(* composition vectors are invariants of the kinetic right-hand side at every state visited *)
RatesConserve == (InDyn /\ Accepted /\ last # "safe") => IsQZeroVec(BTimes(subs, F(rxns, c)))
(* ... and along every Euler step, for any rational h, also when the step leaves the box *)
ConservationAction ==
    [][(stage = "dyn" /\ stage' = "dyn" /\ c0' = c0 /\ nsteps' = nsteps + 1) => BTimes(subs, c') = BTimes(subs, c)]_vars
TotalsKept == InDyn => BTimes(subs, c) = BTimes(subs, c0)

(* the design of the safe step: it keeps every concentration inside [0, UpperBound] *)
BoundsAfterSafeStep == (InDyn /\ last = "safe") => InBox(c, Bounds(subs, c0))
InitialStateInBox == (InDyn /\ last = "set") => InBox(c, Bounds(subs, c0))
(* ... and it is maximal: either the cap, or some concentration sits on a face of the box *)
SafeStepIsMaximal ==
    (InDyn /\ last = "safe") =>
        LET ub == Bounds(subs, c0)  h == MaxEulerStep(subs, rxns, c0)
        IN  \/ h = StepCap
            \/ \E i \in 1..NS : F(rxns, c0)[i][1] # 0 /\ (c[i][1] = 0 \/ (~IsInf(ub[i]) /\ Norm(c[i]) = Norm(ub[i])))
SafeStepPositive ==
    (InDyn /\ last = "set" /\ c # <<>>) => MaxEulerStep(subs, rxns, c)[1] >= 0
(* no non-negative state with the same element totals exceeds the bound (grid) *)
ElemRows(ss) == { r \in 1..Len(KeySeq(ss)) : KeySeq(ss)[r] # 0 }
BoundDominatesGrid ==
    (InDyn /\ last = "set") =>
        LET B == BMatrix(subs)
            ub == Bounds(subs, c0)
            rows == ElemRows(subs)
            ci == [i \in 1..NS |-> c0[i][1]]       \* a state that was set is integral
            tot == [r \in 1..Len(B) |-> LA!Dot(B[r], ci)]
        IN  \A x \in States :
                (\A r \in rows : LA!Dot(B[r], x) = tot[r]) => \A i \in 1..NS : QLe(Q(x[i]), ub[i])
(* leaving further keys out of a bounds query never tightens a bound *)
SkipKeysRelax ==
    (InDyn /\ last = "set") =>
        \A k \in KeysOf(subs) : SkipRelaxes(subs, c0, {k})
(* first-order systems: the generator matrix is the right-hand side *)
GeneratorIsRhs ==
    (InDyn /\ last = "set" /\ FirstOrder(rxns)) => QMatVec(GenMatrix(rxns, NS), c) = F(rxns, c)

------------------------------------------------------------------------------
(* reaction text in the notation the library reads: "2 A + B -> C + (D); k" *)
TermText(n, name) == (IF n = 1 THEN "" ELSE ToString(n) \o " ") \o name
RECURSIVE JoinPlus(_)
JoinPlus(ts) == IF ts = <<>> THEN "" ELSE IF Len(ts) = 1 THEN ts[1] ELSE ts[1] \o " + " \o JoinPlus(Tail(ts))
SideTerms(ss, v, iv) ==
    LET act == SelectSeq([i \in 1..Len(ss) |-> i], LAMBDA i : v[i] > 0)
        ina == SelectSeq([i \in 1..Len(ss) |-> i], LAMBDA i : iv[i] > 0)
    IN  [m \in 1..Len(act) |-> TermText(v[act[m]], ss[act[m]].name)] \o
        [m \in 1..Len(ina) |-> "(" \o TermText(iv[ina[m]], ss[ina[m]].name) \o ")"]
KText(k) == IF k[2] = 1 THEN ToString(k[1])
            ELSE IF k[1] = 1 /\ k[2] \in {10, 100, 1000, 10000} THEN
                 (CASE k[2] = 10 -> "1e-1" [] k[2] = 100 -> "1e-2" [] k[2] = 1000 -> "1e-3" [] OTHER -> "1e-4")
            ELSE ToString(k[1]) \o "/" \o ToString(k[2])
RxnText(ss, r) == JoinPlus(SideTerms(ss, r.reac, r.ireac)) \o " -> " \o JoinPlus(SideTerms(ss, r.prod, r.iprod))
                  \o "; " \o KText(r.k)
SysLines(ss, rs) == [i \in 1..Len(rs) |-> RxnText(ss, rs[i])]

------------------------------------------------------------------------------
(* case export *)
Done == stage = "done"
MinViolKey(r) == LET vs == ViolatedKeys(subs, r) IN IF vs = {} THEN -1 ELSE CHOOSE x \in vs : \A y \in vs : x <= y
ViolSeq(r) == SetToSortSeq(ViolatedKeys(subs, r), <)
UnbalancedIdx == { i \in 1..Len(rxns) : ~Balanced(subs, rxns[i]) }
HasInactive == \E i \in 1..Len(rxns) : VSum(rxns[i].ireac) + VSum(rxns[i].iprod) > 0
(* a substance that a reaction only produces in parentheses; a substance on both sides of a reaction *)
HasInactProdOnly == \E i \in 1..Len(rxns) : \E j \in 1..NS :
                        rxns[i].iprod[j] > 0 /\ rxns[i].reac[j] + rxns[i].prod[j] + rxns[i].ireac[j] = 0
HasBothSides == \E i \in 1..Len(rxns) : \E j \in 1..NS : rxns[i].reac[j] > 0 /\ rxns[i].prod[j] > 0
TouchesEmpty == \E i \in 1..Len(rxns) : \E j \in 1..NS : Touches(rxns[i], j) /\ subs[j].comp = <<>>
OutDeg(i) == Cardinality({ j \in 1..Len(rxns) : SourceOf(rxns[j]) = i })
HasEdge(i, j) == \E m \in 1..Len(rxns) : SourceOf(rxns[m]) = i /\ TargetOf(rxns[m]) = j
KSpread == LET ks == { rxns[j].k : j \in 1..Len(rxns) }
               hi == CHOOSE a \in ks : \A b \in ks : QLe(b, a)
               lo == CHOOSE a \in ks : \A b \in ks : QLe(a, b)
           IN  QDiv(hi, lo)
Class ==
    IF built = "rejected" THEN
        "rej-n" \o ToString(Len(rxns))
        \o (IF 1 \in UnbalancedIdx THEN "-first" ELSE "")
        \o (IF Len(rxns) > 1 /\ Len(rxns) \in UnbalancedIdx THEN "-last" ELSE "")
        \o "-k" \o ToString(MinViolKey(rxns[CHOOSE i \in UnbalancedIdx : \A j \in UnbalancedIdx : i <= j]))
        \o (IF Cardinality(AllViolatedKeys(subs, rxns)) = 1 THEN "-single" ELSE "-multi")
        \o (IF HasInactive THEN "-inact" ELSE "")
        \o (IF TouchesEmpty THEN "-empty" ELSE "")
    ELSE IF GenKind = "network" THEN
        "net-n" \o ToString(Len(rxns))
        \o (IF \E i \in 1..NS : OutDeg(i) >= 2 THEN "-branch" ELSE "")
        \o (IF \E i, j \in 1..NS : i # j /\ HasEdge(i, j) /\ HasEdge(j, i) THEN "-rev" ELSE "")
        \o (IF \E m \in 1..Len(rxns) : VSum(rxns[m].prod) > 1 THEN "-frag" ELSE "")
        \o (IF QLe(<<10000, 1>>, KSpread) THEN "-stiff" ELSE "")
    ELSE
        "acc-n" \o ToString(Len(rxns))
        \o (IF \E i \in 1..Len(rxns) : Order(rxns[i]) >= 2 THEN "-bi" ELSE "")
        \o (IF HasInactive THEN "-inact" ELSE "")
        \o (IF HasInactProdOnly THEN "-iprod" ELSE "")
        \o (IF HasBothSides THEN "-cat" ELSE "")
        \o (IF TouchesEmpty THEN "-empty" ELSE "")
        \o (IF c0 # <<>> THEN "-state" ELSE "")

(* the natural concentration scale of a state: the largest finite bound (1 if there is none) *)
QMaxSet(S) == CHOOSE a \in S : \A b \in S : QLe(b, a)
Scale(ss, cc) == LET fin == { b \in SeqRange(Bounds(ss, cc)) : ~IsInf(b) /\ b[1] > 0 }
                 IN  IF fin = {} THEN QOne ELSE QMaxSet(fin)
(* Unit configurations (C06: "from text input through to the result arrays").  The plain run *)
(* of a case is dimensionless; it is read as time in seconds and concentration in molar.      *)
(* A unit configuration [name, tout, cout, tin, cin, kt, kc] (unit names) asks for the same   *)
(* system with rate constants written with units in the reaction text (per kt, per kc), the   *)
(* initial state given in cin, the output times given in tin, and results requested in tout   *)
(* and cout.  The tables hold the exact size of each unit; the result arrays, multiplied by   *)
(* the size of the unit they are labelled with, must be the plain result.                     *)
TimeUnitNames == <<"second", "minute", "hour", "millisecond">>
TimeUnitSecs == <<<<1, 1>>, <<60, 1>>, <<3600, 1>>, <<1, 1000>>>>
ConcUnitNames == <<"molar", "millimolar", "micromolar">>
ConcUnitMolar == <<<<1, 1>>, <<1, 1000>>, <<1, 1000000>>>>
Lookup(names, vals, n) == vals[CHOOSE i \in 1..Len(names) : names[i] = n]
TimeFac(n) == Lookup(TimeUnitNames, TimeUnitSecs, n)
ConcFac(n) == Lookup(ConcUnitNames, ConcUnitMolar, n)
RECURSIVE Repeat(_, _)
Repeat(t, n) == IF n <= 0 THEN "" ELSE t \o Repeat(t, n - 1)
(* a rate constant k [molar^(1-n)/second] of a reaction of order n, written per kc and per kt *)
KInUnits(k, n, u) == QMul(k, QMul(TimeFac(u.kt), QPow(ConcFac(u.kc), n - 1)))
QText(q) == IF q[2] = 1 THEN ToString(q[1]) ELSE ToString(q[1]) \o "/" \o ToString(q[2])
UnitRxnText(ss, r, u) ==
    JoinPlus(SideTerms(ss, r.reac, r.ireac)) \o " -> " \o JoinPlus(SideTerms(ss, r.prod, r.iprod))
    \o "; " \o QText(KInUnits(r.k, Order(r), u)) \o Repeat("/" \o u.kc, Order(r) - 1) \o "/" \o u.kt
UnitRec(ss, rs, cc, u) ==
    [ name |-> u.name, tout |-> u.tout, cout |-> u.cout, tin |-> u.tin, cin |-> u.cin,
      lines |-> [j \in 1..Len(rs) |-> UnitRxnText(ss, rs[j], u)],
      tvals |-> [i \in 1..Len(Times) |-> QDiv(Times[i], TimeFac(u.tin))],
      cvals |-> [i \in 1..Len(cc) |-> QDiv(cc[i], ConcFac(u.cin))],
      timeunits |-> [i \in 1..Len(TimeUnitNames) |-> <<TimeUnitNames[i], TimeUnitSecs[i]>>],
      concunits |-> [i \in 1..Len(ConcUnitNames) |-> <<ConcUnitNames[i], ConcUnitMolar[i]>>] ]
(* writing a constant in units and reading it back is the identity *)
UnitTextRoundTrip ==
    \A j \in 1..Len(rxns) : \A i \in 1..Len(UnitCfgs) :
        LET u == UnitCfgs[i]  n == Order(rxns[j])
        IN  QDiv(KInUnits(rxns[j].k, n, u), QMul(TimeFac(u.kt), QPow(ConcFac(u.kc), n - 1))) = Norm(rxns[j].k)

(* Observations of the dynamics are made on the system restricted to its used substances     *)
(* (the ODE builder of the library needs every substance to take part in a reaction).         *)
(* the keys a bounds query is also made without: charge and the heaviest element *)
SkipSeq(ss) == LET es == KeysOf(ss) \ {0}
               IN  IF es = {} THEN <<0>> ELSE <<0, CHOOSE k \in es : \A l \in es : l <= k>>
(* integration configurations that apply: an explicit solver only where the fastest pseudo    *)
(* first-order rate times the last output time stays within its step budget                   *)
PseudoRate(r, sc) == QMul(r.k, QPow(sc, Order(r) - 1))
ExplicitOK(rs, sc) == \A j \in 1..Len(rs) :
                          QLe(QMul(PseudoRate(rs[j], sc), Times[Len(Times)]), <<2000, 1>>)
ApplicableCfgs(rs, sc) == SelectSeq(IntegrCfgs, LAMBDA g : ~g.explicit \/ ExplicitOK(rs, sc))
DynRec(ss, rs, cc) ==
    IF cc = <<>> THEN [has |-> FALSE]
    ELSE LET f == F(rs, cc)
             ub == Bounds(ss, cc)
             fin == { b \in SeqRange(ub) : ~IsInf(b) /\ b[1] > 0 }
             h == QMinSetSafe({ StepLimit(f, cc, ub, i) : i \in 1..Len(cc) } \cup {StepCap})
         IN  [ has |-> TRUE, c0 |-> [i \in 1..Len(cc) |-> cc[i][1]], f |-> f, totals |-> BTimes(ss, cc),
               ub |-> ub, skip |-> SkipSeq(ss), ubskip |-> BoundsSkip(ss, cc, SeqRange(SkipSeq(ss))),
               scale |-> IF fin = {} THEN QOne ELSE QMaxSet(fin), h |-> h,
               after |-> [i \in 1..Len(cc) |-> QAdd(cc[i], QMul(h, f[i]))],
               icfgs |-> ApplicableCfgs(rs, IF fin = {} THEN QOne ELSE QMaxSet(fin)) ]
RedRec ==
    LET us == UsedSeq(rxns, NS)
        ss == RedSubs(subs, us)
        rs == RedRxns(rxns, us)
        cc == IF c0 = <<>> THEN <<>> ELSE RestrictVec(c0, us)
    IN  [ subs |-> ss, rxns |-> rs, keys |-> KeySeq(ss), B |-> BMatrix(ss), Bq |-> BMatrixQ(ss), sortperm |-> SortPerm(ss), poly |-> RhsPoly(rs, Len(ss)),
          G |-> IF FirstOrder(rs) THEN GenMatrix(rs, Len(ss)) ELSE <<>>,
          dyn |-> DynRec(ss, rs, cc),
          prev |-> IF ~HasSetParam \/ cc = <<>> THEN [has |-> FALSE]
                   ELSE LET rs0 == RedRxns(Rxns0, us)
                        IN  [ has |-> TRUE, rxns |-> rs0, poly |-> RhsPoly(rs0, Len(ss)),
                              G |-> IF FirstOrder(rs0) THEN GenMatrix(rs0, Len(ss)) ELSE <<>>,
                              dyn |-> DynRec(ss, rs0, cc),
                              changed |-> [i \in 1..Len(hist) |-> [j |-> hist[i].p[1], k |-> rs[hist[i].p[1]].k]] ],
          units |-> IF cc = <<>> THEN <<>> ELSE [i \in 1..Len(UnitCfgs) |-> UnitRec(ss, rs, cc, UnitCfgs[i])] ]
CaseRec ==
    [ in  |-> [ subs |-> Subs0, rxns |-> Rxns0, lines |-> SysLines(Subs0, Rxns0), hist |-> hist,
                c0 |-> IF c0 = <<>> THEN <<>> ELSE [i \in 1..NS |-> c0[i][1]],
                tout |-> Times, tol |-> Tol, cfgs |-> BuildCfgs, ocfgs |-> OdeCfgs, sortperm |-> SortPerm(Subs0),
                aliases |-> [i \in 1..NS |-> AliasOf(i)],
                keylabels |-> LET ks == KeySeq(subs) IN [i \in 1..Len(ks) |-> <<ks[i], KeyLabel(ks[i])>>] ],
      cls |-> Class,
      exp |-> IF built = "rejected"
              THEN [ accept |-> FALSE, keys |-> KeySeq(subs), viol |-> [i \in 1..Len(rxns) |-> ViolSeq(rxns[i])],
                     anyviol |-> SetToSortSeq(AllViolatedKeys(subs, rxns), <) ]
              ELSE [ accept |-> TRUE, keys |-> KeySeq(subs), B |-> BMatrix(subs), Bq |-> BMatrixQ(subs), N |-> NetMatrix(rxns),
                     rank |-> RankB(subs), red |-> RedRec ] ]
Emit == Done => PrintT(<<"CASE", ToJson(CaseRec)>>)
=============================================================================
