INIT TInit
NEXT TNext
CONSTANTS
  SubPool <- PoolT
  GenKind = "none"
  MaxSide = 0
  Orders = {}
  MaxViol = 0
  OnlyBalanced = FALSE
  Inactive = FALSE
  AllowReverse = FALSE
  MaxRxns = 0
  KChoices <- KNoneT
  Decades = {}
  States = {}
  Steps = {}
  MaxSteps = 0
  StepCap <- CapT
  EmitDyn = FALSE
  MaxHist = 0
  MaxReorders = 0
  NewKs = {}
  NameOrder <- TimesT
  BuildCfgs <- TimesT
  IntegrCfgs <- TimesT
  OdeCfgs <- TimesT
  UnitCfgs <- TimesT
  Times <- TimesT
  Tol = 0
  DriftTolE12 = 10000
INVARIANT Verdict
INVARIANT TotalsKept
CHECK_DEADLOCK FALSE
