---------------------------- MODULE ConservationTrace ----------------------------
(* Trace validation for Conservation (C05, C06).  An execution of the real library is         *)
(* recorded as the construction of a system (Subst, Rxn events = the input), the outcome of   *)
(* submitting it (Build), and observations made on the accepted system; every event is        *)
(* replayed through the actions of Conservation and every observation is judged against its   *)
(* operators.  Batch protocol as in FormulaTrace: Init picks a trace id, every chain ends in  *)
(* verdict "accept" or "reject" and prints exactly one VERDICT line.                          *)
(*                                                                                            *)
(* A history on one system object is recorded as Query / Reorder events between the           *)
(* observations; every observation is judged against the substance order current at that     *)
(* point (Reorder permutes subs and every vector over them).                                  *)
(*                                                                                            *)
(* Observation encodings (binding layer): integers and Fractions exactly (<<n, d>>); the      *)
(* drift of an integration as ceil(|B.y(t) - B.c0| * 10^12) per row, capped at 2*10^9.        *)
EXTENDS Conservation, IOUtils

CONSTANTS DriftTolE12   \* allowed drift of an invariant per unit of row weight, in 10^-12

Traces == JsonDeserialize(IOEnv.TRACE_FILE)

VARIABLES tid, pos, verdict, forms
tvars == <<vars, tid, pos, verdict, forms>>

Ev == Traces[tid][pos]

TInit == Init /\ tid \in 1..Len(Traces) /\ pos = 1 /\ verdict = "none" /\ forms = <<>>

RxnOf(e) == [reac |-> e.reac, prod |-> e.prod, ireac |-> e.ireac, iprod |-> e.iprod, k |-> e.k]

(* Build: the constructor raised iff the system is not accepted; the error names a violated key *)
BuildOutcome(e) == e.raised <=> ~Accept(subs, rxns)
BuildIsValueError(e) == e.raised => e.exc = "ValueError"
BuildNamesKey(e) == e.raised => e.key \in AllViolatedKeys(subs, rxns)

(* check_balance(strict, throw) on a constructed system: the answer is Accept; with throw it  *)
(* raises a ValueError naming a violated key exactly when the system is not balanced          *)
CheckBalanceOK(e) ==
    IF e.throw THEN /\ e.raised <=> ~Accept(subs, rxns)
                    /\ (e.raised => (e.exc = "ValueError" /\ e.key \in AllViolatedKeys(subs, rxns)))
                    /\ (~e.raised => e.result)
    ELSE ~e.raised /\ (e.result <=> Accept(subs, rxns))

(* B @ N_obs^T = 0 for the observed net stoichiometry matrix *)
ObservedNetBalanced(N) ==
    KeysOf(subs) = {} \/
    LET B == BMatrix(subs) IN \A r \in 1..Len(B) : \A i \in 1..Len(N) : LA!Dot(B[r], N[i]) = 0

(* integration: every invariant stays at its initial value to solver tolerance *)
AbsI(x) == IF x < 0 THEN -x ELSE x
CeilQ(q) == IF q[1] % q[2] = 0 THEN q[1] \div q[2] ELSE (q[1] \div q[2]) + 1
RowWeight(r) == LET B == BMatrix(subs)  sc == CeilQ(Scale(subs, c0))
                IN  SumSeq([j \in 1..NS |-> AbsI(B[r][j]) * (1 + sc)])
DriftOK(dev) == \A r \in 1..Len(dev) : dev[r] <= DriftTolE12 * RowWeight(r)

QSeq(v) == [i \in 1..Len(v) |-> Norm(v[i])]
QMat(M) == [r \in 1..Len(M) |-> QSeq(M[r])]
(* an observation the binding layer could not encode (nan, inf, a wrong type or shape, a      *)
(* number beyond 32 bit) is recorded with a field bad: it equals no expectation               *)
IsBad(e) == "bad" \in DOMAIN e

Step(e) ==
    CASE IsBad(e)            -> FALSE
      [] e.ev = "Subst"      -> AddSubstance([name |-> e.name, comp |-> e.comp, den |-> e.den]) /\ UNCHANGED forms
      [] e.ev = "Rxn"        -> AddReaction(RxnOf(e)) /\ UNCHANGED forms
      [] e.ev = "Build"      -> Build /\ BuildOutcome(e) /\ BuildIsValueError(e) /\ BuildNamesKey(e) /\ UNCHANGED forms
      [] e.ev = "BuildUnchecked" -> BuildUnchecked /\ ~e.raised /\ UNCHANGED forms
      [] e.ev = "CheckBalance" -> /\ stage \in {"built", "dyn"}
                                  /\ CheckBalanceOK(e) /\ UNCHANGED <<vars, forms>>
      [] e.ev = "Violations" -> /\ stage \in {"built", "dyn"} /\ e.i \in 1..Len(rxns) /\ Len(e.net) = Len(e.keys)
                                /\ (e.allkeys => e.keys = KeySeq(subs))
                                /\ \A j \in 1..Len(e.keys) : Norm(e.net[j]) = ViolationQ(subs, rxns[e.i], e.keys[j])
                                /\ UNCHANGED <<vars, forms>>
      [] e.ev = "ChargeViolation" -> /\ stage \in {"built", "dyn"} /\ e.i \in 1..Len(rxns)
                                     /\ Norm(e.v) = ViolationQ(subs, rxns[e.i], 0) /\ UNCHANGED <<vars, forms>>
      [] e.ev = "LinDepAt"   -> /\ stage \in {"built", "dyn"} /\ Len(e.u) = NS /\ Len(e.y0) = NS
                                /\ FormOKAt(subs, e.elim, e.u, e.const, e.y0) /\ UNCHANGED <<vars, forms>>
      [] e.ev = "BVectors"   -> /\ stage \in {"built", "dyn"} /\ e.keys = KeySeq(subs) /\ QMat(e.B) = BMatrixQ(subs)
                                /\ UNCHANGED <<vars, forms>>
      [] e.ev = "NetStoich"  -> /\ stage \in {"built", "dyn"} /\ Len(e.N) = Len(rxns) /\ ObservedNetBalanced(e.N)
                                /\ UNCHANGED <<vars, forms>>
      [] e.ev = "RatesAt"    -> /\ SetState(e.c) /\ Len(e.f) = NS /\ IsQZeroVec(BTimes(subs, e.f))
                                /\ UNCHANGED forms
      [] e.ev = "LinDep"     -> /\ stage \in {"built", "dyn"} /\ Len(e.u) = NS /\ Len(e.w) = NS
                                /\ FormOK(subs, e.elim, e.u, e.w, e.const)
                                /\ forms' = Append(forms, e.u) /\ UNCHANGED vars
      [] e.ev = "LinDepDone" -> /\ stage \in {"built", "dyn"}
                                /\ (e.complete => FormsComplete(subs, forms))
                                /\ forms' = <<>> /\ UNCHANGED vars
      [] e.ev = "SetState"   -> SetState(e.c) /\ UNCHANGED forms
      [] e.ev = "Query"      -> Query(e.kind) /\ UNCHANGED forms
      [] e.ev = "Reorder"    -> Reorder(e.p) /\ UNCHANGED forms
      [] e.ev = "SetParam"   -> SetParam(e.j, Norm(e.k)) /\ UNCHANGED forms
      [] e.ev = "Names"      -> /\ stage \in {"built", "dyn"} /\ e.names = [i \in 1..NS |-> subs[i].name]
                                /\ UNCHANGED <<vars, forms>>
      [] e.ev = "Integrated" -> /\ stage = "dyn" /\ last = "set" /\ Len(e.dev) = Len(KeySeq(subs))
                                /\ DriftOK(e.dev) /\ UNCHANGED <<vars, forms>>
      [] e.ev = "Bounds"     -> /\ stage = "dyn" /\ last = "set"
                                /\ QSeq(e.ub) = BoundsSkip(subs, c, SeqRange(e.skip))
                                /\ UNCHANGED <<vars, forms>>
      [] e.ev = "SafeStep"   -> /\ stage = "dyn" /\ last = "set"
                                /\ InBox(Euler(rxns, c, Norm(e.h)), Bounds(subs, c))
                                /\ Norm(e.h) = MaxEulerStep(subs, rxns, c)
                                /\ SafeStep /\ UNCHANGED forms
      [] e.ev = "EulerStep"  -> EulerStep(Norm(e.h)) /\ UNCHANGED forms
      [] OTHER               -> FALSE

TStep ==
    /\ verdict = "none" /\ pos <= Len(Traces[tid])
    /\ IF Ev.ev = "End"
       THEN verdict' = "accept" /\ UNCHANGED <<vars, forms>>
       ELSE Step(Ev) /\ verdict' = "none"
    /\ pos' = pos + 1 /\ UNCHANGED tid

TReject ==
    /\ verdict = "none" /\ ~ENABLED TStep
    /\ verdict' = "reject" /\ UNCHANGED <<vars, tid, pos, forms>>

TNext == TStep \/ TReject

(* which conjunct of the current event failed *)
Clause ==
    IF pos > Len(Traces[tid]) THEN "no-end-event"
    ELSE LET e == Ev IN
      CASE IsBad(e) -> "unobservable:" \o e.ev
        [] e.ev = "Build" ->
              IF stage # "rxn" THEN "step:Build"
              ELSE IF ~e.raised /\ ~Accept(subs, rxns) THEN "accepted-unbalanced"
              ELSE IF e.raised /\ Accept(subs, rxns) THEN "rejected-balanced"
              ELSE IF e.exc # "ValueError" THEN "not-a-ValueError"
              ELSE "named-key-not-violated"
        [] e.ev = "BVectors" ->
              IF ~(stage \in {"built", "dyn"}) THEN "step:BVectors"
              ELSE IF e.keys # KeySeq(subs) THEN "keys" ELSE "B"
        [] e.ev = "NetStoich" -> IF ~(stage \in {"built", "dyn"}) \/ Len(e.N) # Len(rxns) THEN "step:NetStoich" ELSE "B.N^T"
        [] e.ev = "RatesAt" ->
              IF ~(stage \in {"built", "dyn"}) \/ Len(e.c) # NS \/ Len(e.f) # NS THEN "step:RatesAt"
              ELSE "B.rates"
        [] e.ev = "LinDep" ->
              IF ~(stage \in {"built", "dyn"}) \/ Len(e.u) # NS \/ Len(e.w) # NS THEN "step:LinDep"
              ELSE IF e.const[1] # 0 THEN "lindep-constant"
              ELSE IF QSeq(e.u) # QSeq(e.w) THEN "lindep-initial-values"
              ELSE IF Norm(e.u[e.elim]) # QOne THEN "lindep-not-solved-for"
              ELSE "lindep-not-an-invariant"
        [] e.ev = "LinDepDone" -> IF ~(stage \in {"built", "dyn"}) THEN "step:LinDepDone" ELSE "lindep-incomplete"
        [] e.ev = "BuildUnchecked" -> IF stage # "rxn" THEN "step:BuildUnchecked" ELSE "unchecked-construction-raised"
        [] e.ev = "CheckBalance" -> IF ~(stage \in {"built", "dyn"}) THEN "step:CheckBalance" ELSE "check_balance"
        [] e.ev = "Violations" ->
              IF ~(stage \in {"built", "dyn"}) \/ ~(e.i \in 1..Len(rxns)) \/ Len(e.net) # Len(e.keys) THEN "step:Violations"
              ELSE IF e.allkeys /\ e.keys # KeySeq(subs) THEN "violation-keys" ELSE "composition_violation"
        [] e.ev = "ChargeViolation" -> IF ~(stage \in {"built", "dyn"}) THEN "step:ChargeViolation" ELSE "charge_neutrality_violation"
        [] e.ev = "LinDepAt" ->
              IF ~(stage \in {"built", "dyn"}) \/ Len(e.u) # NS \/ Len(e.y0) # NS THEN "step:LinDepAt"
              ELSE IF Norm(e.u[e.elim]) # QOne THEN "lindep-not-solved-for"
              ELSE IF ~InRowSpace(subs, e.u) THEN "lindep-not-an-invariant"
              ELSE "lindep-numeric-constant"
        [] e.ev = "Names" -> IF ~(stage \in {"built", "dyn"}) THEN "step:Names" ELSE "substance-order"
        [] e.ev = "Integrated" ->
              IF ~(stage = "dyn" /\ last = "set") \/ Len(e.dev) # Len(KeySeq(subs)) THEN "step:Integrated"
              ELSE "drift"
        [] e.ev = "Bounds" -> IF ~(stage = "dyn" /\ last = "set") THEN "step:Bounds"
                              ELSE IF e.skip = <<>> THEN "bounds" ELSE "bounds-skip-keys"
        [] e.ev = "SafeStep" ->
              IF ~(stage = "dyn" /\ last = "set") THEN "step:SafeStep"
              ELSE IF ~InBox(Euler(rxns, c, Norm(e.h)), Bounds(subs, c)) THEN "step-leaves-box"
              ELSE "step-not-maximal"
        [] OTHER -> "step:" \o e.ev

(* constants of the generators, unused when validating traces *)
PoolT == <<>>
KNoneT(p) == {}
CapT == <<1, 1>>
TimesT == <<>>

Verdict == verdict # "none" =>
    PrintT(<<"VERDICT", tid, verdict, pos, IF verdict = "accept" THEN "" ELSE Clause>>)
=============================================================================
