---------------------------- MODULE Conservation_MC ----------------------------
(* Constant definitions for the sliced configurations of Conservation (C05, C06).             *)
(* Substances carry real formulas as names so that the same systems can also be handed to     *)
(* the library as TEXT (keys: 0 = charge, 1 = H, 7 = N, 8 = O).                               *)
EXTENDS Conservation

S(name, comp) == [name |-> name, comp |-> comp]
H2O  == S("H2O",  <<<<1, 2>>, <<8, 1>>>>)
Hp   == S("H+",   <<<<0, 1>>, <<1, 1>>>>)
OHm  == S("OH-",  <<<<0, -1>>, <<1, 1>>, <<8, 1>>>>)
El   == S("e-",   <<<<0, -1>>>>)
Hat  == S("H",    <<<<1, 1>>>>)
H2   == S("H2",   <<<<1, 2>>>>)
O2   == S("O2",   <<<<8, 2>>>>)
H2O2 == S("H2O2", <<<<1, 2>>, <<8, 2>>>>)
OH   == S("OH",   <<<<1, 1>>, <<8, 1>>>>)
HO2  == S("HO2",  <<<<1, 1>>, <<8, 2>>>>)
O2m  == S("O2-",  <<<<0, -1>>, <<8, 2>>>>)

Pool4 == <<H2O, Hp, OHm, El>>
Pool5 == <<Hp, OHm, H2O, Hat, El>>
Pool6 == <<H2O, Hp, OHm, Hat, El, H2>>
Pool7 == <<OH, Hp, OHm, H2O, El, Hat, H2>>
PoolRad == <<Hat, OH, H2O, H2, H2O2>>
PoolRad6 == <<Hat, OH, H2O, H2, H2O2, O2, HO2>>

(* isomers and dimers for first-order networks *)
NO2a  == S("NO2",    <<<<7, 1>>, <<8, 2>>>>)
NO2b  == S("ONO",    <<<<7, 1>>, <<8, 2>>>>)
N2O4a == S("N2O4",   <<<<7, 2>>, <<8, 4>>>>)
N2O4b == S("ONONO2", <<<<7, 2>>, <<8, 4>>>>)
IsoA == S("C3H6O",      <<<<1, 6>>, <<6, 3>>, <<8, 1>>>>)
IsoB == S("CH3COCH3",   <<<<1, 6>>, <<6, 3>>, <<8, 1>>>>)
IsoC == S("CH3CH2CHO",  <<<<1, 6>>, <<6, 3>>, <<8, 1>>>>)
IsoD == S("CH2CHCH2OH", <<<<1, 6>>, <<6, 3>>, <<8, 1>>>>)
PoolNO3 == <<NO2a, NO2b, N2O4a>>
PoolNO4 == <<NO2a, N2O4a, NO2b, N2O4b>>
PoolIso3 == <<IsoA, IsoB, IsoC>>
PoolIso4 == <<IsoB, IsoA, IsoD, IsoC>>

(* rate constants by position (distinct, so equal stoichiometry never means equal reaction) *)
KSeq == <<<<2, 1>>, <<1, 2>>, <<3, 1>>, <<5, 1>>>>
KPos(p) == {KSeq[p]}
KFew(p) == IF p = 1 THEN {<<3, 1>>, <<1, 10>>} ELSE {<<1, 2>>, <<10, 1>>}
KNone(p) == {}

Box(n, hi) == [1..n -> 0..hi]
St5 == Box(5, 2)
St5b == { v \in Box(5, 3) : VSum(v) \in 2..6 /\ VSum(v) % 2 = 0 }
St4 == Box(4, 2)
St6 == { v \in Box(6, 2) : VSum(v) \in 2..3 }
St5q == Box(5, 1) \cup {<<3, 0, 1, 2, 0>>, <<0, 3, 2, 1, 1>>, <<2, 2, 0, 0, 3>>, <<1, 0, 3, 0, 2>>}
StRad == { v \in Box(5, 3) : VSum(v) \in 1..5 }
StRadQ == {<<1, 1, 1, 1, 1>>, <<2, 0, 1, 0, 3>>, <<0, 3, 0, 2, 1>>, <<3, 2, 1, 0, 0>>, <<0, 0, 2, 1, 2>>, <<1, 2, 0, 3, 0>>}
StRadB == {<<2, 1, 1, 1, 2>>, <<3, 2, 0, 1, 0>>, <<0, 1, 3, 2, 1>>}
StRadT == { v \in Box(5, 3) : VSum(v) = 3 } \cup {<<2, 1, 0, 1, 1>>, <<0, 2, 2, 1, 0>>, <<3, 0, 1, 0, 2>>, <<1, 1, 1, 1, 1>>}
StRad6T == { v \in Box(7, 2) : VSum(v) = 2 } \cup {<<1, 1, 1, 1, 1, 1, 1>>, <<2, 0, 1, 0, 1, 2, 0>>, <<0, 2, 0, 1, 0, 1, 2>>}
StRad6B == {<<1, 1, 1, 1, 1, 1, 1>>, <<2, 0, 1, 0, 1, 2, 0>>, <<0, 2, 0, 1, 0, 1, 2>>, <<3, 1, 0, 2, 2, 0, 1>>}
StIso4a == {<<3, 0, 1, 2>>}
StNO3 == {<<3, 1, 2>>, <<0, 0, 4>>, <<1, 0, 0>>}
StNO4 == {<<3, 2, 0, 1>>, <<0, 4, 0, 0>>}
StIso3 == {<<3, 1, 0>>, <<0, 0, 2>>}
StIso4 == {<<3, 0, 1, 2>>, <<0, 1, 0, 0>>}

St5d == { v \in Box(5, 1) : VSum(v) = 2 } \cup {<<3, 0, 1, 2, 0>>, <<0, 3, 2, 1, 1>>, <<2, 2, 0, 0, 3>>}
StepsB == {<<1, 2>>, <<-1, 3>>}
StepsA == {<<1, 2>>, <<-1, 3>>, <<2, 1>>}
StepsNone == {}
EmptySet == {}
DecNarrow == {-1, 0, 1}
DecWide == {-3, 0, 3}
DecMid == {-2, 0, 2}
DecTwo == {-2, 2}
DecZero == {0}
Cap1 == <<1, 1>>
OdeCfgsA == << [name |-> "dep1000", dep |-> <<1000, 1>>, indep |-> <<1, 1>>],
               [name |-> "dep1/50", dep |-> <<1, 50>>, indep |-> <<1, 1>>],
               [name |-> "dep7-indep13", dep |-> <<7, 1>>, indep |-> <<13, 1>>] >>
NewKsA == {<<7, 1>>, <<1, 20>>}
(* ASCII order of every substance name used in the pools (what sorting by name gives) *)
NameOrderA == << "C3H5OH", "C3H6O", "CH2C(OH)CH3", "CH2CHCH2OH", "CH3CH2CHO", "CH3CHCHOH", "CH3COCH3", "Fe+3", "Fe2O3", "FeO", "FeO1.5", "H", "H+", "H2", "H2O", "H2O2", "HO2", "M", "N2", "N2O4", "NH3", "NO", "NO2", "O(CH2)3", "O0.5-", "O2", "O2-", "OH", "OH-", "ONO", "ONONO2", "e-", "hv" >>
BuildCfgsA == << [name |-> "default", checked |-> TRUE], [name |-> "checks_balance", checked |-> TRUE],
                 [name |-> "checks_all_listed", checked |-> TRUE], [name |-> "dont_check_duplicate", checked |-> TRUE],
                 [name |-> "dont_check_balance", checked |-> FALSE], [name |-> "checks_none", checked |-> FALSE],
                 [name |-> "checks_without_balance", checked |-> FALSE] >>
Tight == [atol |-> <<1, 1000000000>>, rtol |-> <<1, 1000000000>>]
Loose == [atol |-> <<1, 1000000>>, rtol |-> <<1, 1000000>>]
(* guard: the band factor of the configuration (a BDF code controls only the local error; its   *)
(* global error on decays with k = 1000 reaches 1e-5 at a requested 1e-9: guard 10^5).  The   *)
(* end-point form is asked of lsoda only: the step-by-step driving of vode / dopri5 / dop853   *)
(* by the delegated integrator overshoots the end and loses accuracy there (not chempy code).  *)
IC(name, solver, tol, c0form, tform, explicit, guard) ==
    [name |-> name, solver |-> solver, tol |-> tol, c0form |-> c0form, tform |-> tform, explicit |-> explicit,
     guard |-> guard]
IntegrCfgsA == << IC("lsoda-tight-dict-grid", "lsoda", Tight, "dict", "grid", FALSE, 200),
                  IC("lsoda-loose-array-grid", "lsoda", Loose, "array", "grid", FALSE, 200),
                  IC("bdf-tight-dict-grid", "vode-bdf", Tight, "dict", "grid", FALSE, 100000),
                  IC("lsoda-tight-array-end", "lsoda", Tight, "array", "end", FALSE, 200),
                  IC("adams-tight-array-grid", "vode-adams", Tight, "array", "grid", TRUE, 2000),
                  IC("dopri5-loose-dict-grid", "dopri5", Loose, "dict", "grid", TRUE, 200),
                  IC("dop853-tight-array-grid", "dop853", Tight, "array", "grid", TRUE, 200) >>
IntegrCfgsNone == <<>>
TimesL == <<<<1, 100>>, <<1, 1>>, <<20, 1>>, <<200, 1>>>>
IsoE == S("CH3CHCHOH",   <<<<1, 6>>, <<6, 3>>, <<8, 1>>>>)
IsoF == S("CH2C(OH)CH3", <<<<1, 6>>, <<6, 3>>, <<8, 1>>>>)
IsoG == S("C3H5OH",      <<<<1, 6>>, <<6, 3>>, <<8, 1>>>>)
IsoH == S("O(CH2)3",     <<<<1, 6>>, <<6, 3>>, <<8, 1>>>>)
PoolIso8 == <<IsoB, IsoH, IsoA, IsoD, IsoG, IsoC, IsoF, IsoE>>
StIso8 == {<<3, 0, 1, 2, 0, 1, 0, 2>>}
U(name, tout, cout, tin, cin, kt, kc) == [name |-> name, tout |-> tout, cout |-> cout, tin |-> tin, cin |-> cin, kt |-> kt, kc |-> kc]
UnitsNone == <<>>
UnitsA == << U("min-M", "minute", "molar", "minute", "molar", "minute", "molar"),
             U("ms-mM", "millisecond", "millimolar", "second", "molar", "second", "molar"),
             U("h-uM", "hour", "micromolar", "minute", "millimolar", "hour", "millimolar"),
             U("s-mM", "second", "millimolar", "second", "millimolar", "second", "millimolar") >>
PoolW == <<OHm, Hp, H2O>>
(* fractional composition counts: comp / den *)
SD(name, comp, den) == [name |-> name, comp |-> comp, den |-> den]
FeO15 == SD("FeO1.5", <<<<8, 3>>, <<26, 2>>>>, 2)
Fe2O3 == SD("Fe2O3",  <<<<8, 3>>, <<26, 2>>>>, 1)
FeOx  == SD("FeO",    <<<<8, 1>>, <<26, 1>>>>, 1)
O2d   == SD("O2",     <<<<8, 2>>>>, 1)
Fe3p  == SD("Fe+3",   <<<<0, 3>>, <<26, 1>>>>, 1)
O05m  == SD("O0.5-",  <<<<0, -2>>, <<8, 1>>>>, 2)
PoolFrac == <<FeO15, O2d, Fe2O3, FeOx>>
PoolFracT == <<FeO15, O2d, Fe2O3, FeOx, Fe3p, O05m>>
(* substances that are composed of nothing: a third body, a photon *)
Mbody == S("M", <<>>)
Photon == S("hv", <<>>)
PoolM == <<H2O, Hp, Mbody, OHm>>
PoolMt == <<H2O, Hp, Mbody, OHm, Photon>>
StNO3b == {<<3, 1, 2>>, <<1, 2, 0>>, <<0, 1, 3>>}
NH3 == S("NH3", <<<<1, 3>>, <<7, 1>>>>)
N2 == S("N2", <<<<7, 2>>>>)
NO == S("NO", <<<<7, 1>>, <<8, 1>>>>)
PoolNH == <<H2, NH3, N2>>
PoolPer == <<H2O2, O2, H2O>>
PoolNOx == <<NO2a, N2O4a, O2, NO>>
TimesA == <<<<1, 100>>, <<1, 10>>, <<1, 1>>, <<5, 1>>>>
TolA == [atol |-> <<1, 1000000000>>, rtol |-> <<1, 1000000000>>, guard |-> 200, steprtol |-> <<1, 1000000000>>]
=============================================================================
