INIT Init
NEXT Next
CONSTANTS
  SubPool <- PoolNO3
  GenKind = "multiset"
  MaxSide = 2
  Orders = {1, 2}
  MaxViol = 0
  OnlyBalanced = TRUE
  Inactive = FALSE
  AllowReverse = TRUE
  MaxRxns = 1
  KChoices <- KFew
  Decades <- EmptySet
  States <- StNO3b
  Steps <- EmptySet
  MaxSteps = 1
  StepCap <- Cap1
  EmitDyn = TRUE
  MaxHist = 0
  MaxReorders = 0
  NewKs <- EmptySet
  NameOrder <- NameOrderA
  BuildCfgs <- BuildCfgsA
  IntegrCfgs <- IntegrCfgsA
  OdeCfgs <- OdeCfgsA
  UnitCfgs <- UnitsA
  Times <- TimesA
  Tol <- TolA
INVARIANT TypeOK
INVARIANT RatesConserve
INVARIANT TotalsKept
INVARIANT BoundsAfterSafeStep
INVARIANT InitialStateInBox
INVARIANT SafeStepIsMaximal
INVARIANT SafeStepPositive
INVARIANT BoundDominatesGrid
INVARIANT SkipKeysRelax
INVARIANT GeneratorIsRhs
INVARIANT UnitTextRoundTrip
INVARIANT Emit
PROPERTY ConservationAction
CHECK_DEADLOCK FALSE
