INIT Init
NEXT Next
CONSTANTS
  SubPool <- Pool5
  GenKind = "multiset"
  MaxSide = 2
  Orders = {1, 2}
  MaxViol = 0
  OnlyBalanced = TRUE
  Inactive = FALSE
  AllowReverse = FALSE
  MaxRxns = 2
  KChoices <- KPos
  Decades <- EmptySet
  States <- St5d
  Steps <- StepsB
  MaxSteps = 2
  StepCap <- Cap1
  EmitDyn = FALSE
  MaxHist = 0
  MaxReorders = 0
  NewKs <- EmptySet
  NameOrder <- NameOrderA
  BuildCfgs <- BuildCfgsA
  IntegrCfgs <- IntegrCfgsNone
  OdeCfgs <- IntegrCfgsNone
  UnitCfgs <- UnitsNone
  Times <- TimesA
  Tol <- TolA
INVARIANT TypeOK
INVARIANT AcceptIffBNtZero
INVARIANT RatesConserve
INVARIANT TotalsKept
INVARIANT BoundsAfterSafeStep
INVARIANT InitialStateInBox
INVARIANT SafeStepIsMaximal
INVARIANT SafeStepPositive
INVARIANT BoundDominatesGrid
PROPERTY ConservationAction
CHECK_DEADLOCK FALSE
