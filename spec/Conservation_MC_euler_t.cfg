INIT Init
NEXT Next
CONSTANTS
  SubPool <- PoolRad6
  GenKind = "multiset"
  MaxSide = 2
  Orders = {1, 2}
  MaxViol = 0
  OnlyBalanced = TRUE
  Inactive = FALSE
  AllowReverse = FALSE
  MaxRxns = 1
  KChoices <- KPos
  Decades <- EmptySet
  States <- StRad6T
  Steps <- EmptySet
  MaxSteps = 1
  StepCap <- Cap1
  EmitDyn = TRUE
  MaxHist = 0
  MaxReorders = 0
  NewKs <- EmptySet
  NameOrder <- NameOrderA
  BuildCfgs <- BuildCfgsA
  IntegrCfgs <- IntegrCfgsA
  OdeCfgs <- OdeCfgsA
  UnitCfgs <- UnitsNone
  Times <- TimesA
  Tol <- TolA
INVARIANT TypeOK
INVARIANT RatesConserve
INVARIANT TotalsKept
INVARIANT BoundsAfterSafeStep
INVARIANT InitialStateInBox
INVARIANT SafeStepIsMaximal
INVARIANT SafeStepPositive
INVARIANT BoundDominatesGrid
INVARIANT SkipKeysRelax
INVARIANT GeneratorIsRhs
INVARIANT Emit
PROPERTY ConservationAction
CHECK_DEADLOCK FALSE
