INIT Init
NEXT Next
CONSTANTS
  SubPool <- PoolW
  GenKind = "multiset"
  MaxSide = 2
  Orders = {1, 2}
  MaxViol = 0
  OnlyBalanced = FALSE
  Inactive = TRUE
  AllowReverse = TRUE
  MaxRxns = 1
  KChoices <- KPos
  Decades <- EmptySet
  States <- EmptySet
  Steps <- EmptySet
  MaxSteps = 0
  StepCap <- Cap1
  EmitDyn = FALSE
  MaxHist = 0
  MaxReorders = 0
  NewKs <- EmptySet
  NameOrder <- NameOrderA
  BuildCfgs <- BuildCfgsA
  IntegrCfgs <- IntegrCfgsNone
  OdeCfgs <- IntegrCfgsNone
  UnitCfgs <- UnitsNone
  Times <- TimesA
  Tol <- TolA
INVARIANT TypeOK
INVARIANT AcceptIffBNtZero
INVARIANT ViolationIsBNt
INVARIANT RejectedNamesAKey
INVARIANT ReductionKeepsAcceptance
INVARIANT Emit
CHECK_DEADLOCK FALSE
