INIT Init
NEXT Next
CONSTANTS
  SubPool <- PoolIso8
  GenKind = "network"
  MaxSide = 0
  Orders = {}
  MaxViol = 0
  OnlyBalanced = FALSE
  Inactive = FALSE
  AllowReverse = FALSE
  MaxRxns = 10
  KChoices <- KNone
  Decades <- DecTwo
  States <- StIso8
  Steps <- EmptySet
  MaxSteps = 1
  StepCap <- Cap1
  EmitDyn = TRUE
  MaxHist = 0
  MaxReorders = 0
  NewKs <- EmptySet
  NameOrder <- NameOrderA
  BuildCfgs <- BuildCfgsA
  IntegrCfgs <- IntegrCfgsA
  OdeCfgs <- OdeCfgsA
  UnitCfgs <- UnitsA
  Times <- TimesL
  Tol <- TolA
INVARIANT TypeOK
INVARIANT BoundsAfterSafeStep
INVARIANT GeneratorIsRhs
INVARIANT UnitTextRoundTrip
INVARIANT Emit
CHECK_DEADLOCK FALSE
