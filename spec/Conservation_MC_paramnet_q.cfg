INIT Init
NEXT Next
CONSTANTS
  SubPool <- PoolNO3
  GenKind = "network"
  MaxSide = 0
  Orders = {}
  MaxViol = 0
  OnlyBalanced = FALSE
  Inactive = FALSE
  AllowReverse = FALSE
  MaxRxns = 2
  KChoices <- KNone
  Decades <- DecMid
  States <- StNO3
  Steps <- EmptySet
  MaxSteps = 1
  StepCap <- Cap1
  EmitDyn = TRUE
  MaxHist = 0
  MaxReorders = 0
  NewKs <- NewKsA
  NameOrder <- NameOrderA
  BuildCfgs <- BuildCfgsA
  IntegrCfgs <- IntegrCfgsA
  OdeCfgs <- OdeCfgsA
  UnitCfgs <- UnitsA
  Times <- TimesA
  Tol <- TolA
INVARIANT TypeOK
INVARIANT RatesConserve
INVARIANT TotalsKept
INVARIANT BoundsAfterSafeStep
INVARIANT InitialStateInBox
INVARIANT SafeStepIsMaximal
INVARIANT SafeStepPositive
INVARIANT BoundDominatesGrid
INVARIANT GeneratorIsRhs
INVARIANT UnitTextRoundTrip
INVARIANT Emit
PROPERTY ConservationAction
CHECK_DEADLOCK FALSE
