---------------------------- MODULE Decimal ----------------------------
(* Exact decimal numbers as (sign, digit sequence, exponent) - shared by Numbers (C20) and     *)
(* ReactionText (C12).  Operators only, no variables.                                          *)
(*                                                                                            *)
(* A decimal is a record [neg, digs, e] denoting  (-1)^neg * d1.d2...dk * 10^e  (the digit    *)
(* sequence is big-endian, the decimal point sits after the first digit, so for a normalised  *)
(* non-zero number e is its decade floor(log10|x|)).  Zero has digs = <<>>.  All arithmetic   *)
(* is digit-wise; differences are taken on BigNat limb sequences, so nothing is limited by    *)
(* TLC's 32-bit integers (exponents stay small: |e| < 400).                                   *)
EXTENDS Integers, Sequences, TLC, BigNat

Dec(neg, digs, e) == [neg |-> neg, digs |-> digs, e |-> e]
DZero == Dec(FALSE, <<>>, 0)
IsDigitSeq(s) == \A i \in 1..Len(s) : s[i] \in 0..9
IsDec(x) == x.neg \in BOOLEAN /\ IsDigitSeq(x.digs) /\ x.e \in Int

\* (not recursive: plain layouts of numbers near 1e-300 have hundreds of zeros)
NonZeroIdx(s) == { i \in 1..Len(s) : s[i] # 0 }
LeadZeros(s) == LET nz == NonZeroIdx(s) IN
                IF nz = {} THEN Len(s) ELSE (CHOOSE i \in nz : \A j \in nz : i <= j) - 1
TrailZeros(s) == LET nz == NonZeroIdx(s) IN
                 IF nz = {} THEN Len(s) ELSE Len(s) - (CHOOSE i \in nz : \A j \in nz : j <= i)

(* normal form: first and last digit non-zero; zero is DZero *)
DNorm(x) ==
    LET lz == LeadZeros(x.digs) IN
    IF lz = Len(x.digs) THEN DZero
    ELSE LET s1 == SubSeq(x.digs, lz + 1, Len(x.digs))
             tz == TrailZeros(s1)
         IN  Dec(x.neg, SubSeq(s1, 1, Len(s1) - tz), x.e - lz)
IsNorm(x) == x = DNorm(x)
DIsZero(x) == DNorm(x).digs = <<>>
DEq(a, b) == DNorm(a) = DNorm(b)
DNeg(x) == IF DIsZero(x) THEN x ELSE [x EXCEPT !.neg = ~x.neg]

(* power of ten of the last written digit; digit at a given power of ten *)
LastPos(x) == x.e - Len(x.digs) + 1
DigitAt(x, pos) == LET i == x.e - pos + 1 IN IF i \in 1..Len(x.digs) THEN x.digs[i] ELSE 0
IsMultipleOfPow10(x, pos) == DIsZero(x) \/ LastPos(DNorm(x)) >= pos

(* |x| / 10^q as a digit sequence (q <= LastPos(x), or x is zero) *)
ScaledDigits(x, q) == IF x.digs = <<>> \/ x.e < q THEN <<>>
                      ELSE [i \in 1..(x.e - q + 1) |-> DigitAt(x, x.e - i + 1)]
(* big-endian decimal digits -> little-endian limbs base 10^4, four digits per limb *)
DigitsToB(s) ==
    LET n == Len(s)
        L == (n + 3) \div 4
        dg(k) == IF k >= 1 THEN s[k] ELSE 0
    IN  BTrim([j \in 1..L |-> LET hi == n - 4 * (j - 1)
                              IN  dg(hi) + 10 * dg(hi - 1) + 100 * dg(hi - 2) + 1000 * dg(hi - 3)])
ScaledB(x, q) == DigitsToB(ScaledDigits(x, q))

MinInt(a, b) == IF a < b THEN a ELSE b
MaxInt(a, b) == IF a > b THEN a ELSE b
RECURSIVE MinLastPos(_)
\* smallest last-digit position among the non-zero decimals of a sequence (0 if all are zero)
MinLastPos(ds) ==
    IF ds = <<>> THEN 0
    ELSE LET h == Head(ds)  r == Tail(ds) IN
         IF h.digs = <<>> THEN MinLastPos(r)
         ELSE IF \A i \in 1..Len(r) : r[i].digs = <<>> THEN LastPos(h)
         ELSE MinInt(LastPos(h), MinLastPos(r))
RECURSIVE BSumSeq(_)
BSumSeq(bs) == IF bs = <<>> THEN <<>> ELSE BAdd(Head(bs), BSumSeq(Tail(bs)))

(* |a - b| <= sum of the (non-negative) tolerances in tols, exactly *)
WithinTol(a, b, tols) ==
    LET an == DNorm(a)  bn == DNorm(b)
        q == MinLastPos(<<an, bn>> \o tols)
        A == ScaledB(an, q)
        B == ScaledB(bn, q)
        T == BSumSeq([i \in 1..Len(tols) |-> ScaledB(tols[i], q)])
        diff == IF an.neg = bn.neg \/ an.digs = <<>> \/ bn.digs = <<>> THEN BAbsDiff(A, B) ELSE BAdd(A, B)
    IN  \* decades far apart: decided without building long digit sequences
        IF an.digs # <<>> /\ bn.digs # <<>> /\ (an.e - bn.e > 40 \/ bn.e - an.e > 40) THEN FALSE
        ELSE BLe(diff, T)

(* multiplication by a small natural (m < 2*10^5): on the limbs, then back to digits *)
LimbDigits(l) == <<l \div 1000, (l \div 100) % 10, (l \div 10) % 10, l % 10>>
RECURSIVE BToDigitsFrom(_, _)
BToDigitsFrom(b, i) == IF i = 0 THEN <<>> ELSE LimbDigits(b[i]) \o BToDigitsFrom(b, i - 1)
BToDigits(b) == BToDigitsFrom(b, Len(b))             \* big-endian, possibly with leading zeros
DScale(x, m) ==
    IF x.digs = <<>> \/ m = 0 THEN DZero
    ELSE LET ds == BToDigits(BMulSmall(DigitsToB(x.digs), m))
         IN  DNorm(Dec(x.neg, ds, LastPos(x) + Len(ds) - 1))

(* comparison of magnitudes: -1, 0, 1 *)
DCmpAbs(a, b) ==
    LET an == DNorm(a)  bn == DNorm(b) IN
    IF an.digs = <<>> /\ bn.digs = <<>> THEN 0
    ELSE IF an.digs = <<>> THEN -1 ELSE IF bn.digs = <<>> THEN 1
    ELSE IF an.e < bn.e THEN -1 ELSE IF an.e > bn.e THEN 1
    ELSE LET q == MinInt(LastPos(an), LastPos(bn)) IN BCmp(ScaledB(an, q), ScaledB(bn, q))

------------------------------------------------------------------------------
(* rounding to n significant digits (x normalised, non-zero, n >= 1) *)
PadDigits(s, n) == [i \in 1..n |-> IF i <= Len(s) THEN s[i] ELSE 0]
\* the discarded tail 0.s[n+1]s[n+2]... compared with one half: -1 below, 0 tie, 1 above
TailVsHalf(s, n) ==
    IF Len(s) <= n THEN -1
    ELSE IF s[n + 1] > 5 THEN 1
    ELSE IF s[n + 1] < 5 THEN -1
    ELSE IF \E i \in (n + 2)..Len(s) : s[i] # 0 THEN 1 ELSE 0
RECURSIVE IncDigits(_)
\* one unit in the last place, with carry; the result is one digit longer when all digits were 9
IncDigits(s) == IF s = <<>> THEN <<1>>
                ELSE IF s[Len(s)] < 9 THEN [s EXCEPT ![Len(s)] = @ + 1]
                ELSE IncDigits(SubSeq(s, 1, Len(s) - 1)) \o <<0>>
RoundDown(x, n) == DNorm(Dec(x.neg, PadDigits(x.digs, n), x.e))
RoundUp(x, n) ==       \* away from zero; all nines carry into a new decade: 9.99 -> 10.0
    LET t == IncDigits(PadDigits(x.digs, n)) IN
    IF Len(t) > n THEN DNorm(Dec(x.neg, t, x.e + 1)) ELSE DNorm(Dec(x.neg, t, x.e))
IsTie(x, n) == TailVsHalf(x.digs, n) = 0
\* canonical rounding: to nearest, ties to even (what a correctly rounded "%.{n}g" does)
RoundSig(x, n) ==
    LET c == TailVsHalf(x.digs, n) IN
    IF c > 0 THEN RoundUp(x, n)
    ELSE IF c < 0 THEN RoundDown(x, n)
    ELSE IF PadDigits(x.digs, n)[n] % 2 = 0 THEN RoundDown(x, n) ELSE RoundUp(x, n)
\* every value a faithful rounding may produce (both neighbours on an exact tie)
RoundSigSet(x, n) == IF IsTie(x, n) THEN {RoundDown(x, n), RoundUp(x, n)} ELSE {RoundSig(x, n)}
CarriesDecade(x, n) == RoundSig(x, n).e = x.e + 1
\* rounding at a power of ten (pos <= x.e)
RoundAt(x, pos) == RoundSig(x, x.e - pos + 1)
RoundAtSet(x, pos) == RoundSigSet(x, x.e - pos + 1)

(* half a unit of the n-th significant digit of x; half a unit at a power of ten *)
HalfUlp(x, n) == Dec(FALSE, <<5>>, x.e - n)
HalfAt(pos) == Dec(FALSE, <<5>>, pos - 1)
\* allowance for binary floating point: a float whose shortest repr is x differs from x by at most
\* 2^-53 |x| < 1.2 * 10^(e-15), and a formatter that scales by powers of ten and back loses a few
\* more units in the last place; a double carries 15 reliable significant decimal digits (DBL_DIG),
\* so one unit of the 15th digit is allowed.  It matters only where more than 15 digits are asked
\* for (value with uncertainty: nominal digits = decades between value and uncertainty + precision).
BinSlack(x) == Dec(FALSE, <<1>>, x.e - 14)
WithinHalfUlpExact(d, x, n) == WithinTol(d, x, <<HalfUlp(x, n)>>)
WithinHalfUlp(d, x, n) == WithinTol(d, x, <<HalfUlp(x, n), BinSlack(x)>>)
NumSig(x) == Len(DNorm(x).digs)

(* text helpers (strings are atomic in TLC: lengths are computed arithmetically) *)
IntLen(k) == IF k < 10 THEN 1 ELSE IF k < 100 THEN 2 ELSE IF k < 1000 THEN 3 ELSE IF k < 10000 THEN 4 ELSE 5
SignedIntLen(k) == IF k < 0 THEN 1 + IntLen(-k) ELSE IntLen(k)
RECURSIVE DigStr(_)
DigStr(s) == IF s = <<>> THEN "" ELSE ToString(Head(s)) \o DigStr(Tail(s))

(* sanity facts, evaluated when the module is loaded *)
ASSUME DNorm(Dec(TRUE, <<0, 0, 1, 2, 0>>, 3)) = Dec(TRUE, <<1, 2>>, 1)
ASSUME RoundSig(Dec(FALSE, <<9, 9, 9, 9, 6>>, 0), 4) = Dec(FALSE, <<1>>, 1)
ASSUME RoundSig(Dec(FALSE, <<1, 2, 5>>, -3), 2) = Dec(FALSE, <<1, 2>>, -3)
ASSUME RoundSig(Dec(FALSE, <<1, 3, 5>>, -3), 2) = Dec(FALSE, <<1, 4>>, -3)
ASSUME RoundSigSet(Dec(FALSE, <<2, 5>>, 0), 1) = {Dec(FALSE, <<2>>, 0), Dec(FALSE, <<3>>, 0)}
ASSUME RoundSig(Dec(TRUE, <<1, 2, 3, 4, 5, 6>>, -17), 3) = Dec(TRUE, <<1, 2, 3>>, -17)
ASSUME DigitsToB(<<1, 2, 3, 4, 5, 6, 7, 8, 9>>) = <<6789, 2345, 1>>
ASSUME WithinHalfUlpExact(Dec(FALSE, <<1>>, 1), Dec(FALSE, <<9, 9, 9, 9, 6>>, 0), 4)
ASSUME ~WithinHalfUlpExact(Dec(FALSE, <<9, 9, 9, 9>>, 0), Dec(FALSE, <<9, 9, 9, 9, 6>>, 0), 4)
ASSUME WithinHalfUlpExact(Dec(FALSE, <<1, 2>>, 300), Dec(FALSE, <<1, 2, 5>>, 300), 2)
ASSUME ~WithinHalfUlpExact(Dec(FALSE, <<1, 2>>, -300), Dec(FALSE, <<1, 2, 5, 1>>, -300), 2)
ASSUME ~WithinHalfUlp(Dec(TRUE, <<1, 2>>, 3), Dec(FALSE, <<1, 2>>, 3), 2)
ASSUME DCmpAbs(Dec(TRUE, <<1, 2>>, 3), Dec(FALSE, <<1, 1, 9>>, 3)) = 1
ASSUME DigStr(<<1, 0, 7>>) = "107"
ASSUME DScale(Dec(FALSE, <<2, 5>>, 0), 3600) = Dec(FALSE, <<9>>, 3)
ASSUME DScale(Dec(TRUE, <<1, 2, 3, 4, 5, 6, 7>>, -3), 60) = Dec(TRUE, <<7, 4, 0, 7, 4, 0, 2>>, -2)
=============================================================================
